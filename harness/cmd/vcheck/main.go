// vcheck drives the runtime-monitoring checks:  vcheck <Cxx> [--tier quick|thorough] [--replay file]
// and doubles as the child process binary:    vcheck child <mode> args...
package main

import (
	"fmt"
	"os"

	"verifharness/checks"
)

func main() {
	if len(os.Args) < 2 {
		fmt.Fprintf(os.Stderr, "usage: vcheck <id> [--tier quick|thorough] [--replay file] | vcheck child <mode> ...\nchecks: %v\n", checks.IDs())
		os.Exit(2)
	}

	if os.Args[1] == "child" {
		if len(os.Args) < 3 {
			os.Exit(2)
		}

		fn, ok := checks.ChildModes[os.Args[2]]
		if !ok {
			fmt.Fprintf(os.Stderr, "unknown child mode %q\n", os.Args[2])
			os.Exit(2)
		}

		os.Exit(fn(os.Args[3:]))
	}

	id := os.Args[1]
	tier := os.Getenv("VERIF_TIER")
	replay := ""

	for i := 2; i < len(os.Args); i++ {
		switch os.Args[i] {
		case "--tier":
			if i+1 < len(os.Args) {
				tier = os.Args[i+1]
				i++
			}
		case "--replay":
			if i+1 < len(os.Args) {
				replay = os.Args[i+1]
				i++
			}
		default:
			if os.Args[i] == "quick" || os.Args[i] == "thorough" {
				tier = os.Args[i]
			}
		}
	}

	if tier == "" {
		tier = "quick"
	}

	os.Exit(checks.Main(id, tier, replay))
}

// Package hconn is the harness connector: a deterministic remote with explicit,
// harness-controlled delivery of updates, recorded acknowledgements, collected (not
// auto-delivered) echoes and a fault schedule for every remote call.
package hconn

import (
	"context"
	"errors"
	"fmt"
	"sort"
	"strings"
	"sync"
	"time"

	"github.com/ProtonMail/gluon/connector"
	"github.com/ProtonMail/gluon/imap"
)

// ErrInjected is the generic injected remote failure.
var ErrInjected = errors.New("verif: injected remote failure")

// Call is one recorded remote call.
type Call struct {
	Kind string
	N    int // per-kind ordinal, starting at 1
	Err  string
}

// Msg is a message of the remote.
type Msg struct {
	ID        imap.MessageID
	Literal   []byte
	Flags     imap.FlagSet
	Date      time.Time
	Mailboxes map[imap.MailboxID]bool
	Order     int // creation order
}

// Mbox is a mailbox of the remote.
type Mbox struct {
	ID   imap.MailboxID
	Name []string
}

// Ack is the recorded acknowledgement of a submitted update.
type Ack struct {
	Update string
	Err    error
	Acked  bool // a value or a close arrived before the watchdog
	Closed bool // channel closed without a value (success)
}

// Connector implements connector.Connector.
type Connector struct {
	mu sync.Mutex

	Usernames []string
	Password  []byte

	Flags, PermFlags, Attrs imap.FlagSet

	Mailboxes map[imap.MailboxID]*Mbox
	Messages  map[imap.MessageID]*Msg
	nextMbox  int
	nextMsg   int
	IDPrefix  string

	updateCh chan imap.Update
	doneCh   chan struct{}
	closed   bool

	// FailCall decides whether call #n (1-based, per kind) of the given kind fails; nil = never.
	FailCall func(kind string, n int) error
	counts   map[string]int
	Calls    []Call

	// CollectEchoes makes the connector build, for every successful client-driven remote
	// call, the update a real remote would later send back (as connector.Dummy does) and
	// keep it in Echoes for the harness to deliver.
	CollectEchoes bool
	Echoes        []imap.Update

	Visibility map[imap.MailboxID]imap.MailboxVisibility

	// AttrsFor can override the attributes of a created mailbox (e.g. \Drafts).
	AttrsFor func(name []string) imap.FlagSet

	// MoveRemovesOriginal is what MoveMessages reports back (true = folders).
	MoveRemovesOriginal bool

	// RejectUnknownMessages makes AddMessagesToMailbox / MoveMessages fail for messages the remote no longer
	// has (as a real remote does) instead of ignoring them.
	RejectUnknownMessages bool

	// DedupKey, when it returns a non-empty key for a literal handed to CreateMessage, makes the remote
	// de-duplicate: if it already has a message with that key (the earliest one counts) it files that
	// message into the mailbox and answers with its ID instead of creating a new one.
	DedupKey func(literal []byte) string
	Dedups   int

	// RejectLiteral, when it returns an error for a literal handed to CreateMessage, makes that call fail
	// (it runs under the connector's lock: it must not call back into the connector).
	RejectLiteral func(literal []byte) error

	// LiteralFetches counts GetMessageLiteral calls.
	LiteralFetches int
}

// New creates a connector.
func New(usernames []string, password string) *Connector {
	return &Connector{
		Usernames:           usernames,
		Password:            []byte(password),
		Flags:               imap.NewFlagSet(imap.FlagSeen, imap.FlagFlagged, imap.FlagDeleted),
		PermFlags:           imap.NewFlagSet(imap.FlagSeen, imap.FlagFlagged, imap.FlagDeleted),
		Attrs:               imap.NewFlagSet(),
		Mailboxes:           map[imap.MailboxID]*Mbox{},
		Messages:            map[imap.MessageID]*Msg{},
		updateCh:            make(chan imap.Update),
		doneCh:              make(chan struct{}),
		counts:              map[string]int{},
		Visibility:          map[imap.MailboxID]imap.MailboxVisibility{},
		MoveRemovesOriginal: true,
		IDPrefix:            "r",
	}
}

func (c *Connector) fault(kind string) error {
	c.counts[kind]++
	n := c.counts[kind]

	var err error
	if c.FailCall != nil {
		err = c.FailCall(kind, n)
	}

	call := Call{Kind: kind, N: n}
	if err != nil {
		call.Err = err.Error()
	}

	if len(c.Calls) < 20000 {
		c.Calls = append(c.Calls, call)
	}

	return err
}

// CallCount returns how many calls of a kind were made.
func (c *Connector) CallCount(kind string) int {
	c.mu.Lock()
	defer c.mu.Unlock()

	return c.counts[kind]
}

// TotalCalls returns the number of fallible remote calls so far.
func (c *Connector) TotalCalls() int {
	c.mu.Lock()
	defer c.mu.Unlock()

	return len(c.Calls)
}

func (c *Connector) Init(context.Context, connector.IMAPState) error { return nil }

func (c *Connector) Authorize(_ context.Context, username string, password []byte) bool {
	if string(password) != string(c.Password) {
		return false
	}

	for _, u := range c.Usernames {
		if u == username {
			return true
		}
	}

	return false
}

func (c *Connector) mailbox(id imap.MailboxID, name []string) imap.Mailbox {
	attrs := c.Attrs
	if c.AttrsFor != nil {
		if a := c.AttrsFor(name); a != nil {
			attrs = a
		}
	}

	return imap.Mailbox{ID: id, Name: append([]string{}, name...), Flags: c.Flags.Clone(), PermanentFlags: c.PermFlags.Clone(), Attributes: attrs.Clone()}
}

// NewMailboxID allocates a remote mailbox id without creating anything.
func (c *Connector) NewMailboxID() imap.MailboxID {
	c.mu.Lock()
	defer c.mu.Unlock()

	c.nextMbox++

	return imap.MailboxID(fmt.Sprintf("%smb%d", c.IDPrefix, c.nextMbox))
}

// NewMessageID allocates a remote message id without creating anything.
func (c *Connector) NewMessageID() imap.MessageID {
	c.mu.Lock()
	defer c.mu.Unlock()

	c.nextMsg++

	return imap.MessageID(fmt.Sprintf("%smsg%d", c.IDPrefix, c.nextMsg))
}

// RemoteMailbox registers a mailbox on the remote (as if created there) and returns its description.
func (c *Connector) RemoteMailbox(id imap.MailboxID, name []string) imap.Mailbox {
	c.mu.Lock()
	defer c.mu.Unlock()

	c.Mailboxes[id] = &Mbox{ID: id, Name: append([]string{}, name...)}

	return c.mailbox(id, name)
}

func (c *Connector) CreateMailbox(_ context.Context, _ connector.IMAPStateWrite, name []string) (imap.Mailbox, error) {
	c.mu.Lock()
	defer c.mu.Unlock()

	if err := c.fault("CreateMailbox"); err != nil {
		return imap.Mailbox{}, err
	}

	c.nextMbox++
	id := imap.MailboxID(fmt.Sprintf("%smb%d", c.IDPrefix, c.nextMbox))
	c.Mailboxes[id] = &Mbox{ID: id, Name: append([]string{}, name...)}
	mb := c.mailbox(id, name)

	if c.CollectEchoes {
		c.Echoes = append(c.Echoes, imap.NewMailboxCreated(mb))
	}

	return mb, nil
}

func (c *Connector) GetMessageLiteral(_ context.Context, id imap.MessageID) ([]byte, error) {
	c.mu.Lock()
	defer c.mu.Unlock()

	c.LiteralFetches++

	if err := c.fault("GetMessageLiteral"); err != nil {
		return nil, err
	}

	m, ok := c.Messages[id]
	if !ok {
		return nil, fmt.Errorf("no such remote message %v", id)
	}

	return append([]byte{}, m.Literal...), nil
}

func (c *Connector) GetMailboxVisibility(_ context.Context, id imap.MailboxID) imap.MailboxVisibility {
	c.mu.Lock()
	defer c.mu.Unlock()

	if v, ok := c.Visibility[id]; ok {
		return v
	}

	return imap.Visible
}

func (c *Connector) UpdateMailboxName(_ context.Context, _ connector.IMAPStateWrite, id imap.MailboxID, newName []string) error {
	c.mu.Lock()
	defer c.mu.Unlock()

	if err := c.fault("UpdateMailboxName"); err != nil {
		return err
	}

	if mb, ok := c.Mailboxes[id]; ok {
		// A remote with hierarchical names carries the inferiors along (gluon renames them locally
		// without telling the connector about each).
		old := mb.Name

		for _, o := range c.Mailboxes {
			if len(o.Name) > len(old) && strings.Join(o.Name[:len(old)], "\x00") == strings.Join(old, "\x00") {
				o.Name = append(append([]string{}, newName...), o.Name[len(old):]...)
			}
		}

		mb.Name = append([]string{}, newName...)
	}

	if c.CollectEchoes {
		c.Echoes = append(c.Echoes, imap.NewMailboxUpdated(id, append([]string{}, newName...)))
	}

	return nil
}

func (c *Connector) DeleteMailbox(_ context.Context, _ connector.IMAPStateWrite, id imap.MailboxID) error {
	c.mu.Lock()
	defer c.mu.Unlock()

	if err := c.fault("DeleteMailbox"); err != nil {
		return err
	}

	delete(c.Mailboxes, id)

	for _, m := range c.Messages {
		delete(m.Mailboxes, id)
	}

	if c.CollectEchoes {
		c.Echoes = append(c.Echoes, imap.NewMailboxDeleted(id))
	}

	return nil
}

func (c *Connector) CreateMessage(_ context.Context, _ connector.IMAPStateWrite, mboxID imap.MailboxID, literal []byte, flags imap.FlagSet, date time.Time) (imap.Message, []byte, error) {
	c.mu.Lock()
	defer c.mu.Unlock()

	if err := c.fault("CreateMessage"); err != nil {
		return imap.Message{}, nil, err
	}

	if c.RejectLiteral != nil {
		if err := c.RejectLiteral(literal); err != nil {
			return imap.Message{}, nil, err
		}
	}

	if c.DedupKey != nil {
		if key := c.DedupKey(literal); key != "" {
			if known := c.findByKey(key); known != nil {
				known.Mailboxes[mboxID] = true
				c.Dedups++
				c.echoMailboxes(known.ID)

				return imap.Message{ID: known.ID, Flags: known.Flags.Clone(), Date: known.Date}, literal, nil
			}
		}
	}

	c.nextMsg++
	id := imap.MessageID(fmt.Sprintf("%smsg%d", c.IDPrefix, c.nextMsg))
	// The remote has no notion of IMAP's per-mailbox \Deleted: it does not remember it (what it
	// returns to gluon for this call is unchanged).
	m := &Msg{ID: id, Literal: append([]byte{}, literal...), Flags: flags.Remove(imap.FlagDeleted), Date: date, Mailboxes: map[imap.MailboxID]bool{mboxID: true}, Order: c.nextMsg}
	c.Messages[id] = m

	msg := imap.Message{ID: id, Flags: flags.Clone(), Date: date}

	if c.CollectEchoes {
		if parsed, err := imap.NewParsedMessage(literal); err == nil {
			c.Echoes = append(c.Echoes, imap.NewMessagesCreated(false, &imap.MessageCreated{
				Message:       imap.Message{ID: id, Flags: flags.Clone(), Date: date},
				Literal:       append([]byte{}, literal...),
				MailboxIDs:    []imap.MailboxID{mboxID},
				ParsedMessage: parsed,
			}))
		}
	}

	return msg, literal, nil
}

func (c *Connector) findByKey(key string) *Msg {
	var best *Msg

	for _, m := range c.Messages {
		if c.DedupKey(m.Literal) == key && (best == nil || m.Order < best.Order) {
			best = m
		}
	}

	return best
}

// DedupCandidate reports which message the remote would answer with for a literal, and whether that
// message is already in the named mailbox.
func (c *Connector) DedupCandidate(literal []byte, mailbox []string) (imap.MessageID, bool) {
	c.mu.Lock()
	defer c.mu.Unlock()

	if c.DedupKey == nil {
		return "", false
	}

	key := c.DedupKey(literal)
	if key == "" {
		return "", false
	}

	m := c.findByKey(key)
	if m == nil {
		return "", false
	}

	for id, mb := range c.Mailboxes {
		if strings.Join(mb.Name, "/") == strings.Join(mailbox, "/") {
			return m.ID, m.Mailboxes[id]
		}
	}

	return m.ID, false
}

func (c *Connector) echoMailboxes(id imap.MessageID) {
	if !c.CollectEchoes {
		return
	}

	m, ok := c.Messages[id]
	if !ok {
		return
	}

	var ids []imap.MailboxID
	for mb := range m.Mailboxes {
		ids = append(ids, mb)
	}

	c.Echoes = append(c.Echoes, imap.NewMessageMailboxesUpdated(id, ids, m.Flags.Clone()))
}

func (c *Connector) echoFlags(id imap.MessageID) {
	if !c.CollectEchoes {
		return
	}

	if m, ok := c.Messages[id]; ok {
		c.Echoes = append(c.Echoes, imap.NewMessageFlagsUpdated(id, m.Flags.Clone()))
	}
}

func (c *Connector) AddMessagesToMailbox(_ context.Context, _ connector.IMAPStateWrite, ids []imap.MessageID, mboxID imap.MailboxID) error {
	c.mu.Lock()
	defer c.mu.Unlock()

	if err := c.fault("AddMessagesToMailbox"); err != nil {
		return err
	}

	if c.RejectUnknownMessages {
		for _, id := range ids {
			if _, ok := c.Messages[id]; !ok {
				return fmt.Errorf("verif: the remote has no message %s", id)
			}
		}
	}

	for _, id := range ids {
		if m, ok := c.Messages[id]; ok {
			m.Mailboxes[mboxID] = true
		}

		c.echoMailboxes(id)
	}

	return nil
}

func (c *Connector) RemoveMessagesFromMailbox(_ context.Context, _ connector.IMAPStateWrite, ids []imap.MessageID, mboxID imap.MailboxID) error {
	c.mu.Lock()
	defer c.mu.Unlock()

	if err := c.fault("RemoveMessagesFromMailbox"); err != nil {
		return err
	}

	for _, id := range ids {
		if m, ok := c.Messages[id]; ok {
			delete(m.Mailboxes, mboxID)
		}

		c.echoMailboxes(id)
	}

	return nil
}

func (c *Connector) MoveMessages(_ context.Context, _ connector.IMAPStateWrite, ids []imap.MessageID, from, to imap.MailboxID) (bool, error) {
	c.mu.Lock()
	defer c.mu.Unlock()

	if err := c.fault("MoveMessages"); err != nil {
		return false, err
	}

	if c.RejectUnknownMessages {
		for _, id := range ids {
			if _, ok := c.Messages[id]; !ok {
				return false, fmt.Errorf("verif: the remote has no message %s", id)
			}
		}
	}

	for _, id := range ids {
		if m, ok := c.Messages[id]; ok {
			if c.MoveRemovesOriginal {
				delete(m.Mailboxes, from)
			}

			m.Mailboxes[to] = true
		}

		c.echoMailboxes(id)
	}

	return c.MoveRemovesOriginal, nil
}

func (c *Connector) mark(kind, flag string, ids []imap.MessageID, on bool) error {
	c.mu.Lock()
	defer c.mu.Unlock()

	if err := c.fault(kind); err != nil {
		return err
	}

	for _, id := range ids {
		if m, ok := c.Messages[id]; ok {
			m.Flags.SetOnSelf(flag, on)
		}

		c.echoFlags(id)
	}

	return nil
}

func (c *Connector) MarkMessagesSeen(_ context.Context, _ connector.IMAPStateWrite, ids []imap.MessageID, seen bool) error {
	return c.mark("MarkMessagesSeen", imap.FlagSeen, ids, seen)
}

func (c *Connector) MarkMessagesFlagged(_ context.Context, _ connector.IMAPStateWrite, ids []imap.MessageID, flagged bool) error {
	return c.mark("MarkMessagesFlagged", imap.FlagFlagged, ids, flagged)
}

func (c *Connector) MarkMessagesForwarded(_ context.Context, _ connector.IMAPStateWrite, ids []imap.MessageID, forwarded bool) error {
	return c.mark("MarkMessagesForwarded", imap.XFlagDollarForwarded, ids, forwarded)
}

func (c *Connector) GetUpdates() <-chan imap.Update {
	c.mu.Lock()
	defer c.mu.Unlock()

	return c.updateCh
}

func (c *Connector) Close(context.Context) error {
	c.mu.Lock()
	defer c.mu.Unlock()

	// The update channel is never closed (a sender may be in Submit); closing is signalled on doneCh.
	if !c.closed {
		c.closed = true

		if c.doneCh != nil {
			close(c.doneCh)
		}
	}

	return nil
}

// TakeEchoes returns and clears the collected echoes.
func (c *Connector) TakeEchoes() []imap.Update {
	c.mu.Lock()
	defer c.mu.Unlock()

	e := c.Echoes
	c.Echoes = nil

	return e
}

// Submit hands an update to gluon (blocks until the update loop takes it, or the timeout).
func (c *Connector) Submit(u imap.Update, timeout time.Duration) error {
	c.mu.Lock()
	closed := c.closed
	ch, done := c.updateCh, c.doneCh
	c.mu.Unlock()

	if closed {
		return errors.New("connector closed")
	}

	select {
	case ch <- u:
		return nil
	case <-done:
		return errors.New("connector closed")
	case <-time.After(timeout):
		return errors.New("update not taken by the server within the watchdog")
	}
}

// Apply submits an update and waits for its acknowledgement.
func (c *Connector) Apply(u imap.Update, timeout time.Duration) Ack {
	ack := Ack{Update: u.String()}

	if err := c.Submit(u, timeout); err != nil {
		ack.Err = err
		return ack
	}

	ctx, cancel := context.WithTimeout(context.Background(), timeout)
	defer cancel()

	err, ok := u.WaitContext(ctx)

	switch {
	case ok:
		ack.Acked, ack.Err = true, err
	case ctx.Err() == nil:
		// Channel closed without a value: success.
		ack.Acked, ack.Closed = true, true
	default:
		// The watchdog fired; look once more without blocking to tell a late ack from none.
		cctx, ccancel := context.WithTimeout(context.Background(), 5*time.Millisecond)
		err2, ok2 := u.WaitContext(cctx)

		switch {
		case ok2:
			ack.Acked, ack.Err = true, err2
		case cctx.Err() == nil:
			ack.Acked, ack.Closed = true, true
		default:
			ack.Err = errors.New("no acknowledgement within the watchdog")
		}

		ccancel()
	}

	return ack
}

// Reopen prepares the connector for being loaded into a new server instance.
func (c *Connector) Reopen() {
	c.mu.Lock()
	defer c.mu.Unlock()

	c.updateCh = make(chan imap.Update)
	c.doneCh = make(chan struct{})
	c.closed = false
}

// MsgInfo is a snapshot of a remote message.
type MsgInfo struct {
	ID        imap.MessageID
	Literal   []byte
	Flags     imap.FlagSet
	Date      time.Time
	Mailboxes []imap.MailboxID
}

// FindMessage returns the first remote message whose literal contains needle.
func (c *Connector) FindMessage(needle string) (MsgInfo, bool) {
	c.mu.Lock()
	defer c.mu.Unlock()

	for _, m := range c.Messages {
		if strings.Contains(string(m.Literal), needle) {
			return c.info(m), true
		}
	}

	return MsgInfo{}, false
}

// Message returns the remote message with the given id.
func (c *Connector) Message(id imap.MessageID) (MsgInfo, bool) {
	c.mu.Lock()
	defer c.mu.Unlock()

	m, ok := c.Messages[id]
	if !ok {
		return MsgInfo{}, false
	}

	return c.info(m), true
}

func (c *Connector) info(m *Msg) MsgInfo {
	mi := MsgInfo{ID: m.ID, Literal: append([]byte{}, m.Literal...), Flags: m.Flags.Clone(), Date: m.Date}
	for id := range m.Mailboxes {
		mi.Mailboxes = append(mi.Mailboxes, id)
	}

	sort.Slice(mi.Mailboxes, func(i, j int) bool { return mi.Mailboxes[i] < mi.Mailboxes[j] })

	return mi
}

// MailboxID returns the remote id of the mailbox with the given name path.
func (c *Connector) MailboxID(name ...string) (imap.MailboxID, bool) {
	c.mu.Lock()
	defer c.mu.Unlock()

	for _, mb := range c.Mailboxes {
		if strings.Join(mb.Name, "\x00") == strings.Join(name, "\x00") {
			return mb.ID, true
		}
	}

	return "", false
}

// MailboxNames returns all remote mailboxes (id -> name path).
func (c *Connector) MailboxNames() map[imap.MailboxID][]string {
	c.mu.Lock()
	defer c.mu.Unlock()

	out := map[imap.MailboxID][]string{}
	for id, mb := range c.Mailboxes {
		out[id] = append([]string{}, mb.Name...)
	}

	return out
}

// RemoteAddMessage registers a message on the remote (as if it arrived there) and returns
// the MessageCreated description for a MessagesCreated update.
func (c *Connector) RemoteAddMessage(literal []byte, flags imap.FlagSet, date time.Time, mailboxes ...imap.MailboxID) (*imap.MessageCreated, error) {
	parsed, err := imap.NewParsedMessage(literal)
	if err != nil {
		return nil, err
	}

	c.mu.Lock()
	defer c.mu.Unlock()

	c.nextMsg++
	id := imap.MessageID(fmt.Sprintf("%smsg%d", c.IDPrefix, c.nextMsg))
	m := &Msg{ID: id, Literal: append([]byte{}, literal...), Flags: flags.Clone(), Date: date, Mailboxes: map[imap.MailboxID]bool{}}

	for _, mb := range mailboxes {
		m.Mailboxes[mb] = true
	}

	c.Messages[id] = m

	return &imap.MessageCreated{
		Message:       imap.Message{ID: id, Flags: flags.Clone(), Date: date},
		Literal:       append([]byte{}, literal...),
		MailboxIDs:    append([]imap.MailboxID{}, mailboxes...),
		ParsedMessage: parsed,
	}, nil
}

// RemoteSetMailboxes changes the remote's idea of where a message lives.
func (c *Connector) RemoteSetMailboxes(id imap.MessageID, mailboxes []imap.MailboxID) {
	c.mu.Lock()
	defer c.mu.Unlock()

	if m, ok := c.Messages[id]; ok {
		m.Mailboxes = map[imap.MailboxID]bool{}
		for _, mb := range mailboxes {
			m.Mailboxes[mb] = true
		}
	}
}

// RemoteSetFlags changes the remote's idea of a message's flags.
func (c *Connector) RemoteSetFlags(id imap.MessageID, flags imap.FlagSet) {
	c.mu.Lock()
	defer c.mu.Unlock()

	if m, ok := c.Messages[id]; ok {
		m.Flags = flags.Clone()
	}
}

// RemoteDeleteMessage forgets a message on the remote.
func (c *Connector) RemoteDeleteMessage(id imap.MessageID) {
	c.mu.Lock()
	defer c.mu.Unlock()

	delete(c.Messages, id)
}

// AllMessages returns a snapshot of every remote message, ordered by id.
func (c *Connector) AllMessages() []MsgInfo {
	c.mu.Lock()
	defer c.mu.Unlock()

	out := make([]MsgInfo, 0, len(c.Messages))
	for _, m := range c.Messages {
		out = append(out, c.info(m))
	}

	sort.Slice(out, func(i, j int) bool { return out[i].ID < out[j].ID })

	return out
}

// RemoteDeleteMailbox forgets a mailbox on the remote (messages lose that label).
func (c *Connector) RemoteDeleteMailbox(id imap.MailboxID) {
	c.mu.Lock()
	defer c.mu.Unlock()

	delete(c.Mailboxes, id)

	for _, m := range c.Messages {
		delete(m.Mailboxes, id)
	}
}

// RemoteRenameMailbox renames a mailbox on the remote.
func (c *Connector) RemoteRenameMailbox(id imap.MailboxID, name []string) {
	c.mu.Lock()
	defer c.mu.Unlock()

	if mb, ok := c.Mailboxes[id]; ok {
		mb.Name = append([]string{}, name...)
	}
}

// RemoteSetLiteral replaces the bytes of a remote message.
func (c *Connector) RemoteSetLiteral(id imap.MessageID, literal []byte) {
	c.mu.Lock()
	defer c.mu.Unlock()

	if m, ok := c.Messages[id]; ok {
		m.Literal = append([]byte{}, literal...)
	}
}

// RemoteChangeMessageID gives a remote message a new id.
func (c *Connector) RemoteChangeMessageID(old, new imap.MessageID) {
	c.mu.Lock()
	defer c.mu.Unlock()

	if m, ok := c.Messages[old]; ok {
		delete(c.Messages, old)
		m.ID = new
		c.Messages[new] = m
	}
}

// SnapshotMailboxes / RestoreMailboxes let a harness undo what the remote was told by a command
// that the server then refused (gluon calls the connector before its own transaction commits).
func (c *Connector) SnapshotMailboxes() map[imap.MailboxID][]string {
	return c.MailboxNames()
}

func (c *Connector) RestoreMailboxes(snap map[imap.MailboxID][]string) {
	c.mu.Lock()
	defer c.mu.Unlock()

	c.Mailboxes = map[imap.MailboxID]*Mbox{}
	for id, name := range snap {
		c.Mailboxes[id] = &Mbox{ID: id, Name: append([]string{}, name...)}
	}
}

// RemoteState is a copy of the remote's mailboxes and messages.
type RemoteState struct {
	mailboxes map[imap.MailboxID][]string
	messages  map[imap.MessageID]*Msg
}

// SnapshotAll / RestoreAll let a harness undo everything the remote was told by a command the
// server then refused.
func (c *Connector) SnapshotAll() *RemoteState {
	st := &RemoteState{mailboxes: c.MailboxNames(), messages: map[imap.MessageID]*Msg{}}

	c.mu.Lock()
	defer c.mu.Unlock()

	for id, m := range c.Messages {
		cp := &Msg{ID: m.ID, Literal: m.Literal, Flags: m.Flags.Clone(), Date: m.Date, Mailboxes: map[imap.MailboxID]bool{}}
		for mb := range m.Mailboxes {
			cp.Mailboxes[mb] = true
		}

		st.messages[id] = cp
	}

	return st
}

// Summary renders a remote state (mailbox names, and which message is where) for comparison.
func (st *RemoteState) Summary() string {
	var lines []string

	for id, name := range st.mailboxes {
		lines = append(lines, fmt.Sprintf("mailbox %s = %s", id, strings.Join(name, "/")))
	}

	for id, m := range st.messages {
		var boxes []string
		for mb := range m.Mailboxes {
			boxes = append(boxes, string(mb))
		}

		sort.Strings(boxes)
		lines = append(lines, fmt.Sprintf("message %s in %v", id, boxes))
	}

	sort.Strings(lines)

	return strings.Join(lines, "\n")
}

func (c *Connector) RestoreAll(st *RemoteState) {
	c.RestoreMailboxes(st.mailboxes)

	c.mu.Lock()
	defer c.mu.Unlock()

	c.Messages = st.messages
}

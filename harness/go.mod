module verifharness

go 1.21

require (
	github.com/ProtonMail/gluon v0.0.0
	github.com/anishathalye/porcupine v1.3.0
	github.com/emersion/go-imap v1.2.1
	github.com/mattn/go-sqlite3 v1.14.22
	github.com/pierrec/lz4/v4 v4.1.17
	github.com/sirupsen/logrus v1.9.2
)

require (
	github.com/bradenaw/juniper v0.12.0 // indirect
	github.com/google/uuid v1.3.0 // indirect
	golang.org/x/exp v0.0.0-20230510235704-dd950f8aeaea // indirect
	golang.org/x/sync v0.2.0 // indirect
	golang.org/x/sys v0.8.0 // indirect
	golang.org/x/text v0.9.0 // indirect
)

replace github.com/ProtonMail/gluon => /repo

// Package srv brings gluon servers up in-process for the harness.
package srv

import (
	"context"
	"fmt"
	"io"
	"net"
	"os"
	"path/filepath"
	"runtime/debug"
	"sync"
	"time"

	"github.com/ProtonMail/gluon"
	"github.com/ProtonMail/gluon/async"
	"github.com/ProtonMail/gluon/db"
	"github.com/ProtonMail/gluon/imap"
	"github.com/ProtonMail/gluon/limits"
	"github.com/ProtonMail/gluon/store"
	"github.com/sirupsen/logrus"

	"verifharness/hconn"
	"verifharness/imapc"
)

func init() {
	// gluon logs every failed command at error level; the monitors look at the wire instead.
	logrus.SetOutput(io.Discard)
	logrus.SetLevel(logrus.PanicLevel)
}

// UserSpec describes one user of a server.
type UserSpec struct {
	Usernames []string
	Password  string
	UserID    string
}

// Options configure a server.
type Options struct {
	Dir                string
	Delimiter          string
	SetDelimiter       bool
	IdleBulk           time.Duration
	Limits             *limits.IMAP
	JailTime           time.Duration
	RemoteNonce        string
	UIDValidityGen     imap.UIDValidityGenerator
	StoreBuilder       store.Builder
	DB                 db.ClientInterface
	PanicHandler       async.PanicHandler
	Users              []UserSpec
	DisableParallelism bool
	NoInbox            bool
	CollectEchoes      bool
}

// User is a loaded user.
type User struct {
	Spec UserSpec
	ID   string
	Conn *hconn.Connector
}

// Server is a running gluon server plus its harness connectors.
type Server struct {
	Opts   Options
	G      *gluon.Server
	L      net.Listener
	Addr   string
	Users  []*User
	ctx    context.Context
	cancel context.CancelFunc
	closed bool

	mu     sync.Mutex
	panics []string
	conns  []*imapc.Conn
}

// recorder is the panic handler installed into in-process servers: with gluon's default
// handler a panic in any server goroutine kills the whole process (and with it every monitor),
// so the harness records the panic instead and reports it as what it is.
type recorder struct{ s *Server }

func (p recorder) HandlePanic(v interface{}) {
	if v == nil {
		return
	}

	p.s.mu.Lock()
	p.s.panics = append(p.s.panics, fmt.Sprintf("panic: %v\n%s", v, debug.Stack()))
	conns := append([]*imapc.Conn{}, p.s.conns...)
	p.s.mu.Unlock()

	// The command that panicked never completes; unblock the clients right away.
	for _, c := range conns {
		_ = c.Close()
	}
}

// Panics returns the panics recovered from server goroutines so far.
func (s *Server) Panics() []string {
	s.mu.Lock()
	defer s.mu.Unlock()

	return append([]string{}, s.panics...)
}

// DefaultUser is the user used when none is given.
var DefaultUser = UserSpec{Usernames: []string{"user"}, Password: "pass", UserID: "u1"}

// UpdateTimeout is the watchdog for connector update acknowledgements.
var UpdateTimeout = 60 * time.Second

// Start creates and starts a server. Existing directories are re-used (restart).
func Start(opts Options) (*Server, error) {
	return start(opts, nil)
}

func start(opts Options, old []*User) (*Server, error) {
	if opts.Dir == "" {
		return nil, fmt.Errorf("srv: Dir is required")
	}

	if len(opts.Users) == 0 {
		opts.Users = []UserSpec{DefaultUser}
	}

	gopts := []gluon.Option{
		gluon.WithDataDir(filepath.Join(opts.Dir, "data")),
		gluon.WithDatabaseDir(filepath.Join(opts.Dir, "db")),
		gluon.WithIdleBulkTime(opts.IdleBulk),
		gluon.WithLoginJailTime(opts.JailTime),
	}

	if opts.SetDelimiter {
		gopts = append(gopts, gluon.WithDelimiter(opts.Delimiter))
	}

	if opts.Limits != nil {
		gopts = append(gopts, gluon.WithIMAPLimits(*opts.Limits))
	}

	if opts.UIDValidityGen != nil {
		gopts = append(gopts, gluon.WithUIDValidityGenerator(opts.UIDValidityGen))
	}

	if opts.StoreBuilder != nil {
		gopts = append(gopts, gluon.WithStoreBuilder(opts.StoreBuilder))
	}

	if opts.DB != nil {
		gopts = append(gopts, gluon.WithDBClient(opts.DB))
	}

	s := &Server{Opts: opts}

	if opts.PanicHandler != nil {
		gopts = append(gopts, gluon.WithPanicHandler(opts.PanicHandler))
	} else {
		gopts = append(gopts, gluon.WithPanicHandler(recorder{s}))
	}

	if opts.DisableParallelism {
		gopts = append(gopts, gluon.WithDisableParallelism())
	}

	g, err := gluon.New(gopts...)
	if err != nil {
		return nil, err
	}

	ctx, cancel := context.WithCancel(context.Background())

	s.G, s.ctx, s.cancel = g, ctx, cancel

	// An application reads the server's error channel; unread errors would keep the channel's goroutine alive
	// after Close.
	go func() {
		for range g.GetErrorCh() {
		}
	}()

	for i, spec := range opts.Users {
		var conn *hconn.Connector

		if old != nil {
			conn = old[i].Conn
			conn.Reopen()
		} else {
			conn = hconn.New(spec.Usernames, spec.Password)
			// RemoteNonce keeps the ids a fresh harness remote hands out apart from the ones an earlier process
			// handed out for the same data directory (the remote is not persistent, its counters restart).
			conn.IDPrefix = fmt.Sprintf("%sr%s", spec.UserID, opts.RemoteNonce)
			conn.CollectEchoes = opts.CollectEchoes
		}

		isNew, err := g.LoadUser(ctx, conn, spec.UserID, []byte(spec.Password))
		if err != nil {
			cancel()
			return nil, fmt.Errorf("LoadUser: %w", err)
		}

		u := &User{Spec: spec, ID: spec.UserID, Conn: conn}
		s.Users = append(s.Users, u)

		if isNew && !opts.NoInbox && old == nil {
			mb := conn.RemoteMailbox(imap.MailboxID(conn.IDPrefix+"inbox"), []string{"INBOX"})

			if ack := conn.Apply(imap.NewMailboxCreated(mb), UpdateTimeout); !ack.Acked || ack.Err != nil {
				cancel()
				return nil, fmt.Errorf("creating INBOX: %+v", ack)
			}
		}
	}

	l, err := net.Listen("tcp", "127.0.0.1:0")
	if err != nil {
		cancel()
		return nil, err
	}

	s.L = l
	s.Addr = l.Addr().String()

	if err := g.Serve(ctx, l); err != nil {
		cancel()
		return nil, err
	}

	return s, nil
}

// Dial opens a connection (greeting read).
func (s *Server) Dial(name string) (*imapc.Conn, error) {
	c, err := imapc.Dial(s.Addr, name)
	if err == nil {
		s.mu.Lock()
		s.conns = append(s.conns, c)
		s.mu.Unlock()
	}

	return c, err
}

// Login opens a connection and logs in as the first user (or the given one).
func (s *Server) Login(name string, user ...int) (*imapc.Conn, error) {
	c, err := s.Dial(name)
	if err != nil {
		return nil, err
	}

	idx := 0
	if len(user) > 0 {
		idx = user[0]
	}

	spec := s.Users[idx].Spec

	if r := c.Cmdf("LOGIN %s %s", imapc.Quote(spec.Usernames[0]), imapc.Quote(spec.Password)); !r.OK() {
		c.Close()
		return nil, fmt.Errorf("login failed: %s", r)
	}

	return c, nil
}

// MustLogin is Login that panics on failure (harness bring-up problem, not a verdict).
func (s *Server) MustLogin(name string, user ...int) *imapc.Conn {
	c, err := s.Login(name, user...)
	if err != nil {
		panic(fmt.Sprintf("harness: %v", err))
	}

	return c
}

// Quiesce waits until every session of the user has applied all updates queued to it.
func (s *Server) Quiesce(user int, timeout time.Duration) error {
	ctx, cancel := context.WithTimeout(context.Background(), timeout)
	defer cancel()

	return s.G.VerifQuiesce(ctx, s.Users[user].ID)
}

// Close shuts the server down (listener, users, backend).
// CancelServe cancels the Serve context (for callers that closed the gluon server themselves).
func (s *Server) CancelServe() {
	s.closed = true
	s.cancel()
}

func (s *Server) Close() error {
	if s.closed {
		return nil
	}

	s.closed = true

	ctx, cancel := context.WithTimeout(context.Background(), 120*time.Second)
	defer cancel()

	_ = s.L.Close()

	err := s.G.Close(ctx)

	s.cancel()

	return err
}

// Restart closes the server and starts a new instance on the same directories and remotes.
func (s *Server) Restart() (*Server, error) {
	if err := s.Close(); err != nil {
		return nil, fmt.Errorf("close before restart: %w", err)
	}

	return start(s.Opts, s.Users)
}

// Destroy closes the server and removes its directory.
func (s *Server) Destroy() {
	_ = s.Close()
	_ = os.RemoveAll(s.Opts.Dir)
}

// Package imapc is a small raw IMAP wire client with its own response parser. It records
// what was received byte for byte and never hides a framing problem: a response that does
// not parse is itself an event (Resp.Malformed).
package imapc

import (
	"bufio"
	"bytes"
	"errors"
	"fmt"
	"io"
	"net"
	"strconv"
	"strings"
	"time"
)

// NodeKind is the kind of a parsed token.
type NodeKind int

const (
	Atom NodeKind = iota
	Quoted
	Literal
	List
)

// Node is a token of a response line.
type Node struct {
	Kind NodeKind
	Str  string
	List []Node
}

func (n Node) IsNil() bool { return n.Kind == Atom && strings.EqualFold(n.Str, "NIL") }

func (n Node) String() string {
	switch n.Kind {
	case List:
		parts := make([]string, len(n.List))
		for i, c := range n.List {
			parts[i] = c.String()
		}

		return "(" + strings.Join(parts, " ") + ")"
	case Quoted:
		return strconv.Quote(n.Str)
	case Literal:
		return fmt.Sprintf("{%d}", len(n.Str))
	default:
		return n.Str
	}
}

// Strings returns the atoms/strings of a list node.
func (n Node) Strings() []string {
	out := make([]string, 0, len(n.List))
	for _, c := range n.List {
		out = append(out, c.Str)
	}

	return out
}

// Resp is one response line (with its literals).
type Resp struct {
	Raw       []byte
	Tag       string
	Num       uint64
	HasNum    bool
	Kind      string
	Code      string
	Text      string
	Items     []Node
	Malformed string
}

func (r *Resp) String() string {
	s := string(r.Raw)
	if len(s) > 300 {
		s = s[:300] + "..."
	}

	return strings.TrimRight(s, "\r\n")
}

// FetchItems returns the key/value pairs of a FETCH response (keys upper-cased).
func (r *Resp) FetchItems() map[string]Node {
	out := map[string]Node{}

	if len(r.Items) == 0 || r.Items[0].Kind != List {
		return out
	}

	l := r.Items[0].List
	for i := 0; i+1 < len(l); i += 2 {
		out[strings.ToUpper(l[i].Str)] = l[i+1]
	}

	return out
}

// Result is the outcome of one command.
type Result struct {
	Cmd      string
	Tag      string
	Untagged []*Resp
	Status   string // OK, NO, BAD or "" when the connection ended first
	Code     string
	Text     string
	Tagged   *Resp
	Err      error
	Bye      bool
	Conts    int
}

func (r *Result) OK() bool  { return r.Status == "OK" }
func (r *Result) NO() bool  { return r.Status == "NO" }
func (r *Result) BAD() bool { return r.Status == "BAD" }

func (r *Result) String() string {
	var b strings.Builder

	fmt.Fprintf(&b, "C: %s\n", r.Cmd)

	for _, u := range r.Untagged {
		fmt.Fprintf(&b, "S: %s\n", u.String())
	}

	if r.Tagged != nil {
		fmt.Fprintf(&b, "S: %s\n", r.Tagged.String())
	}

	if r.Err != nil {
		fmt.Fprintf(&b, "!! %v\n", r.Err)
	}

	return b.String()
}

// Kinds returns the kinds of untagged responses, e.g. "2 EXISTS".
func (r *Result) Kinds() []string {
	out := make([]string, 0, len(r.Untagged))
	for _, u := range r.Untagged {
		if u.HasNum {
			out = append(out, fmt.Sprintf("%d %s", u.Num, u.Kind))
		} else {
			out = append(out, u.Kind)
		}
	}

	return out
}

// Lit marks a command part to be sent as a synchronising literal.
type Lit []byte

// Conn is one client connection.
type Conn struct {
	Name    string
	c       net.Conn
	br      *bufio.Reader
	tagN    int
	Timeout time.Duration

	Greeting *Resp

	transcript []string
	MaxLog     int
	Closed     bool
}

// Dial connects and reads the greeting.
func Dial(addr, name string) (*Conn, error) {
	c, err := net.DialTimeout("tcp", addr, 10*time.Second)
	if err != nil {
		return nil, err
	}

	conn := &Conn{Name: name, c: c, br: bufio.NewReaderSize(c, 64*1024), Timeout: 60 * time.Second, MaxLog: 400}

	g, err := conn.readResp()
	if err != nil {
		c.Close()
		return nil, fmt.Errorf("greeting: %w", err)
	}

	conn.Greeting = g

	return conn, nil
}

func (c *Conn) log(s string) {
	if c.MaxLog <= 0 {
		return
	}

	if len(s) > 400 {
		s = s[:400] + "..."
	}

	c.transcript = append(c.transcript, s)
	if len(c.transcript) > c.MaxLog {
		c.transcript = c.transcript[len(c.transcript)-c.MaxLog:]
	}
}

// Transcript returns the last lines exchanged on this connection.
func (c *Conn) Transcript() []string {
	return append([]string{}, c.transcript...)
}

// Close closes the socket abruptly.
func (c *Conn) Close() error {
	c.Closed = true
	return c.c.Close()
}

// Raw gives access to the socket (hostile-input checks).
func (c *Conn) RawConn() net.Conn { return c.c }

func (c *Conn) nextTag() string {
	c.tagN++
	return fmt.Sprintf("%s%d", tagPrefix(c.Name), c.tagN)
}

func tagPrefix(name string) string {
	var b strings.Builder

	for _, r := range name {
		if (r >= 'a' && r <= 'z') || (r >= 'A' && r <= 'Z') || (r >= '0' && r <= '9') {
			b.WriteRune(r)
		}
	}

	if b.Len() == 0 {
		return "t"
	}

	return b.String() + "x"
}

func (c *Conn) setDeadline() {
	_ = c.c.SetDeadline(time.Now().Add(c.Timeout))
}

// readLogicalLine reads one response line including any literals it carries.
type piece struct {
	text []byte
	lit  []byte
	has  bool
}

func (c *Conn) readLogical() ([]byte, []piece, error) {
	var (
		raw    []byte
		pieces []piece
	)

	for {
		line, err := c.br.ReadBytes('\n')
		raw = append(raw, line...)

		if err != nil {
			if len(raw) > 0 {
				return raw, pieces, fmt.Errorf("partial line %q: %w", truncate(raw, 80), err)
			}

			return raw, pieces, err
		}

		body := bytes.TrimRight(line, "\r\n")

		n, ok := trailingLiteral(body)
		if !ok || (len(pieces) == 0 && isStatusLine(body)) {
			pieces = append(pieces, piece{text: body})
			return raw, pieces, nil
		}

		text := body[:bytes.LastIndexByte(body, '{')]

		lit := make([]byte, n)
		if _, err := io.ReadFull(c.br, lit); err != nil {
			raw = append(raw, lit...)
			return raw, pieces, fmt.Errorf("literal of %d bytes cut short: %w", n, err)
		}

		raw = append(raw, lit...)
		pieces = append(pieces, piece{text: text, lit: lit, has: true})
	}
}

func truncate(b []byte, n int) []byte {
	if len(b) > n {
		return b[:n]
	}

	return b
}

func isStatusLine(body []byte) bool {
	f := bytes.Fields(body)
	if len(f) < 2 {
		return false
	}

	switch strings.ToUpper(string(f[1])) {
	case "OK", "NO", "BAD", "BYE", "PREAUTH":
		return true
	}

	return false
}

func trailingLiteral(body []byte) (int, bool) {
	if len(body) < 3 || body[len(body)-1] != '}' {
		return 0, false
	}

	i := bytes.LastIndexByte(body, '{')
	if i < 0 {
		return 0, false
	}

	n, err := strconv.ParseUint(string(body[i+1:len(body)-1]), 10, 31)
	if err != nil {
		return 0, false
	}

	return int(n), true
}

func (c *Conn) readResp() (*Resp, error) {
	c.setDeadline()

	raw, pieces, err := c.readLogical()
	if err != nil {
		if len(raw) > 0 {
			c.log("S(partial): " + string(truncate(raw, 200)))
		}

		return &Resp{Raw: raw, Malformed: err.Error()}, err
	}

	r := parseResp(raw, pieces)
	c.log("S: " + r.String())

	return r, nil
}

func parseResp(raw []byte, pieces []piece) *Resp {
	r := &Resp{Raw: raw}

	first := pieces[0].text

	sp := bytes.IndexByte(first, ' ')
	if sp < 0 {
		r.Tag = string(first)
		if r.Tag != "+" {
			r.Malformed = "no space after tag"
		}

		return r
	}

	r.Tag = string(first[:sp])
	rest := first[sp+1:]

	if r.Tag == "+" {
		r.Text = string(rest)
		return r
	}

	// Optional number.
	word, after := splitWord(rest)
	if n, err := strconv.ParseUint(word, 10, 64); err == nil && r.Tag == "*" {
		r.Num, r.HasNum = n, true
		rest = after
		word, after = splitWord(rest)
	}

	r.Kind = strings.ToUpper(word)
	rest = after

	switch r.Kind {
	case "OK", "NO", "BAD", "BYE", "PREAUTH":
		if len(rest) > 0 && rest[0] == '[' {
			if end := bytes.IndexByte(rest, ']'); end > 0 {
				r.Code = string(rest[1:end])
				rest = bytes.TrimLeft(rest[end+1:], " ")
			}
		}

		r.Text = string(rest)

		return r
	}

	ps := append([]piece{{text: rest, lit: pieces[0].lit, has: pieces[0].has}}, pieces[1:]...)

	nodes, err := parseNodes(ps)
	if err != nil {
		r.Malformed = err.Error()
	}

	r.Items = nodes

	return r
}

func splitWord(b []byte) (string, []byte) {
	b = bytes.TrimLeft(b, " ")

	i := bytes.IndexByte(b, ' ')
	if i < 0 {
		return string(b), nil
	}

	return string(b[:i]), b[i+1:]
}

func parseNodes(pieces []piece) ([]Node, error) {
	type frame struct{ nodes []Node }

	stack := []*frame{{}}

	push := func(n Node) { top := stack[len(stack)-1]; top.nodes = append(top.nodes, n) }

	for _, p := range pieces {
		t := p.text
		i := 0

		for i < len(t) {
			ch := t[i]

			switch {
			case ch == ' ':
				i++
			case ch == '(':
				stack = append(stack, &frame{})
				i++
			case ch == ')':
				if len(stack) == 1 {
					return stack[0].nodes, errors.New("unbalanced ')'")
				}

				top := stack[len(stack)-1]
				stack = stack[:len(stack)-1]
				push(Node{Kind: List, List: top.nodes})
				i++
			case ch == '"':
				var sb []byte

				j := i + 1
				closed := false

				for j < len(t) {
					if t[j] == '\\' && j+1 < len(t) {
						sb = append(sb, t[j+1])
						j += 2

						continue
					}

					if t[j] == '"' {
						closed = true
						break
					}

					sb = append(sb, t[j])
					j++
				}

				if !closed {
					return stack[0].nodes, errors.New("unterminated quoted string")
				}

				push(Node{Kind: Quoted, Str: string(sb)})
				i = j + 1
			default:
				j := i
				depth := 0

				for j < len(t) {
					c := t[j]
					if c == '[' {
						depth++
					} else if c == ']' && depth > 0 {
						depth--
					} else if depth == 0 && (c == ' ' || c == '(' || c == ')') {
						break
					}

					j++
				}

				push(Node{Kind: Atom, Str: string(t[i:j])})
				i = j
			}
		}

		if p.has {
			push(Node{Kind: Literal, Str: string(p.lit)})
		}
	}

	if len(stack) != 1 {
		return stack[0].nodes, errors.New("unbalanced '('")
	}

	return stack[0].nodes, nil
}

// Cmd sends a command built from parts (strings are sent verbatim, Lit parts as
// synchronising literals) and reads until its tagged completion.
func (c *Conn) Cmd(parts ...any) *Result {
	tag := c.nextTag()
	return c.CmdTag(tag, parts...)
}

// Cmdf is Cmd with a format string.
func (c *Conn) Cmdf(format string, a ...any) *Result {
	return c.Cmd(fmt.Sprintf(format, a...))
}

func describe(parts []any) string {
	var b strings.Builder

	for _, p := range parts {
		switch v := p.(type) {
		case string:
			b.WriteString(v)
		case Lit:
			fmt.Fprintf(&b, "{%d}<%d bytes>", len(v), len(v))
		case []byte:
			b.Write(v)
		}
	}

	return b.String()
}

// CmdTag is Cmd with an explicit tag.
func (c *Conn) CmdTag(tag string, parts ...any) *Result {
	res := &Result{Tag: tag, Cmd: tag + " " + describe(parts)}
	c.log("C: " + res.Cmd)

	var buf bytes.Buffer

	buf.WriteString(tag + " ")

	flush := func() error {
		c.setDeadline()
		_, err := c.c.Write(buf.Bytes())
		buf.Reset()

		return err
	}

	for _, p := range parts {
		switch v := p.(type) {
		case string:
			buf.WriteString(v)
		case []byte:
			buf.Write(v)
		case Lit:
			fmt.Fprintf(&buf, "{%d}\r\n", len(v))

			if err := flush(); err != nil {
				res.Err = err
				return res
			}

			// Wait for the continuation request (or an early completion).
			done, err := c.readUntil(res, true)
			if err != nil {
				res.Err = err
				return res
			}

			if done {
				return res
			}

			buf.Write(v)
		}
	}

	buf.WriteString("\r\n")

	if err := flush(); err != nil {
		res.Err = err
		return res
	}

	if _, err := c.readUntil(res, false); err != nil {
		res.Err = err
	}

	return res
}

// readUntil reads responses until the tagged completion (returns true) or, when
// stopAtCont is set, a continuation request (returns false).
func (c *Conn) readUntil(res *Result, stopAtCont bool) (bool, error) {
	for {
		r, err := c.readResp()
		if err != nil {
			if r != nil && len(r.Raw) > 0 {
				res.Untagged = append(res.Untagged, r)
			}

			return true, err
		}

		switch {
		case r.Tag == "+":
			res.Conts++

			if stopAtCont {
				return false, nil
			}
		case r.Tag == "*":
			if r.Kind == "BYE" {
				res.Bye = true
			}

			res.Untagged = append(res.Untagged, r)
		case r.Tag == res.Tag:
			res.Tagged = r
			res.Status = r.Kind
			res.Code = r.Code
			res.Text = r.Text

			return true, nil
		default:
			// A completion for a tag we did not send (e.g. the empty tag): keep it visible.
			r.Malformed = "unexpected tag " + strconv.Quote(r.Tag)
			res.Untagged = append(res.Untagged, r)

			if r.Kind == "OK" || r.Kind == "NO" || r.Kind == "BAD" {
				res.Tagged = r
				res.Status = r.Kind
				res.Code = r.Code
				res.Text = r.Text

				return true, nil
			}
		}
	}
}

// IdleStart sends IDLE and waits for the continuation; untagged responses sent before it
// are collected into the returned result.
func (c *Conn) IdleStart() *Result {
	tag := c.nextTag()
	res := &Result{Tag: tag, Cmd: tag + " IDLE"}
	c.log("C: " + res.Cmd)
	c.setDeadline()

	if _, err := c.c.Write([]byte(tag + " IDLE\r\n")); err != nil {
		res.Err = err
		return res
	}

	done, err := c.readUntil(res, true)
	if err != nil {
		res.Err = err
	}

	if done && res.Err == nil && res.Status == "" {
		res.Err = errors.New("connection ended during IDLE")
	}

	return res
}

// IdleDone sends DONE and collects everything up to the tagged completion into res.
func (c *Conn) IdleDone(res *Result) *Result {
	c.log("C: DONE")
	c.setDeadline()

	if _, err := c.c.Write([]byte("DONE\r\n")); err != nil {
		res.Err = err
		return res
	}

	if _, err := c.readUntil(res, false); err != nil {
		res.Err = err
	}

	return res
}

// Quote renders s as an IMAP quoted string.
func Quote(s string) string {
	var b strings.Builder

	b.WriteByte('"')

	for i := 0; i < len(s); i++ {
		if s[i] == '"' || s[i] == '\\' {
			b.WriteByte('\\')
		}

		b.WriteByte(s[i])
	}

	b.WriteByte('"')

	return b.String()
}

// Package ev holds the per-run bookkeeping shared by all checks: seeds, coverage
// counters measured by the monitors, violation reporting with narrow signatures,
// known-findings matching, replay files and the evidence file.
package ev

import (
	"bufio"
	"crypto/sha256"
	"encoding/binary"
	"encoding/json"
	"fmt"
	"math/rand"
	"os"
	"path/filepath"
	"regexp"
	"runtime/debug"
	"sort"
	"strconv"
	"strings"
	"sync"
	"sync/atomic"
	"time"
)

// Root returns the /verif directory.
func Root() string {
	if r := os.Getenv("VERIF_ROOT"); r != "" {
		return r
	}

	return "/verif"
}

// Violation is one oracle firing.
type Violation struct {
	Signature string `json:"signature"`
	What      string `json:"what"`
	Case      string `json:"case,omitempty"`
	Witness   any    `json:"witness,omitempty"`
	Known     bool   `json:"known"`
	Count     int    `json:"count"`
	Replay    string `json:"replay,omitempty"`
}

// Run is the state of one check execution.
type Run struct {
	ID    string
	Tier  string
	Seed  int64
	Level string

	// OnlyCase, when set (replay), restricts the run to the case with that label.
	OnlyCase string

	mu           sync.Mutex
	start        time.Time
	evaluations  int
	distinct     map[string]struct{}
	rule         string
	samples      []any
	maxSamples   int
	extra        map[string]any
	counters     map[string]int
	assumptions  []string
	violations   map[string]*Violation
	order        []string
	inconclusive []string
	known        map[string]string // signature -> text
	fixed        []string
	exhaustive   *bool
}

// NewRun creates the run context from the environment.
func NewRun(id, tier, level string) *Run {
	seed := int64(20260925)
	if s := os.Getenv("VERIF_SEED"); s != "" {
		if v, err := strconv.ParseInt(s, 10, 64); err == nil {
			seed = v
		}
	}

	r := &Run{
		ID:         id,
		Tier:       tier,
		Seed:       seed,
		Level:      level,
		start:      time.Now(),
		distinct:   map[string]struct{}{},
		extra:      map[string]any{},
		counters:   map[string]int{},
		violations: map[string]*Violation{},
		known:      map[string]string{},
		maxSamples: 6,
	}

	r.loadKnown()

	return r
}

func (r *Run) Quick() bool    { return r.Tier != "thorough" }
func (r *Run) Thorough() bool { return r.Tier == "thorough" }

// Pick returns q in the quick tier and t in the thorough tier.
func (r *Run) Pick(q, t int) int {
	if r.Thorough() {
		return t
	}

	return q
}

var findingRe = regexp.MustCompile(`^(finding|fixed):\s+property=(\S+)\s+(.*)$`)

func (r *Run) loadKnown() {
	f, err := os.Open(filepath.Join(Root(), "known-findings.txt"))
	if err != nil {
		return
	}
	defer f.Close()

	sc := bufio.NewScanner(f)
	sc.Buffer(make([]byte, 1<<20), 1<<20)

	for sc.Scan() {
		line := strings.TrimSpace(sc.Text())
		if line == "" || strings.HasPrefix(line, "#") {
			continue
		}

		m := findingRe.FindStringSubmatch(line)
		if m == nil || m[2] != r.ID {
			continue
		}

		if m[1] == "fixed" {
			r.fixed = append(r.fixed, m[3])
			continue
		}

		rest := m[3]
		if !strings.HasPrefix(rest, "key=") {
			continue
		}

		rest = strings.TrimPrefix(rest, "key=")

		var key, text string
		if strings.HasPrefix(rest, `"`) {
			end := strings.Index(rest[1:], `"`)
			if end < 0 {
				continue
			}

			key, text = rest[1:1+end], strings.TrimSpace(rest[2+end:])
		} else {
			parts := strings.SplitN(rest, " ", 2)
			key = parts[0]
			if len(parts) > 1 {
				text = parts[1]
			}
		}

		r.known[key] = text
	}
}

// Rand returns a PRNG derived from the run seed and the given labels (splittable).
func (r *Run) Rand(labels ...any) *rand.Rand {
	h := sha256.New()
	_ = binary.Write(h, binary.LittleEndian, r.Seed)
	fmt.Fprint(h, r.ID)

	for _, l := range labels {
		fmt.Fprintf(h, "|%v", l)
	}

	sum := h.Sum(nil)

	return rand.New(rand.NewSource(int64(binary.LittleEndian.Uint64(sum[:8]))))
}

// Eval counts generated cases / executions.
func (r *Run) Eval(n int) {
	r.mu.Lock()
	r.evaluations += n
	r.mu.Unlock()
}

// Distinct records one non-trivial case by its distinguishing key.
func (r *Run) Distinct(key string) {
	r.mu.Lock()
	if len(r.distinct) < 5_000_000 {
		r.distinct[key] = struct{}{}
	}
	r.mu.Unlock()
}

// DistinctCount returns the number of distinct keys so far.
func (r *Run) DistinctCount() int {
	r.mu.Lock()
	defer r.mu.Unlock()

	return len(r.distinct)
}

// Count adds to a named coverage counter.
func (r *Run) Count(name string, n int) {
	r.mu.Lock()
	r.counters[name] += n
	r.mu.Unlock()
}

// Counter returns a named coverage counter.
func (r *Run) Counter(name string) int {
	r.mu.Lock()
	defer r.mu.Unlock()

	return r.counters[name]
}

// Set records an extra coverage key.
func (r *Run) Set(key string, v any) {
	r.mu.Lock()
	r.extra[key] = v
	r.mu.Unlock()
}

func (r *Run) SetRule(rule string) { r.rule = rule }

func (r *Run) SetExhaustive(b bool) { r.exhaustive = &b }

func (r *Run) Assume(s ...string) {
	r.mu.Lock()
	r.assumptions = append(r.assumptions, s...)
	r.mu.Unlock()
}

// Sample keeps the first few written-out cases.
func (r *Run) Sample(v any) {
	r.mu.Lock()
	if len(r.samples) < r.maxSamples {
		r.samples = append(r.samples, v)
	}
	r.mu.Unlock()
}

// WantSample reports whether more samples are wanted (to avoid building them for nothing).
func (r *Run) WantSample() bool {
	r.mu.Lock()
	defer r.mu.Unlock()

	return len(r.samples) < r.maxSamples
}

// Inconclusive records that part of the run could not decide.
func (r *Run) Inconclusive(format string, a ...any) {
	r.mu.Lock()
	if len(r.inconclusive) < 50 {
		r.inconclusive = append(r.inconclusive, fmt.Sprintf(format, a...))
	}
	r.mu.Unlock()
}

var sanitizeRe = regexp.MustCompile(`[^A-Za-z0-9_.-]+`)

// Violate reports an oracle firing. signature is narrow: kind plus the discriminating
// part of the witness. caseLabel identifies the generated case (for replay).
func (r *Run) Violate(signature, what, caseLabel string, witness any) {
	r.mu.Lock()
	defer r.mu.Unlock()

	if v, ok := r.violations[signature]; ok {
		v.Count++
		return
	}

	_, known := r.known[signature]
	v := &Violation{Signature: signature, What: what, Case: caseLabel, Witness: witness, Known: known, Count: 1}

	dir := filepath.Join(Root(), "replays", r.ID)
	_ = os.MkdirAll(dir, 0o755)

	name := sanitizeRe.ReplaceAllString(signature, "_")
	if len(name) > 80 {
		name = name[:80]
	}

	path := filepath.Join(dir, fmt.Sprintf("%s-%d.json", name, r.Seed))

	blob, err := json.MarshalIndent(map[string]any{
		"property":  r.ID,
		"tier":      r.Tier,
		"seed":      r.Seed,
		"signature": signature,
		"what":      what,
		"case":      caseLabel,
		"witness":   witness,
	}, "", " ")
	if err != nil {
		blob, _ = json.Marshal(map[string]any{"property": r.ID, "seed": r.Seed, "signature": signature, "what": what, "case": caseLabel, "witness": fmt.Sprint(witness)})
	}

	_ = os.WriteFile(path, blob, 0o644)
	v.Replay = path

	r.violations[signature] = v
	r.order = append(r.order, signature)

	// Report immediately as well, so a later crash of the check cannot hide it.
	if known {
		fmt.Printf("KNOWN-FINDING: property=%s %s -- %s\n", r.ID, signature, r.known[signature])
	} else {
		fmt.Printf("VIOLATION property=%s replay=%s\n", r.ID, path)
		fmt.Printf("  signature: %s\n  what: %s\n", signature, what)
	}
}

// IsKnown reports whether a signature is listed as a known finding.
func (r *Run) IsKnown(signature string) bool {
	r.mu.Lock()
	defer r.mu.Unlock()

	_, ok := r.known[signature]

	return ok
}

// Violations returns the number of violations not covered by known findings.
func (r *Run) Violations() int {
	r.mu.Lock()
	defer r.mu.Unlock()

	n := 0

	for _, v := range r.violations {
		if !v.Known {
			n++
		}
	}

	return n
}

// Finish writes the evidence file and returns the process exit code.
func (r *Run) Finish() int {
	r.mu.Lock()
	defer r.mu.Unlock()

	cov := map[string]any{}
	for k, v := range r.extra {
		cov[k] = v
	}

	if len(r.counters) > 0 {
		keys := make([]string, 0, len(r.counters))
		for k := range r.counters {
			keys = append(keys, k)
		}

		sort.Strings(keys)

		c := map[string]int{}
		for _, k := range keys {
			c[k] = r.counters[k]
		}

		cov["counters"] = c
	}

	cov["evaluations"] = r.evaluations
	cov["distinct_nontrivial"] = len(r.distinct)
	cov["rule"] = r.rule

	samples := r.samples
	if len(samples) == 0 {
		samples = []any{"(no sample recorded)"}
	}

	cov["samples"] = samples

	if r.exhaustive != nil {
		cov["exhaustive"] = *r.exhaustive
	}

	if len(r.inconclusive) > 0 {
		cov["inconclusive"] = r.inconclusive
	}

	unknown, knownN := 0, 0

	var vs []*Violation

	for _, sig := range r.order {
		v := r.violations[sig]
		vs = append(vs, v)

		if v.Known {
			knownN++
		} else {
			unknown++
		}
	}

	if len(vs) > 0 {
		short := make([]map[string]any, 0, len(vs))
		for _, v := range vs {
			short = append(short, map[string]any{"signature": v.Signature, "what": v.What, "known": v.Known, "count": v.Count, "replay": v.Replay})
		}

		cov["violations_detail"] = short
	}

	cov["known_findings_hit"] = knownN

	if n := panicked.Load(); n > 0 {
		r.inconclusive = append(r.inconclusive, fmt.Sprintf("%d case(s) ended in a harness panic", n))
		cov["inconclusive"] = r.inconclusive
	}

	verdict := "held on what was observed"
	if unknown > 0 {
		verdict = "violated"
	} else if len(r.inconclusive) > 0 && len(r.distinct) < 2 {
		verdict = "inconclusive"
	}

	cov["verdict"] = verdict

	evd := map[string]any{
		"property_id": r.ID,
		"tier":        r.Tier,
		"seed":        r.Seed,
		"level":       r.Level,
		"coverage":    cov,
		"assumptions": append([]string{}, r.assumptions...),
		"wall_s":      time.Since(r.start).Seconds(),
		"violations":  unknown,
	}

	dir := filepath.Join(Root(), "evidence")
	_ = os.MkdirAll(dir, 0o755)

	blob, err := json.MarshalIndent(evd, "", " ")
	if err != nil {
		fmt.Fprintf(os.Stderr, "evidence marshal: %v\n", err)

		delete(cov, "samples")
		cov["samples"] = []any{fmt.Sprint(samples...)}
		blob, _ = json.MarshalIndent(evd, "", " ")
	}

	if err := os.WriteFile(filepath.Join(dir, r.ID+".json"), blob, 0o644); err != nil {
		fmt.Fprintf(os.Stderr, "evidence write: %v\n", err)
	}

	fmt.Printf("%s tier=%s seed=%d evaluations=%d distinct_nontrivial=%d violations=%d known=%d verdict=%q wall=%.1fs\n",
		r.ID, r.Tier, r.Seed, r.evaluations, len(r.distinct), unknown, knownN, verdict, time.Since(r.start).Seconds())

	for _, s := range r.inconclusive {
		fmt.Printf("  inconclusive: %s\n", s)
	}

	if unknown > 0 {
		return 1
	}

	return 0
}

// ReplayInfo is what a replay file carries.
type ReplayInfo struct {
	Property  string `json:"property"`
	Tier      string `json:"tier"`
	Seed      int64  `json:"seed"`
	Signature string `json:"signature"`
	Case      string `json:"case"`
}

// LoadReplay reads a replay file.
func LoadReplay(path string) (*ReplayInfo, error) {
	blob, err := os.ReadFile(path)
	if err != nil {
		return nil, err
	}

	var ri ReplayInfo
	if err := json.Unmarshal(blob, &ri); err != nil {
		return nil, err
	}

	return &ri, nil
}

// WorkDir creates a private scratch directory for this process under /verif/work.
func (r *Run) WorkDir() string {
	dir := filepath.Join(Root(), "work", fmt.Sprintf("%s-%d", r.ID, os.Getpid()))
	_ = os.MkdirAll(dir, 0o755)

	return dir
}

// Cleanup removes the scratch directory.
func (r *Run) Cleanup() {
	_ = os.RemoveAll(filepath.Join(Root(), "work", fmt.Sprintf("%s-%d", r.ID, os.Getpid())))
}

// Panicked counts harness panics caught inside Parallel workers.
var panicked atomic.Int64

// Parallel runs fn(i) for i in [0,n) on `workers` goroutines.
func Parallel(n, workers int, fn func(i int)) {
	if workers < 1 {
		workers = 1
	}

	var wg sync.WaitGroup

	ch := make(chan int)

	for w := 0; w < workers; w++ {
		wg.Add(1)

		go func() {
			defer wg.Done()

			for i := range ch {
				func() {
					defer func() {
						if v := recover(); v != nil {
							fmt.Fprintf(os.Stderr, "harness panic in case %d: %v\n%s\n", i, v, debug.Stack())
							panicked.Add(1)
						}
					}()

					fn(i)
				}()
			}
		}()
	}

	for i := 0; i < n; i++ {
		ch <- i
	}

	close(ch)
	wg.Wait()
}

package checks

import (
	"fmt"
	"strconv"
	"strings"
	"time"

	"github.com/ProtonMail/gluon/imap"

	"verifharness/ev"
	"verifharness/imapc"
	"verifharness/srv"
)

func init() { register("C04", "exploration", runC04) }

type c04Epoch struct {
	uidMarker   map[uint32]string
	maxUID      uint32
	lastUIDNext uint32
}

type c04Box struct {
	cur         uint32 // current UIDVALIDITY (0 = never seen)
	maxValidity uint32
	expectNew   bool // the name was deleted+re-created, or validity was bumped, since the last observation
	epochs      map[uint32]*c04Epoch
	exists      bool
}

type c04Monitor struct {
	r      *ev.Run
	label  string
	boxes  map[string]*c04Box
	log    []string
	failed bool

	aheadUntil uint32
	after      string // "" or "restart-with-generator-ahead-of-clock"
}

func (m *c04Monitor) logf(f string, a ...any) {
	m.log = append(m.log, fmt.Sprintf(f, a...))
	if len(m.log) > 300 {
		m.log = m.log[len(m.log)-300:]
	}
}

// violate reports; a recorded finding does not end the history (the monitor adopts the observed state and goes on).
func (m *c04Monitor) violate(sig, what string) bool {
	if m.failed {
		return true
	}

	m.r.Violate(sig, what, m.label, map[string]any{"history": m.log})

	if m.r.IsKnown(sig) {
		m.logf("(recorded finding: %s)", sig)
		return false
	}

	m.failed = true

	return true
}

var c04Epoch0 = time.Date(2023, 2, 1, 0, 0, 0, 0, time.UTC)

func (m *c04Monitor) maxValidityEver() uint32 {
	var mx uint32
	for _, b := range m.boxes {
		if b.maxValidity > mx {
			mx = b.maxValidity
		}
	}

	return mx
}

func (m *c04Monitor) noteRestart() {
	if uint64(m.maxValidityEver()) >= uint64(time.Since(c04Epoch0).Seconds()) {
		m.after = "restart-with-generator-ahead-of-clock"
		m.aheadUntil = m.maxValidityEver()
	}
}

func (m *c04Monitor) box(name string) *c04Box {
	b, ok := m.boxes[name]
	if !ok {
		b = &c04Box{epochs: map[uint32]*c04Epoch{}}
		m.boxes[name] = b
	}

	return b
}

// observe feeds one authoritative view of a mailbox into the monitor.
func (m *c04Monitor) observe(v *BoxView) {
	b := m.box(v.Name)
	b.exists = true

	if m.after != "" && uint64(time.Since(c04Epoch0).Seconds()) > uint64(m.aheadUntil)+1 {
		m.after = ""
	}

	ctx := ""
	if m.after != "" {
		ctx = " after-" + m.after
	}

	switch {
	case b.cur == 0:
		// first sight
	case v.UIDValidity == b.cur && b.expectNew:
		if m.violate("C04 uidvalidity-not-changed-on-recreate"+ctx, fmt.Sprintf("mailbox %q was deleted and re-created (or UIDVALIDITY was bumped) but still has UIDVALIDITY %d", v.Name, v.UIDValidity)) {
			return
		}

		// recorded finding: the same value now names a new incarnation; start its epoch afresh
		delete(b.epochs, v.UIDValidity)
	case v.UIDValidity != b.cur && !b.expectNew:
		m.violate("C04 uidvalidity-changed-without-cause"+ctx, fmt.Sprintf("UIDVALIDITY of %q changed from %d to %d although the mailbox was neither re-created nor bumped", v.Name, b.cur, v.UIDValidity))
		return
	}

	if v.UIDValidity != b.cur && b.cur != 0 && v.UIDValidity <= b.maxValidity {
		if m.violate("C04 uidvalidity-not-greater"+ctx, fmt.Sprintf("new UIDVALIDITY %d of %q is not greater than the earlier value %d for that name", v.UIDValidity, v.Name, b.maxValidity)) {
			return
		}

		delete(b.epochs, v.UIDValidity)
	}

	b.cur = v.UIDValidity
	b.expectNew = false

	if v.UIDValidity > b.maxValidity {
		b.maxValidity = v.UIDValidity
	}

	e, ok := b.epochs[v.UIDValidity]
	if !ok {
		e = &c04Epoch{uidMarker: map[uint32]string{}}
		b.epochs[v.UIDValidity] = e
	}

	oldMax := e.maxUID

	for _, msg := range v.Msgs {
		if mk, seen := e.uidMarker[msg.UID]; seen {
			if mk != msg.Marker {
				m.violate("C04 uid-reused"+ctx, fmt.Sprintf("UID %d of %q (UIDVALIDITY %d) denoted message %q and now denotes %q", msg.UID, v.Name, v.UIDValidity, mk, msg.Marker))
				return
			}

			continue
		}

		if msg.UID <= oldMax {
			m.violate("C04 uid-not-increasing"+ctx, fmt.Sprintf("message %q appeared in %q under UID %d although UID %d had already been assigned (UIDVALIDITY %d)", msg.Marker, v.Name, msg.UID, oldMax, v.UIDValidity))
			return
		}

		e.uidMarker[msg.UID] = msg.Marker

		if msg.UID > e.maxUID {
			e.maxUID = msg.UID
		}
	}

	if v.UIDNext != 0 {
		if v.UIDNext <= e.maxUID {
			m.violate("C04 uidnext-not-above-assigned"+ctx, fmt.Sprintf("UIDNEXT of %q is %d although UID %d has been assigned (UIDVALIDITY %d)", v.Name, v.UIDNext, e.maxUID, v.UIDValidity))
			return
		}

		if v.UIDNext < e.lastUIDNext {
			m.violate("C04 uidnext-decreased"+ctx, fmt.Sprintf("UIDNEXT of %q went from %d to %d (UIDVALIDITY %d)", v.Name, e.lastUIDNext, v.UIDNext, v.UIDValidity))
			return
		}

		e.lastUIDNext = v.UIDNext
	}
}

// expandSet expands a UID set like "3:5,9" (as in COPYUID) in order.
func expandSet(s string) []uint32 {
	var out []uint32

	for _, part := range strings.Split(s, ",") {
		if i := strings.IndexByte(part, ':'); i >= 0 {
			a, _ := strconv.ParseUint(part[:i], 10, 32)
			b, _ := strconv.ParseUint(part[i+1:], 10, 32)

			if a <= b {
				for x := a; x <= b; x++ {
					out = append(out, uint32(x))
				}
			} else {
				for x := a; x >= b && x > 0; x-- {
					out = append(out, uint32(x))
				}
			}
		} else if v, err := strconv.ParseUint(part, 10, 32); err == nil {
			out = append(out, uint32(v))
		}
	}

	return out
}

func runC04(r *ev.Run) {
	r.SetRule("histories of APPEND / COPY / MOVE / expunge-of-the-highest-UID / failing commands / connector additions / DELETE+CREATE of the same name (also in bursts within one second, also re-created by RENAME INBOX <name>) / UIDVALIDITY bump / clean server restarts; after every step every mailbox is observed through a fresh EXAMINE (UIDVALIDITY, UIDNEXT, UID and marker of every message) and fed to an online monitor: per (name, UIDVALIDITY) a UID denotes one message forever, every newly seen UID exceeds all UIDs seen before, UIDNEXT exceeds every assigned UID and never decreases; APPENDUID / COPYUID are where the messages are then found; per name UIDVALIDITY only changes on re-creation/bump and then to a strictly greater value. distinct = distinct (operation, outcome, context) tuples")
	r.Assume("restarts are clean close+reopen of the same data directories in this check (process kills are exercised by C07)")

	hist := r.Pick(150, 1500)

	ev.Parallel(hist, 10, func(i int) {
		label := fmt.Sprintf("hist-%d", i)
		if r.OnlyCase != "" && r.OnlyCase != label {
			return
		}

		c04History(r, label, r.Pick(50, 70))
	})
}

type c04Case struct {
	r     *ev.Run
	m     *c04Monitor
	s     *srv.Server
	c     *imapc.Conn
	boxes []string
	last  map[string]*BoxView
	n     int
}

func (c *c04Case) reconnect() bool {
	if c.c != nil {
		c.c.Close()
	}

	conn, err := c.s.Login("c04")
	if err != nil {
		c.r.Inconclusive("%s: login: %v", c.m.label, err)
		c.m.failed = true

		return false
	}

	c.c = conn

	return true
}

// cmdRetry sends a command; when the session turns out to be dead (BYE after an invalidated state) it reconnects
// and sends it once more.
func (c *c04Case) cmdRetry(cmd string) (*imapc.Result, bool) {
	res := c.c.Cmd(cmd)
	if res.Bye || res.Err != nil {
		c.m.logf("%s -> bye=%v err=%v: reconnecting", cmd, res.Bye, res.Err)

		if !c.reconnect() {
			return res, false
		}

		res = c.c.Cmd(cmd)
	}

	return res, true
}

func (c *c04Case) observeAll() bool {
	for _, b := range c.boxes {
		if !c.m.box(b).exists {
			continue
		}

		v, err := freshView(c.s, 0, b, false)
		if err != nil {
			c.m.violate("C04 fresh-view-failed", fmt.Sprintf("fresh view of %s: %v", b, err))
			return false
		}

		c.m.observe(v)
		c.last[b] = v

		if c.m.failed {
			return false
		}
	}

	return true
}

func c04History(r *ev.Run, label string, steps int) {
	rng := r.Rand(label)

	s, err := startServer(r, label, nil)
	if err != nil {
		r.Inconclusive("%s: %v", label, err)
		return
	}

	m := &c04Monitor{r: r, label: label, boxes: map[string]*c04Box{}}
	c := &c04Case{r: r, m: m, s: s, boxes: []string{"INBOX", "Work", "Tmp"}, last: map[string]*BoxView{}}

	defer func() { finishServer(r, c.s, label, func() []string { return m.log }) }()

	if !c.reconnect() {
		return
	}

	for _, b := range c.boxes[1:] {
		c.c.Cmd("CREATE " + b)
	}

	for _, b := range c.boxes {
		m.box(b).exists = true
	}

	r.Eval(1)

	if !c.observeAll() {
		return
	}

	restarts := 0

	for step := 0; step < steps && !m.failed; step++ {
		box := c.boxes[rng.Intn(len(c.boxes))]
		k := rng.Intn(100)

		sel := func(b string) bool {
			res := c.c.Cmdf("SELECT %s", b)
			if res.Bye || res.Err != nil {
				// e.g. state invalidated by a bump: reconnect
				if !c.reconnect() {
					return false
				}

				res = c.c.Cmdf("SELECT %s", b)
			}

			return res.OK()
		}

		switch {
		case k < 30: // APPEND
			c.n++
			mk := fmt.Sprintf("%s-m%d", label, c.n)
			res := c.c.Cmd(fmt.Sprintf("APPEND %s ", box), imapc.Lit(simpleMessage(mk, rng)))

			if res.Bye || res.Err != nil {
				if !c.reconnect() {
					return
				}

				res = c.c.Cmd(fmt.Sprintf("APPEND %s ", box), imapc.Lit(simpleMessage(mk, rng)))
			}

			m.logf("APPEND %s %s -> %s [%s]", box, mk, res.Status, res.Code)
			r.Distinct("APPEND " + res.Status + m.after)

			if res.OK() {
				f := strings.Fields(res.Code)
				if len(f) != 3 || !strings.EqualFold(f[0], "APPENDUID") {
					m.violate("C04 appenduid-missing", fmt.Sprintf("APPEND answered OK without APPENDUID: [%s]", res.Code))
					return
				}

				val, _ := strconv.ParseUint(f[1], 10, 32)
				uid, _ := strconv.ParseUint(f[2], 10, 32)

				if !c.observeAll() {
					return
				}

				v := c.last[box]

				found := false
				for _, msg := range v.Msgs {
					if msg.Marker == mk {
						found = true

						if uint32(uid) != msg.UID || uint32(val) != v.UIDValidity {
							m.violate("C04 appenduid-wrong", fmt.Sprintf("APPEND announced [APPENDUID %d %d] but the message is found under UIDVALIDITY %d UID %d", val, uid, v.UIDValidity, msg.UID))
							return
						}
					}
				}

				if !found {
					m.violate("C04 appended-message-missing", fmt.Sprintf("APPEND of %s to %s answered OK but a fresh session does not find it", mk, box))
					return
				}
			}
		case k < 50: // COPY / MOVE
			if !sel(box) {
				continue
			}

			src := c.last[box]
			if src == nil || len(src.Msgs) == 0 {
				continue
			}

			dst := c.boxes[rng.Intn(len(c.boxes))]
			verb := []string{"COPY", "MOVE", "UID COPY", "UID MOVE"}[rng.Intn(4)]
			n := len(src.Msgs)
			a := 1 + rng.Intn(n)
			b := a + rng.Intn(n-a+1)
			set := fmt.Sprintf("%d:%d", a, b)

			if strings.HasPrefix(verb, "UID") {
				set = fmt.Sprintf("%d:%d", src.Msgs[a-1].UID, src.Msgs[b-1].UID)
			}

			// a message set is a set: the same messages named one by one in any order (or as a reversed range)
			shape := "range"

			if b > a && rng.Intn(3) == 0 {
				var parts []string

				for _, i := range rng.Perm(b - a + 1) {
					if strings.HasPrefix(verb, "UID") {
						parts = append(parts, fmt.Sprint(src.Msgs[a-1+i].UID))
					} else {
						parts = append(parts, fmt.Sprint(a+i))
					}
				}

				set, shape = strings.Join(parts, ","), "unordered-list"
			}

			if rng.Intn(8) == 0 {
				dst = "NoSuchMailbox"
			}

			res := c.c.Cmdf("%s %s %s", verb, set, dst)
			m.logf("[%s] %s %s %s -> %s [%s] %v", box, verb, set, dst, res.Status, res.Code, res.Kinds())
			r.Distinct(fmt.Sprintf("%s %s same=%v %s%s", verb, shape, dst == box, res.Status, m.after))

			code := res.Code
			for _, u := range res.Untagged {
				if u.Kind == "OK" && strings.HasPrefix(strings.ToUpper(u.Code), "COPYUID") {
					code = u.Code
				}
			}

			srcMarkers := map[uint32]string{}
			for _, msg := range src.Msgs {
				srcMarkers[msg.UID] = msg.Marker
			}

			if !c.observeAll() {
				return
			}

			if res.OK() && strings.HasPrefix(strings.ToUpper(code), "COPYUID") {
				f := strings.Fields(code)
				if len(f) == 4 {
					val, _ := strconv.ParseUint(f[1], 10, 32)
					from, to := expandSet(f[2]), expandSet(f[3])
					dv := c.last[dst]

					if dv == nil || uint32(val) != dv.UIDValidity || len(from) != len(to) {
						m.violate("C04 copyuid-wrong", fmt.Sprintf("[%s] does not match the destination (UIDVALIDITY %v, %d source and %d destination UIDs)", code, dv, len(from), len(to)))
						return
					}

					dstMarkers := map[uint32]string{}
					for _, msg := range dv.Msgs {
						dstMarkers[msg.UID] = msg.Marker
					}

					for i := range from {
						if srcMarkers[from[i]] == "" || srcMarkers[from[i]] != dstMarkers[to[i]] {
							m.violate("C04 copyuid-wrong", fmt.Sprintf("[%s]: source UID %d is message %q, destination UID %d is message %q", code, from[i], srcMarkers[from[i]], to[i], dstMarkers[to[i]]))
							return
						}
					}

					r.Distinct("COPYUID verified n=" + lenClass(len(from)) + " " + shape)
				}
			}

			continue
		case k < 62: // expunge the highest UID (and sometimes others), then the next append must not reuse it
			if !sel(box) {
				continue
			}

			v := c.last[box]
			if v == nil || len(v.Msgs) == 0 {
				continue
			}

			set := "*"
			if rng.Intn(3) == 0 && len(v.Msgs) > 1 {
				set = fmt.Sprintf("%d:*", len(v.Msgs)-1)
			}

			c.c.Cmdf(`STORE %s +FLAGS.SILENT (\Deleted)`, set)
			res := c.c.Cmd("EXPUNGE")
			m.logf("[%s] expunge %s -> %s %v", box, set, res.Status, res.Kinds())
			r.Distinct("expunge-highest " + res.Status + m.after)
		case k < 70: // connector addition
			u := c.s.Users[0]

			id, ok := u.Conn.MailboxID(box)
			if !ok {
				continue
			}

			var created []*imap.MessageCreated

			for i := 0; i < 1+rng.Intn(3); i++ {
				c.n++

				mc, err := u.Conn.RemoteAddMessage(simpleMessage(fmt.Sprintf("%s-m%d", label, c.n), rng), imap.NewFlagSet(), time.Unix(1136214245, 0).UTC(), id)
				if err != nil {
					continue
				}

				created = append(created, mc)
			}

			ack := u.Conn.Apply(imap.NewMessagesCreated(false, created...), srv.UpdateTimeout)
			m.logf("connector MessagesCreated x%d into %s -> %v", len(created), box, ack.Err)
			r.Distinct("connector-create" + m.after)
		case k < 85: // DELETE + CREATE of the same name, possibly in a burst
			if box == "INBOX" {
				continue
			}

			times := 1
			if rng.Intn(3) == 0 {
				times = 2 + rng.Intn(12)
			}

			ok, viaInbox := true, false

			for i := 0; i < times && ok; i++ {
				d, alive := c.cmdRetry("DELETE " + box)
				if !alive {
					return
				}

				// Deleting the mailbox this session has selected ends the session with BYE: reconnect.
				// The name comes back by CREATE, or by RENAME INBOX (which creates it and moves INBOX's messages there).
				recreate := "CREATE " + box
				if rng.Intn(3) == 0 {
					recreate = "RENAME INBOX " + box
					viaInbox = true
				}

				cr, alive := c.cmdRetry(recreate)
				if !alive {
					return
				}

				ok = d.OK() && cr.OK()
				m.logf("DELETE %s -> %s; %s -> %s %s", box, d.Status, recreate, cr.Status, cr.Text)
			}

			if !ok {
				m.violate("C04 delete-create-refused", fmt.Sprintf("DELETE/CREATE of %s refused", box))
				return
			}

			// The remote's mailbox id changed with the re-creation.
			m.box(box).expectNew = true
			r.Distinct(fmt.Sprintf("delete-create burst=%s via-rename-inbox=%v%s", lenClass(times), viaInbox, m.after))

		case k < 90: // UIDVALIDITY bump
			u := c.s.Users[0]
			ack := u.Conn.Apply(imap.NewUIDValidityBumped(), srv.UpdateTimeout)
			m.logf("connector UIDValidityBumped -> %v", ack.Err)

			if ack.Err == nil && ack.Acked {
				for _, b := range c.boxes {
					m.box(b).expectNew = true
				}
			}

			r.Distinct("bump" + m.after)

			if !c.reconnect() {
				return
			}
		default: // clean restart
			if restarts >= 3 {
				continue
			}

			restarts++
			c.c.Close()

			ns, err := c.s.Restart()
			if err != nil {
				m.violate("C04 restart-failed", fmt.Sprintf("server did not come up again on its own directories: %v", err))
				return
			}

			c.s = ns
			m.logf("server restarted (clean close + reopen)")

			// Classification only (never decides a verdict): the default UIDVALIDITY generator keeps its
			// high-water mark in memory. When it had run ahead of the clock (several values handed out
			// within one second) a restart makes it forget values it already used; violations that follow
			// are the recorded finding as long as the clock has not caught up.
			m.noteRestart()
			r.Distinct("restart " + m.after)

			if !c.reconnect() {
				return
			}
		}

		if !c.observeAll() {
			return
		}
	}

	if !m.failed && r.WantSample() {
		l := m.log
		if len(l) > 40 {
			l = l[:40]
		}

		r.Sample(map[string]any{"case": label, "restarts": restarts, "first_events": l})
	}
}

package checks

import (
	"fmt"
	"math/rand"
	"sort"
	"strings"

	"github.com/ProtonMail/gluon/imap"
	"github.com/ProtonMail/gluon/verifhooks"
	"github.com/emersion/go-imap/utf7"

	"verifharness/ev"
	"verifharness/imapc"
	"verifharness/srv"
)

func init() { register("C14", "exploration", runC14) }

// ---- reference model of the namespace ---------------------------------------------------

type nsModel struct {
	delim   string
	boxes   map[string]bool // existing name -> subscribed
	delSubs map[string]bool // names that are subscribed although no mailbox of that name exists
}

func newNSModel(delim string) *nsModel {
	return &nsModel{delim: delim, boxes: map[string]bool{"INBOX": true}, delSubs: map[string]bool{}}
}

// canon folds the case of a leading INBOX component.
func (m *nsModel) canon(name string) string {
	if strings.EqualFold(name, "INBOX") {
		return "INBOX"
	}

	if len(name) > 6 && strings.EqualFold(name[:5], "INBOX") && strings.HasPrefix(name[5:], m.delim) {
		return "INBOX" + name[5:]
	}

	return name
}

func (m *nsModel) superiors(name string) []string {
	parts := strings.Split(name, m.delim)

	var out []string
	for i := 1; i < len(parts); i++ {
		out = append(out, strings.Join(parts[:i], m.delim))
	}

	return out
}

func (m *nsModel) validName(name string) bool {
	return name != "" && !strings.HasPrefix(name, m.delim) && !strings.Contains(name, m.delim+m.delim)
}

func (m *nsModel) isRecovery(name string) bool {
	return strings.EqualFold(name, verifhooks.RecoveryMailboxName)
}

// Expected outcomes: "OK", "NO" (any refusal), or "ANY" where the specification leaves it open; in
// the last case the model follows what the server answered.

func (m *nsModel) create(name string) (want string, apply func()) {
	for strings.HasSuffix(name, m.delim) && name != "" {
		name = strings.TrimSuffix(name, m.delim)
	}

	name = m.canon(name)

	switch {
	case !m.validName(name), name == "INBOX", m.isRecovery(name):
		return "NO", nil
	case strings.HasPrefix(strings.ToLower(name), strings.ToLower(verifhooks.RecoveryMailboxName)):
		// gluon refuses every name that begins like the recovery mailbox; RFC-wise either is fine
		return "NO-OR-OK", func() { m.doCreate(name) }
	}

	if _, ok := m.boxes[name]; ok {
		return "NO", nil
	}

	return "OK", func() { m.doCreate(name) }
}

func (m *nsModel) doCreate(name string) {
	for _, s := range append(m.superiors(name), name) {
		if _, ok := m.boxes[s]; !ok {
			m.boxes[s] = true // new mailboxes are subscribed (gluon's documented default)
			delete(m.delSubs, s)
		}
	}
}

func (m *nsModel) del(name string) (string, func()) {
	name = m.canon(name)

	if name == "INBOX" || m.isRecovery(name) {
		return "NO", nil
	}

	sub, ok := m.boxes[name]
	if !ok {
		return "NO", nil
	}

	return "OK", func() {
		delete(m.boxes, name)

		if sub {
			m.delSubs[name] = true
		}
	}
}

func (m *nsModel) rename(from, to string) (string, func()) {
	from, to = m.canon(from), m.canon(to)

	if m.isRecovery(from) || m.isRecovery(to) {
		return "NO", nil
	}

	sub, ok := m.boxes[from]
	if !ok {
		return "NO", nil
	}

	if !m.validName(to) {
		return "NO", nil
	}

	// a trailing delimiter is a hint (as for CREATE); refusing it is fine too
	if strings.HasSuffix(to, m.delim) {
		trimmed := strings.TrimSuffix(to, m.delim)
		_, apply := m.rename(from, trimmed)

		if apply == nil {
			return "NO", nil
		}

		return "NO-OR-OK", apply
	}

	if _, exists := m.boxes[to]; exists {
		return "NO", nil
	}

	if strings.HasPrefix(to, from+m.delim) {
		return "NO", nil
	}

	// names stay unique: an inferior that would land on an existing name blocks the rename - unless that name is
	// itself being moved away (RENAME a.b a with an inferior a.b.c -> a.b): then the outcome depends on the order
	// in which the server renames the inferiors, and either answer is accepted
	chain := false

	if from != "INBOX" {
		for n := range m.boxes {
			if strings.HasPrefix(n, from+m.delim) {
				target := to + n[len(from):]

				if _, taken := m.boxes[target]; taken {
					if target == from || strings.HasPrefix(target, from+m.delim) {
						chain = true
						continue
					}

					return "NO", nil
				}
			}
		}
	}

	verdict := "OK"
	if chain {
		verdict = "NO-OR-OK"
	}

	return verdict, func() {
		for _, s := range m.superiors(to) {
			if _, ok := m.boxes[s]; !ok {
				m.boxes[s] = true
				delete(m.delSubs, s)
			}
		}

		if from == "INBOX" {
			// INBOX stays (emptied), the new name receives its messages; inferiors stay.
			m.boxes[to] = true
			delete(m.delSubs, to)

			return
		}

		moves := map[string]string{from: to}

		for n := range m.boxes {
			if strings.HasPrefix(n, from+m.delim) {
				moves[n] = to + n[len(from):]
			}
		}

		subs := map[string]bool{}
		for o := range moves {
			subs[o] = m.boxes[o]
			delete(m.boxes, o)
		}

		_ = sub

		for o, n := range moves {
			m.boxes[n] = subs[o]
			delete(m.delSubs, n)
		}
	}
}

func (m *nsModel) subscribe(name string) (string, func()) {
	name = m.canon(name)

	if m.isRecovery(name) {
		// hidden while empty; its subscription state is not observable here
		return "NO-OR-OK", func() {}
	}

	sub, ok := m.boxes[name]

	switch {
	case !ok:
		// RFC 3501 allows subscribing to a name that does not exist; a server may also refuse.
		return "NO-OR-OK", func() { m.delSubs[name] = true }
	case sub:
		return "NO-OR-OK", func() {}
	default:
		return "OK", func() { m.boxes[name] = true }
	}
}

func (m *nsModel) unsubscribe(name string) (string, func()) {
	name = m.canon(name)

	if m.isRecovery(name) {
		return "NO-OR-OK", func() {}
	}

	sub, ok := m.boxes[name]

	switch {
	case ok && sub:
		return "OK", func() { m.boxes[name] = false }
	case ok:
		return "NO-OR-OK", func() {}
	case m.delSubs[name]:
		return "OK", func() { delete(m.delSubs, name) }
	default:
		return "NO", nil
	}
}

// globMatch: RFC 3501 wildcard matching: * matches anything, % anything but the delimiter.
func globMatch(pat, name, delim string) bool {
	if pat == "" {
		return name == ""
	}

	switch pat[0] {
	case '*':
		for i := 0; i <= len(name); i++ {
			if globMatch(pat[1:], name[i:], delim) {
				return true
			}
		}

		return false
	case '%':
		for i := 0; i <= len(name); i++ {
			if globMatch(pat[1:], name[i:], delim) {
				return true
			}

			if i < len(name) && strings.HasPrefix(name[i:], delim) {
				break
			}
		}

		return false
	default:
		return name != "" && name[0] == pat[0] && globMatch(pat[1:], name[1:], delim)
	}
}

type nsEntry struct {
	Name     string
	NoSelect bool
}

// list computes what LIST (lsub=false) or LSUB returns for ref+pattern.
func (m *nsModel) list(ref, pattern string, lsub bool) []nsEntry {
	if pattern == "" {
		// the root of the reference
		root := ""

		if strings.Contains(ref, m.delim) {
			if strings.HasPrefix(ref, m.delim) {
				root = m.delim
			}

			root += strings.Split(ref, m.delim)[0]
			if root != "" && root != m.delim {
				root += m.delim
			}
		}

		return []nsEntry{{Name: root, NoSelect: true}}
	}

	full := m.canon(ref + pattern)

	base := map[string]bool{}

	if lsub {
		for n, s := range m.boxes {
			if s {
				base[n] = true
			}
		}

		for n := range m.delSubs {
			base[n] = true
		}
	} else {
		for n := range m.boxes {
			base[n] = true
		}
	}

	cand := map[string]bool{}

	for n := range base {
		cand[n] = true
		for _, s := range m.superiors(n) {
			cand[s] = true
		}
	}

	var out []nsEntry

	for n := range cand {
		if n == "" || !globMatch(full, n, m.delim) {
			continue
		}

		if lsub {
			if !base[n] && !strings.HasSuffix(pattern, "%") {
				continue
			}

			_, exists := m.boxes[n]
			out = append(out, nsEntry{Name: n, NoSelect: !(exists && base[n])})
		} else {
			_, exists := m.boxes[n]
			out = append(out, nsEntry{Name: n, NoSelect: !exists})
		}
	}

	sort.Slice(out, func(i, j int) bool { return out[i].Name < out[j].Name })

	return out
}

// toWireName / fromWirePath convert between the UTF-8 names the connector sees and the modified
// UTF-7 names on the wire.
func toWireName(s string) string {
	out, err := utf7.Encoding.NewEncoder().String(s)
	if err != nil {
		return s
	}

	return out
}

func fromWirePath(p []string) []string {
	out := make([]string, len(p))

	for i, s := range p {
		d, err := utf7.Encoding.NewDecoder().String(s)
		if err != nil {
			d = s
		}

		out[i] = d
	}

	return out
}

// ---- the check ---------------------------------------------------------------------------

func runC14(r *ev.Run) {
	r.SetRule("random histories of CREATE / DELETE / RENAME / SUBSCRIBE / UNSUBSCRIBE from 1-3 sessions (names of depth 1-3 over a small alphabet incl. INBOX in three spellings, a quoted name with a space, a modified-UTF-7 name, trailing/leading/doubled delimiters, the recovery mailbox) and connector MailboxCreated/Deleted/Updated, with delimiter '/' or '.'. After every step the tagged result is compared with the reference model, and LIST and LSUB are compared with it for \"\" \"*\" and for reference/pattern pairs drawn from a pool (%, *, mixed, INBOX spellings, non-empty references, the empty pattern): exact set of names, \\Noselect exactly on names that exist only as parents (LSUB: not subscribed). distinct = distinct (command, expected, answered) triples and (LIST/LSUB, reference, pattern class, result size class) tuples")
	r.Assume("new mailboxes are subscribed (gluon's default); where RFC 3501 leaves the outcome open (SUBSCRIBE of a missing or already subscribed name, UNSUBSCRIBE of an unsubscribed one, names that merely begin like the recovery mailbox) the model follows the server's answer and checks the resulting state; a connector MailboxUpdated renames exactly the mailbox it names, a connector MailboxDeleted also ends the subscription")

	hist := r.Pick(150, 2500)

	ev.Parallel(hist, 10, func(i int) {
		label := fmt.Sprintf("hist-%d", i)
		if r.OnlyCase != "" && r.OnlyCase != label {
			return
		}

		c14History(r, label, r.Pick(40, 60))
	})
}

type c14Case struct {
	r     *ev.Run
	label string
	rng   *rand.Rand
	s     *srv.Server
	m     *nsModel
	delim string
	log   []string
	fail  bool
	conns []*imapc.Conn
	// remote ids of mailboxes the connector knows, by current name
}

func (c *c14Case) logf(f string, a ...any) {
	c.log = append(c.log, fmt.Sprintf(f, a...))
}

func (c *c14Case) violate(sig, what string) {
	if c.fail {
		return
	}

	c.fail = true
	c.r.Violate(sig, what, c.label, map[string]any{"history": c.log, "delimiter": c.delim})
}

var c14Components = []string{"a", "b", "ab", "c", "a", "b", "my box", "&AOk-t&AOk-", "x*y"}

func (c *c14Case) randName() string {
	depth := 1 + c.rng.Intn(3)
	parts := make([]string, depth)

	for i := range parts {
		parts[i] = c14Components[c.rng.Intn(len(c14Components)-1)] // without the wildcard one
	}

	if c.rng.Intn(6) == 0 {
		parts[0] = []string{"INBOX", "inbox", "Inbox"}[c.rng.Intn(3)]
	}

	name := strings.Join(parts, c.delim)

	switch c.rng.Intn(30) {
	case 0:
		name += c.delim
	case 1:
		name = c.delim + name
	case 2:
		name = strings.Replace(name, c.delim, c.delim+c.delim, 1)
	case 3:
		name = verifhooks.RecoveryMailboxName
	case 4:
		name = strings.ToLower(verifhooks.RecoveryMailboxName)
	}

	return name
}

// someName prefers names that exist (or existed).
func (c *c14Case) someName() string {
	if c.rng.Intn(4) != 0 {
		var names []string
		for n := range c.m.boxes {
			names = append(names, n)
		}

		for n := range c.m.delSubs {
			names = append(names, n)
		}

		sort.Strings(names)

		n := names[c.rng.Intn(len(names))]
		if n == "INBOX" && c.rng.Intn(2) == 0 {
			n = []string{"inbox", "Inbox", "iNbOx"}[c.rng.Intn(3)]
		} else if strings.HasPrefix(n, "INBOX"+c.delim) && c.rng.Intn(2) == 0 {
			n = "inbox" + n[5:]
		}

		return n
	}

	return c.randName()
}

func (c *c14Case) patterns() (string, string) {
	d := c.delim
	refs := []string{"", "", "", "a" + d, "a", "INBOX" + d, "inbox" + d, d, "b" + d + "a" + d, "ab"}
	pats := []string{"*", "%", "a" + d + "%", "a*", "%" + d + "%", "*b", "a" + d + "b", "inbox", "INBOX", "Inbox" + d + "*", "INBOX" + d + "%", "%" + d + "b*", "", "a%b", "**", "%*", "*%", "a" + d + "%" + d + "c", "%b", "*" + d + "a", "%" + d + "%" + d + "%", "a%", "b%" + d + "%", "my box", "my*", "&AOk-t&AOk-", "*" + d + "*", "%a%", "a" + d + "*" + d + "%", "c", "ab" + d, "a" + d}

	return refs[c.rng.Intn(len(refs))], pats[c.rng.Intn(len(pats))]
}

func patClass(p string) string {
	star, pct := strings.Contains(p, "*"), strings.Contains(p, "%")

	switch {
	case p == "":
		return "empty"
	case star && pct:
		return "mixed"
	case star:
		return "star"
	case pct && strings.HasSuffix(p, "%"):
		return "percent-last"
	case pct:
		return "percent"
	default:
		return "literal"
	}
}

func (c *c14Case) checkList(conn *imapc.Conn, ref, pat string, lsub bool) bool {
	verb := "LIST"
	if lsub {
		verb = "LSUB"
	}

	res := conn.Cmdf("%s %s %s", verb, imapc.Quote(ref), imapc.Quote(pat))
	if !res.OK() {
		c.violate("C14 list-refused", fmt.Sprintf("%s %q %q answered %s %s", verb, ref, pat, res.Status, res.Text))
		return false
	}

	var got []nsEntry

	seen := map[string]bool{}

	for _, u := range res.Untagged {
		if u.Kind != verb || len(u.Items) < 3 {
			continue
		}

		e := nsEntry{Name: u.Items[2].Str}

		for _, a := range u.Items[0].List {
			if strings.EqualFold(a.Str, `\Noselect`) {
				e.NoSelect = true
			}
		}

		if d := u.Items[1].Str; d != c.delim && !(u.Items[1].IsNil() && c.delim == "") {
			c.violate("C14 wrong-delimiter", fmt.Sprintf("%s %q %q reports delimiter %q for %q, the server's is %q", verb, ref, pat, d, e.Name, c.delim))
			return false
		}

		if seen[e.Name] {
			c.violate("C14 name-listed-twice "+verb, fmt.Sprintf("%s %q %q lists %q twice", verb, ref, pat, e.Name))
			return false
		}

		seen[e.Name] = true
		got = append(got, e)
	}

	sort.Slice(got, func(i, j int) bool { return got[i].Name < got[j].Name })

	want := c.m.list(ref, pat, lsub)

	c.r.Distinct(fmt.Sprintf("%s ref=%q pat=%s n=%s", verb, ref, patClass(pat), lenClass(len(want))))

	if fmt.Sprint(got) != fmt.Sprint(want) {
		sig := "names"

		gn, wn := map[string]bool{}, map[string]bool{}
		for _, e := range got {
			gn[e.Name] = true
		}

		for _, e := range want {
			wn[e.Name] = true
		}

		if fmt.Sprint(gn) == fmt.Sprint(wn) {
			sig = "noselect"
		}

		c.violate(fmt.Sprintf("C14 %s-differs %s pattern=%s", strings.ToLower(verb), sig, patClass(pat)), fmt.Sprintf("%s %q %q returned %v, the model says %v (mailboxes: %v; subscribed without mailbox: %v)", verb, ref, pat, got, want, c.m.boxes, c.m.delSubs))

		return false
	}

	return true
}

func c14History(r *ev.Run, label string, steps int) {
	rng := r.Rand(label)
	delim := "/"

	if rng.Intn(4) == 0 {
		delim = "."
	}

	s, err := startServer(r, label, func(o *srv.Options) { o.Delimiter, o.SetDelimiter = delim, true })
	if err != nil {
		r.Inconclusive("%s: %v", label, err)
		return
	}

	c := &c14Case{r: r, label: label, rng: rng, s: s, m: newNSModel(delim), delim: delim}

	defer func() {
		for _, cn := range c.conns {
			cn.Close()
		}

		finishServer(r, s, label, func() []string { return c.log })
	}()

	for i := 0; i < 1+rng.Intn(3); i++ {
		cn, err := s.Login(fmt.Sprintf("s%d", i))
		if err != nil {
			r.Inconclusive("%s: %v", label, err)
			return
		}

		c.conns = append(c.conns, cn)
	}

	conn := s.Users[0].Conn
	r.Eval(1)

	for step := 0; step < steps && !c.fail; step++ {
		cn := c.conns[rng.Intn(len(c.conns))]

		var (
			cmd   string
			want  string
			apply func()
		)

		k := rng.Intn(100)

		switch {
		case k < 35:
			n := c.randName()
			cmd = "CREATE " + imapc.Quote(n)
			want, apply = c.m.create(n)
		case k < 50:
			n := c.someName()
			cmd = "DELETE " + imapc.Quote(n)
			want, apply = c.m.del(n)
		case k < 68:
			from, to := c.someName(), c.randName()
			if rng.Intn(5) == 0 {
				to = from + delim + "sub"
			}

			cmd = fmt.Sprintf("RENAME %s %s", imapc.Quote(from), imapc.Quote(to))
			want, apply = c.m.rename(from, to)
		case k < 78:
			n := c.someName()
			cmd = "SUBSCRIBE " + imapc.Quote(n)
			want, apply = c.m.subscribe(n)
		case k < 88:
			n := c.someName()
			cmd = "UNSUBSCRIBE " + imapc.Quote(n)
			want, apply = c.m.unsubscribe(n)
		default:
			// connector
			names := conn.MailboxNames()
			for id, path := range names {
				for i := range path {
					path[i] = toWireName(path[i])
				}

				names[id] = path
			}

			var ids []imap.MailboxID
			for id := range names {
				ids = append(ids, id)
			}

			sort.Slice(ids, func(i, j int) bool { return ids[i] < ids[j] })

			var up imap.Update

			what := ""

			switch rng.Intn(3) {
			case 0:
				n := c.m.canon(strings.Trim(c.randName(), delim))
				if !c.m.validName(n) || c.m.isRecovery(n) || strings.HasPrefix(strings.ToLower(n), strings.ToLower(verifhooks.RecoveryMailboxName)) {
					continue
				}

				if _, ok := c.m.boxes[n]; ok {
					continue
				}

				up = imap.NewMailboxCreated(conn.RemoteMailbox(conn.NewMailboxID(), fromWirePath(strings.Split(n, delim))))
				what = "MailboxCreated " + n
				c.m.boxes[n] = true
				delete(c.m.delSubs, n)
			case 1:
				id := ids[rng.Intn(len(ids))]
				n := strings.Join(names[id], delim)

				if n == "INBOX" {
					continue
				}

				conn.RemoteDeleteMailbox(id)
				up = imap.NewMailboxDeleted(id)
				what = "MailboxDeleted " + n
				delete(c.m.boxes, n)
				delete(c.m.delSubs, n)
			default:
				id := ids[rng.Intn(len(ids))]
				old := strings.Join(names[id], delim)
				n := c.m.canon(strings.Trim(c.randName(), delim))

				if old == "INBOX" || !c.m.validName(n) || strings.HasPrefix(strings.ToLower(n), strings.ToLower(verifhooks.RecoveryMailboxName)) {
					continue
				}

				if _, ok := c.m.boxes[n]; ok {
					continue
				}

				conn.RemoteRenameMailbox(id, fromWirePath(strings.Split(n, delim)))
				up = imap.NewMailboxUpdated(id, fromWirePath(strings.Split(n, delim)))
				what = fmt.Sprintf("MailboxUpdated %s -> %s", old, n)
				c.m.boxes[n] = c.m.boxes[old]
				delete(c.m.boxes, old)
				delete(c.m.delSubs, n)
			}

			ack := conn.Apply(up, srv.UpdateTimeout)
			c.logf("connector %s -> acked=%v err=%v", what, ack.Acked, ack.Err)

			if !ack.Acked || ack.Err != nil {
				if !ack.Acked {
					r.Inconclusive("%s: connector update not acknowledged", label)
					c.fail = true
				} else {
					c.violate("C14 connector-update-failed", fmt.Sprintf("connector %s was acknowledged with %v", what, ack.Err))
				}

				return
			}

			r.Distinct("connector " + strings.Fields(what)[0])

			if !mustQuiesce(r, s, 0, label) {
				return
			}
		}

		if cmd != "" {
			remoteBefore := conn.SnapshotMailboxes()
			res := cn.Cmd(cmd)
			c.logf("%s -> %s %s", cmd, res.Status, shorten(res.Text, 60))

			if !res.OK() {
				// gluon tells the remote before its own transaction commits; a refused command must
				// not leave the harness remote with names the server does not have
				conn.RestoreMailboxes(remoteBefore)
			}

			if res.Err != nil || res.Bye {
				c.violate("C14 connection-lost", fmt.Sprintf("%s ended the connection: %v", cmd, res.Err))
				return
			}

			refused := res.Status == "NO" || res.Status == "BAD"
			verb := strings.Fields(cmd)[0]
			r.Distinct(fmt.Sprintf("%s want=%s got=%s", verb, want, res.Status))

			switch want {
			case "OK":
				if !res.OK() {
					c.violate("C14 refused "+verb, fmt.Sprintf("%s was answered %s %s; the model accepts it (mailboxes: %v)", cmd, res.Status, res.Text, c.m.boxes))
					return
				}

				apply()
			case "NO":
				if !refused {
					c.violate("C14 accepted "+verb, fmt.Sprintf("%s was answered %s; the model refuses it (mailboxes: %v)", cmd, res.Status, c.m.boxes))
					return
				}
			default:
				if res.OK() {
					apply()
				}
			}

			// the remote must have been told: keep the harness connector's names in step is gluon's job
		}

		// observe
		obs := c.conns[rng.Intn(len(c.conns))]

		if !c.checkList(obs, "", "*", false) || !c.checkList(obs, "", "*", true) {
			return
		}

		for i := 0; i < 2; i++ {
			ref, pat := c.patterns()
			// the empty pattern (root/delimiter request) is defined for LIST only
			if !c.checkList(obs, ref, pat, pat != "" && rng.Intn(2) == 0) {
				return
			}
		}
	}

	if !c.fail && r.WantSample() {
		l := c.log
		if len(l) > 40 {
			l = l[:40]
		}

		r.Sample(map[string]any{"case": label, "delimiter": delim, "first_events": l})
	}
}

package checks

import (
	"bytes"
	"database/sql"
	"encoding/json"
	"fmt"
	"os"
	"os/exec"
	"path/filepath"
	"sort"
	"strings"
	"sync"
	"time"

	"github.com/ProtonMail/gluon/verifhooks"
	_ "github.com/mattn/go-sqlite3"

	"verifharness/ev"
	"verifharness/imapc"
	"verifharness/srv"
)

func init() { register("C07", "exploration", runC07) }

func runC07(r *ev.Run) {
	r.SetRule("a base state (4 mailboxes, 21 messages with flags, a subscription change, one message the remote rejected waiting in the recovery mailbox) is built once and its directories are copied for every trial. For each of ~20 operations (APPEND, COPY, MOVE, STORE, EXPUNGE, UID EXPUNGE, CLOSE, CREATE with parents, DELETE, RENAME, RENAME INBOX, SUBSCRIBE/UNSUBSCRIBE, MOVE / COPY out of the recovery mailbox, connector delivery and deletion) a reference run without faults records how often every failpoint (SQL query/exec inside the transaction, before/after COMMIT, after the state's and the user's commit, in the middle of the store's Set) and every store call (Set/Get/Delete) is reached and what the state is afterwards. Trials then enumerate (operation, point, k-th hit, crash | injected error): the server runs in a child process that SIGKILLs itself at the point or returns an error from it; survivors are either SIGKILLed or closed; a subset is also killed during the next start-up. After the final restart the complete observation (LIST, LSUB, UIDVALIDITY, UIDNEXT, UIDs, flags, bytes of every message) must equal the state before or the state after the operation - for every mailbox - and must be the state after whenever the operation had been answered OK; every message must be fetchable with the bytes that were handed in; the number of files in the store must equal the number of message rows in the index and no row may still be marked for deletion. A second part runs a fixed script of 10 operations back to back and SIGKILLs the process after a PRNG-chosen delay: with j operations acknowledged, every mailbox must afterwards be in the reference state after j or j+1 operations. distinct = distinct (operation, point, mode, outcome) tuples and numbers of operations acknowledged before a random kill")
	r.Assume("process death is SIGKILL of the server process: what the OS has accepted survives (power loss and fsync ordering are out of reach of this technique); the harness connector lives in the server process and starts empty after a restart")

	dir := caseDir(r, "c07")

	base, lits, err := c07BuildBase(filepath.Join(dir, "base"))
	if err != nil {
		r.Inconclusive("cannot build the base state: %v", err)
		return
	}

	s0, err := c07ObserveDir(filepath.Join(dir, "obs0"), base, lits, "")
	if err != nil {
		r.Inconclusive("cannot observe the base state: %v", err)
		return
	}

	ops := c07Ops()

	type trial struct {
		op        *c07Op
		point     string // failpoint name or "store.<op>"
		k         int
		mode      string // crash | err
		end       string // kill | close
		start     string // "" or start-up failpoint
		atStartup bool   // the point/k/mode apply to the start-up after the (undisturbed, then killed) operation
	}

	var (
		trials []trial
		refs   = map[string]*c07Obs{}

		pointsSeen = map[string]map[string]int{}
		mu         sync.Mutex
	)

	rng := r.Rand("c07")
	perPoint := r.Pick(6, 1000)

	// reference runs
	ev.Parallel(len(ops), 8, func(i int) {
		op := ops[i]
		tdir := filepath.Join(dir, "ref-"+op.name)

		var (
			after  *c07Obs
			hits   map[string]int
			status string
			err    error
		)

		if op.startup {
			after, hits, status, err = c07ReferenceStartup(tdir, base, lits, op)
		} else {
			after, hits, status, err = c07Reference(tdir, base, lits, op)
		}

		_ = os.RemoveAll(tdir)

		if err != nil {
			r.Inconclusive("reference run of %s: %v", op.name, err)
			return
		}

		if status != "OK" {
			r.Inconclusive("reference run of %s was answered %s", op.name, status)
			return
		}

		mu.Lock()
		defer mu.Unlock()

		refs[op.name] = after
		pointsSeen[op.name] = hits

		var names []string
		for n := range hits {
			names = append(names, n)
		}

		sort.Strings(names)

		for _, n := range names {
			c := hits[n]
			if c == 0 {
				continue
			}

			ks := make([]int, 0, c)
			for k := 1; k <= c; k++ {
				ks = append(ks, k)
			}

			if len(ks) > perPoint {
				// first, last and PRNG-chosen ones in between
				pick := map[int]bool{1: true, c: true}
				for len(pick) < perPoint {
					pick[1+rng.Intn(c)] = true
				}

				ks = ks[:0]
				for k := range pick {
					ks = append(ks, k)
				}

				sort.Ints(ks)
			}

			for _, k := range ks {
				modes := []string{"crash"}
				if n == "db.tx.query" || n == "db.tx.exec" || n == "db.tx.beforeCommit" || strings.HasPrefix(n, "store.") {
					modes = append(modes, "err")
				}

				for _, m := range modes {
					ends := []string{[]string{"kill", "close"}[rng.Intn(2)]}
					if r.Thorough() && !op.startup {
						ends = []string{"kill", "close"}
					}

					for _, e := range ends {
						t := trial{op: op, point: n, k: k, mode: m, end: e, atStartup: op.startup}

						if op.startup {
							t.end = "kill"
						} else if rng.Intn(r.Pick(6, 2)) == 0 {
							sp := []string{"db.tx.exec", "db.tx.query", "db.tx.beforeCommit", "db.tx.afterCommit", "store.delete"}[rng.Intn(5)]
							t.start = fmt.Sprintf("crash %s %d", sp, 1+rng.Intn(6))
						}

						trials = append(trials, t)
					}
				}
			}
		}
	})

	r.Set("points_reached_per_operation", pointsSeen)
	r.Set("operations", len(ops))
	r.Set("trials", len(trials))

	ev.Parallel(len(trials), 14, func(i int) {
		t := trials[i]

		after := refs[t.op.name]
		if after == nil {
			return
		}

		label := fmt.Sprintf("%s@%s#%d-%s-%s", t.op.name, t.point, t.k, t.mode, t.end)
		if t.start != "" {
			label += "+startup-crash"
		}

		if r.OnlyCase != "" && r.OnlyCase != label {
			return
		}

		tdir := filepath.Join(dir, fmt.Sprintf("t%d", i))

		defer os.RemoveAll(tdir)

		r.Eval(1)

		if t.atStartup {
			label = fmt.Sprintf("%s then start-up@%s#%d-%s", t.op.name, t.point, t.k, t.mode)
		}

		var (
			res *c07Result
			err error
		)

		if t.atStartup {
			res, err = c07Trial(tdir, base, lits, t.op, "", 0, "", "kill", fmt.Sprintf("%s %s %d", t.mode, t.point, t.k))
		} else {
			res, err = c07Trial(tdir, base, lits, t.op, t.point, t.k, t.mode, t.end, t.start)
		}

		if err != nil {
			r.Inconclusive("%s: %v", label, err)
			return
		}

		r.Distinct(fmt.Sprintf("%s %s %s -> %s", t.op.name, t.point, t.mode, res.outcome))
		r.Count("trials_where_the_process_died_at_the_point", b2i(res.died))

		witness := map[string]any{"trial": label, "events": res.log, "before": s0.summary(), "after_reference": after.summary(), "observed": res.obs.summary()}

		if res.obsErr != "" {
			r.Violate("C07 not-usable-after-restart "+t.op.name+" "+t.point, fmt.Sprintf("%s: after the restart the state cannot be read: %s", label, res.obsErr), label, witness)
			return
		}

		// which of the two states?
		isBefore := c07Same(res.obs, s0, s0)
		isAfter := c07Same(res.obs, after, s0)

		if res.answeredOK && isAfter != "" {
			r.Violate("C07 acknowledged-change-lost "+t.op.name+" "+t.point+" "+t.mode, fmt.Sprintf("%s: the operation was answered OK, but after the restart: %s", label, isAfter), label, witness)
			return
		}

		if isBefore != "" && isAfter != "" {
			// per mailbox: before or after
			if d := c07PerMailbox(res.obs, s0, after); d != "" {
				r.Violate("C07 neither-before-nor-after "+t.op.name+" "+t.point+" "+t.mode, fmt.Sprintf("%s: after the restart %s", label, d), label, witness)
				return
			}

			r.Count("mixed_before_after_states", 1)
		}

		if res.obs.badBytes != "" {
			r.Violate("C07 bytes-differ-after-restart "+t.op.name+" "+t.point, fmt.Sprintf("%s: %s", label, res.obs.badBytes), label, witness)
			return
		}

		// (a message that is in no mailbox any more keeps its row and its file until the remote deletes it:
		// the store is compared with the rows of the index, not with what the mailboxes list)
		if res.obs.files != res.obs.rows {
			r.Violate("C07 store-and-index-disagree "+t.op.name+" "+t.point+" "+t.mode, fmt.Sprintf("%s: after the restart the store holds %d files, the index has %d message rows (%d distinct messages are listed)", label, res.obs.files, res.obs.rows, res.obs.distinct), label, witness)
			return
		}

		if r.WantSample() {
			r.Sample(map[string]any{"trial": label, "events": res.log, "observed": res.obs.summary()})
		}

		if res.obs.marked != 0 {
			r.Violate("C07 marked-messages-left "+t.op.name+" "+t.point+" "+t.mode, fmt.Sprintf("%s: after the restart %d messages are still marked for deletion", label, res.obs.marked), label, witness)
			return
		}
	})

	c07RandomKills(r, dir, base, lits)
}

// c07RandomKills: a fixed script of operations runs back to back while the server process is SIGKILLed after a
// PRNG-chosen delay. With j operations acknowledged before the death, every mailbox must afterwards be in the
// state the reference run showed after j or after j+1 operations (the delay only diversifies the schedule; the
// verdict is about states, not about time).
func c07RandomKills(r *ev.Run, dir, base string, lits map[string][]byte) {
	type step struct {
		sel string
		cmd []any
	}

	script := []step{
		{"", []any{"APPEND Work (\\Flagged) ", imapc.Lit(simpleMessage("c07-new", nil))}},
		{"INBOX", []any{"COPY 1:3 Other"}},
		{"Bulk", []any{`STORE 1:12 +FLAGS (\Seen)`}},
		{"Bulk", []any{"MOVE 1:4 Work"}},
		{"INBOX", []any{"EXPUNGE"}},
		{"Work", []any{`STORE 1:* -FLAGS (\Deleted)`}},
		{"", []any{"SUBSCRIBE Other"}},
		{"Bulk", []any{"COPY 1:8 INBOX"}},
		{"Other", []any{`STORE 1:* +FLAGS (\Deleted)`}},
		{"Other", []any{"EXPUNGE"}},
	}

	run := func(cn *imapc.Conn, st step) bool {
		if st.sel != "" {
			if res := cn.Cmdf("SELECT %s", st.sel); !res.OK() {
				return false
			}
		}

		return cn.Cmd(st.cmd...).OK()
	}

	// reference: the state after every prefix, observed through a restart of a copy
	states := make([]*c07Obs, len(script)+1)

	refDir := filepath.Join(dir, "kill-ref")
	if err := copyDir(base, filepath.Join(refDir, "server")); err != nil {
		r.Inconclusive("random kills: %v", err)
		return
	}

	var total time.Duration

	for j := 0; j <= len(script); j++ {
		child, err := c07Start(refDir, "")
		if err != nil {
			r.Inconclusive("random kills: reference: %v", err)
			return
		}

		obs, err := c07Observe(child, filepath.Join(refDir, "server"), lits)
		if err != nil {
			child.Kill()
			r.Inconclusive("random kills: reference observation: %v", err)

			return
		}

		states[j] = obs

		if j < len(script) {
			cn, err := c07Prepare(child, &c07Op{})
			if err != nil {
				child.Kill()
				r.Inconclusive("random kills: %v", err)

				return
			}

			t0 := time.Now()

			if !run(cn, script[j]) {
				child.Kill()
				r.Inconclusive("random kills: reference step %d refused", j)

				return
			}

			total += time.Since(t0)
			cn.Close()
		}

		c07CloseClean(child)
	}

	_ = os.RemoveAll(refDir)

	trials := r.Pick(60, 800)
	rng := r.Rand("c07-kills")
	delays := make([]time.Duration, trials)

	for i := range delays {
		delays[i] = time.Duration(rng.Int63n(int64(total) + int64(5*time.Millisecond)))
	}

	ev.Parallel(trials, 12, func(i int) {
		label := fmt.Sprintf("random-kill-%d", i)
		if r.OnlyCase != "" && r.OnlyCase != label {
			return
		}

		tdir := filepath.Join(dir, fmt.Sprintf("k%d", i))

		defer os.RemoveAll(tdir)

		if err := copyDir(base, filepath.Join(tdir, "server")); err != nil {
			r.Inconclusive("%s: %v", label, err)
			return
		}

		child, err := c07Start(tdir, "")
		if err != nil {
			r.Inconclusive("%s: %v", label, err)
			return
		}

		cn, err := c07Prepare(child, &c07Op{})
		if err != nil {
			child.Kill()
			r.Inconclusive("%s: %v", label, err)

			return
		}

		timer := time.AfterFunc(delays[i], func() { _ = child.cmd.Process.Kill() })
		acked := 0

		for _, st := range script {
			if !run(cn, st) {
				break
			}

			acked++
		}

		timer.Stop()
		cn.Close()
		child.Kill()

		r.Eval(1)
		r.Distinct(fmt.Sprintf("random kill after %d acknowledged operations", acked))

		c3, err := c07Start(tdir, "")
		if err != nil {
			if strings.Contains(err.Error(), "exited during start") {
				r.Violate("C07 not-usable-after-restart random-kill", fmt.Sprintf("%s: killed after %d acknowledged operations, the server does not start any more: %v", label, acked, err), label, nil)
			} else {
				r.Inconclusive("%s: %v", label, err)
			}

			return
		}

		obs, err := c07Observe(c3, filepath.Join(tdir, "server"), lits)

		c07CloseClean(c3)

		if err != nil {
			r.Violate("C07 not-usable-after-restart random-kill", fmt.Sprintf("%s: killed after %d acknowledged operations, the state cannot be read after the restart: %v", label, acked, err), label, nil)
			return
		}

		lo := states[acked]
		hi := lo

		if acked < len(script) {
			hi = states[acked+1]
		}

		witness := map[string]any{"acknowledged": acked, "delay": delays[i].String(), "state_after_acknowledged": lo.summary(), "state_after_next": hi.summary(), "observed": obs.summary()}

		if d := c07PerMailbox(obs, lo, hi); d != "" {
			r.Violate("C07 neither-before-nor-after random-kill", fmt.Sprintf("%s: the process was killed with %d operations acknowledged; after the restart %s", label, acked, d), label, witness)
			return
		}

		if obs.badBytes != "" {
			r.Violate("C07 bytes-differ-after-restart random-kill", fmt.Sprintf("%s: %s", label, obs.badBytes), label, witness)
			return
		}

		if rows, marked, err := c07DBCounts(filepath.Join(tdir, "server")); err == nil {
			if rows != obs.files {
				r.Violate("C07 store-and-index-disagree random-kill", fmt.Sprintf("%s: after the restart the store holds %d files, the index has %d message rows", label, obs.files, rows), label, witness)
				return
			}

			if marked != 0 {
				r.Violate("C07 marked-messages-left random-kill", fmt.Sprintf("%s: %d messages are still marked for deletion after the restart", label, marked), label, witness)
			}
		}
	})
}

func b2i(b bool) int {
	if b {
		return 1
	}

	return 0
}

// ---- operations ------------------------------------------------------------------------------------

type c07Op struct {
	name    string
	sel     string // mailbox to select first ("" = none)
	run     func(cn *imapc.Conn, child *srvChild) string
	startup bool // the interesting faults are those of the next start-up (the operation leaves work for it)
}

func c07Ops() []*c07Op {
	cmd := func(name, sel string, parts ...any) *c07Op {
		return &c07Op{name: name, sel: sel, run: func(cn *imapc.Conn, _ *srvChild) string {
			res := cn.Cmd(parts...)
			if res.Err != nil {
				return "LOST"
			}

			return res.Status
		}}
	}

	ctl := func(name, line string) *c07Op {
		return &c07Op{name: name, run: func(_ *imapc.Conn, child *srvChild) string {
			out, err := child.Ctl(line, 90*time.Second)
			if err != nil {
				return "LOST"
			}

			if strings.Contains(out, "acked=true err=<nil>") {
				return "OK"
			}

			return "NO " + out
		}}
	}

	return []*c07Op{
		cmd("APPEND", "", "APPEND Work (\\Seen) ", imapc.Lit(simpleMessage("c07-new", nil))),
		cmd("APPEND-selected", "Work", "APPEND Work ", imapc.Lit(simpleMessage("c07-new", nil))),
		cmd("COPY", "INBOX", "COPY 1:2 Other"),
		cmd("COPY-onto-existing", "INBOX", "COPY 1:3 Work"),
		cmd("MOVE", "INBOX", "MOVE 2:3 Work"),
		cmd("UID-MOVE", "Work", "UID MOVE 1:2 Other"),
		cmd("STORE-add", "INBOX", `STORE 1:* +FLAGS (\Seen kw)`),
		cmd("STORE-replace", "Work", `STORE 1:2 FLAGS (\Deleted \Flagged)`),
		cmd("STORE-remove", "INBOX", `STORE 1:* -FLAGS (\Deleted \Flagged)`),
		cmd("EXPUNGE", "INBOX", "EXPUNGE"),
		cmd("UID-EXPUNGE", "Work", "UID EXPUNGE 1:*"),
		cmd("CLOSE", "Work", "CLOSE"),
		cmd("CREATE-deep", "", "CREATE a/b/c"),
		cmd("DELETE", "", "DELETE Other"),
		cmd("RENAME", "", "RENAME Work Renamed/Deep"),
		cmd("RENAME-INBOX", "", "RENAME INBOX Archive"),
		cmd("SUBSCRIBE", "", "SUBSCRIBE Other"),
		cmd("UNSUBSCRIBE", "", "UNSUBSCRIBE Work"),
		cmd("COPY-many", "Bulk", "COPY 1:12 Other"),
		cmd("MOVE-many", "Bulk", "MOVE 2:11 Work"),
		cmd("STORE-many", "Bulk", `STORE 1:12 +FLAGS (\Flagged kwmany)`),
		cmd("EXPUNGE-many", "Bulk", "EXPUNGE"),
		cmd("DELETE-nonempty", "", "DELETE Bulk"),
		// taking a rescued message out of the recovery mailbox: imported at the remote, filed, the rescued copy marked
		// for deletion (removed at the next start)
		{name: "MOVE-out-of-recovery", sel: imapc.Quote(verifhooks.RecoveryMailboxName), startup: true, run: cmd("x", "", "MOVE 1 Work").run},
		cmd("COPY-out-of-recovery", imapc.Quote(verifhooks.RecoveryMailboxName), "COPY 1 Other"),
		ctl("connector-deliver", "deliver Work c07-remote"),
		// a new message and one the server already has (c07-o1 of Other) arrive in one update for INBOX
		ctl("connector-deliver-known", "deliver2 INBOX c07-remote u1rBmsg8 c07-o1"),
		// the remote deletes a message that a session still has in its view: it stays marked until the next start
		{name: "connector-delete", sel: "INBOX", startup: true, run: ctl("x", "remotedelete-id u1rBmsg1").run},
		{name: "connector-delete-2", sel: "Work", startup: true, run: func(cn *imapc.Conn, child *srvChild) string {
			a := ctl("x", "remotedelete-id u1rBmsg5").run(cn, child)
			b := ctl("x", "remotedelete-id u1rBmsg6").run(cn, child)

			if a == "OK" && b == "OK" {
				return "OK"
			}

			return a + " / " + b
		}},
	}
}

// ---- observation ---------------------------------------------------------------------------------------

type c07Obs struct {
	list     []string
	lsub     []string
	boxes    map[string]*BoxView
	files    int
	distinct int
	rows     int // message rows in the index
	marked   int // rows marked for deletion
	badBytes string
}

func (o *c07Obs) summary() []string {
	if o == nil {
		return nil
	}

	out := []string{fmt.Sprintf("LIST %v", o.list), fmt.Sprintf("LSUB %v", o.lsub), fmt.Sprintf("store files %d, distinct messages %d", o.files, o.distinct)}

	var names []string
	for n := range o.boxes {
		names = append(names, n)
	}

	sort.Strings(names)

	for _, n := range names {
		v := o.boxes[n]
		out = append(out, fmt.Sprintf("%s uidvalidity=%d uidnext=%d", n, v.UIDValidity, v.UIDNext))

		for _, m := range v.Msgs {
			out = append(out, fmt.Sprintf("  %s uid=%d %s (%s) %d bytes", n, m.UID, m.Marker, m.FlagKey(), len(m.Body)))
		}
	}

	return out
}

func withoutString(l []string, x string) []string {
	var out []string

	for _, s := range l {
		if s != x {
			out = append(out, s)
		}
	}

	return out
}

func countFiles(dir string) int {
	n := 0

	_ = filepath.Walk(dir, func(_ string, info os.FileInfo, err error) error {
		if err == nil && info.Mode().IsRegular() {
			n++
		}

		return nil
	})

	return n
}

func c07Observe(child *srvChild, serverDir string, lits map[string][]byte) (*c07Obs, error) {
	cn, err := imapc.Dial(child.Addr, "observe")
	if err != nil {
		return nil, err
	}

	defer cn.Close()

	cn.Timeout = 90 * time.Second

	if res := cn.Cmdf("LOGIN %s %s", imapc.Quote(srv.DefaultUser.Usernames[0]), imapc.Quote(srv.DefaultUser.Password)); !res.OK() {
		return nil, fmt.Errorf("login: %s", res)
	}

	o := &c07Obs{boxes: map[string]*BoxView{}}

	if o.list, err = listNames(cn, `LIST "" "*"`); err != nil {
		return nil, err
	}

	sort.Strings(o.list)

	if o.lsub, err = listNames(cn, `LSUB "" "*"`); err != nil {
		return nil, err
	}

	sort.Strings(o.lsub)

	ids := map[string]bool{}

	// The recovery mailbox (where a failed APPEND keeps the message) is neither "before" nor "after": it is left
	// out of the comparison, its messages are still checked for their bytes.
	all := o.list
	o.list = withoutString(o.list, verifhooks.RecoveryMailboxName)
	o.lsub = withoutString(o.lsub, verifhooks.RecoveryMailboxName)

	for _, n := range all {
		v, err := viewOn(cn, n, true, true)
		if err != nil {
			if strings.Contains(err.Error(), "EXAMINE") {
				continue // \Noselect
			}

			return nil, err
		}

		if n != verifhooks.RecoveryMailboxName {
			o.boxes[n] = v
		}

		for _, m := range v.Msgs {
			ids[gluonIDOfBody(m.Body)] = true

			want, ok := lits[m.Marker]
			if !ok {
				o.badBytes = fmt.Sprintf("mailbox %q lists a message with the unknown marker %q", n, m.Marker)
				continue
			}

			got, _ := stripGluonID(m.Body)
			w, _ := stripGluonID(want)

			if !bytes.Equal(got, w) {
				o.badBytes = fmt.Sprintf("message %s in %q is served with %d bytes, %d were handed in", m.Marker, n, len(got), len(w))
			}
		}
	}

	o.distinct = len(ids)
	o.files = countFiles(filepath.Join(serverDir, "data"))

	return o, nil
}

// c07Same compares an observation with a reference; base tells which UIDVALIDITY values are comparable.
func c07Same(got, want, base *c07Obs) string {
	if fmt.Sprint(got.list) != fmt.Sprint(want.list) {
		return fmt.Sprintf("LIST shows %v (expected %v)", got.list, want.list)
	}

	if fmt.Sprint(got.lsub) != fmt.Sprint(want.lsub) {
		return fmt.Sprintf("LSUB shows %v (expected %v)", got.lsub, want.lsub)
	}

	for n := range want.boxes {
		if d := c07SameBox(got.boxes[n], want.boxes[n], base.boxes[n]); d != "" {
			return fmt.Sprintf("mailbox %q: %s", n, d)
		}
	}

	return ""
}

func c07SameBox(g, w, base *BoxView) string {
	if g == nil || w == nil {
		if g == nil && w == nil {
			return ""
		}

		return "exists on one side only"
	}

	// UIDVALIDITY of mailboxes that were created during the operation depends on the clock
	if base != nil && w.UIDValidity == base.UIDValidity && g.UIDValidity != w.UIDValidity {
		return fmt.Sprintf("UIDVALIDITY %d instead of %d", g.UIDValidity, w.UIDValidity)
	}

	if g.UIDNext != w.UIDNext {
		return fmt.Sprintf("UIDNEXT %d instead of %d", g.UIDNext, w.UIDNext)
	}

	if len(g.Msgs) != len(w.Msgs) {
		return fmt.Sprintf("%d messages %v instead of %d %v", len(g.Msgs), g.Markers(), len(w.Msgs), w.Markers())
	}

	for i := range g.Msgs {
		a, b := g.Msgs[i], w.Msgs[i]
		if a.UID != b.UID || a.Marker != b.Marker || a.FlagKey() != b.FlagKey() {
			return fmt.Sprintf("message %d is UID %d %s (%s) instead of UID %d %s (%s)", i+1, a.UID, a.Marker, a.FlagKey(), b.UID, b.Marker, b.FlagKey())
		}
	}

	return ""
}

// c07PerMailbox: every mailbox in its state before or after; the list and the subscriptions in one of the two.
func c07PerMailbox(got, before, after *c07Obs) string {
	if l := fmt.Sprint(got.list); l != fmt.Sprint(before.list) && l != fmt.Sprint(after.list) {
		return fmt.Sprintf("LIST shows %v, which is neither the list before %v nor after %v the operation", got.list, before.list, after.list)
	}

	if l := fmt.Sprint(got.lsub); l != fmt.Sprint(before.lsub) && l != fmt.Sprint(after.lsub) {
		return fmt.Sprintf("LSUB shows %v, which is neither %v nor %v", got.lsub, before.lsub, after.lsub)
	}

	for n, g := range got.boxes {
		db, da := "absent before", "absent after"

		if before.boxes[n] != nil {
			db = c07SameBox(g, before.boxes[n], before.boxes[n])
		}

		if after.boxes[n] != nil {
			da = c07SameBox(g, after.boxes[n], before.boxes[n])
		}

		if db != "" && da != "" {
			return fmt.Sprintf("mailbox %q is in neither state: vs before: %s; vs after: %s", n, db, da)
		}
	}

	return ""
}

// ---- running things --------------------------------------------------------------------------------

func copyDir(src, dst string) error {
	_ = os.RemoveAll(dst)

	if err := os.MkdirAll(filepath.Dir(dst), 0o755); err != nil {
		return err
	}

	out, err := exec.Command("cp", "-a", src, dst).CombinedOutput()
	if err != nil {
		return fmt.Errorf("cp: %v: %s", err, out)
	}

	return nil
}

// c07Start starts a server child on a trial directory whose server/ subdirectory holds the data.
func c07Start(tdir string, startFP string) (*srvChild, error) {
	return c07StartNonce(tdir, startFP, "")
}

func c07StartNonce(tdir, startFP, nonce string) (*srvChild, error) {
	return startSrvChild(tdir, false, srvChildOpts{Users: []srv.UserSpec{srv.DefaultUser}, Recorder: false, StoreFault: true, StartFP: startFP, Nonce: nonce})
}

func c07CloseClean(child *srvChild) {
	_, _ = child.Ctl("close", 120*time.Second)
	_, _ = child.Ctl("exit", 10*time.Second)

	select {
	case <-child.done:
	case <-time.After(20 * time.Second):
	}

	child.Kill()
}

func c07BuildBase(dir string) (string, map[string][]byte, error) {
	child, err := c07StartNonce(dir, "", "B")
	if err != nil {
		return "", nil, err
	}

	lits := map[string][]byte{"c07-new": simpleMessage("c07-new", nil), "c07-remote": simpleMessage("c07-remote", nil)}

	cn, err := imapc.Dial(child.Addr, "setup")
	if err != nil {
		child.Kill()
		return "", nil, err
	}

	cn.Cmdf("LOGIN %s %s", imapc.Quote(srv.DefaultUser.Usernames[0]), imapc.Quote(srv.DefaultUser.Password))
	cn.Cmd("CREATE Work")
	cn.Cmd("CREATE Other")
	cn.Cmd("UNSUBSCRIBE Other")

	put := func(box, mk, flags string) {
		lit := simpleMessage(mk, nil)
		lits[mk] = lit
		cn.Cmd(fmt.Sprintf("APPEND %s (%s) ", box, flags), imapc.Lit(lit))
	}

	put("INBOX", "c07-i1", `\Seen`)
	put("INBOX", "c07-i2", `\Deleted`)
	put("INBOX", "c07-i3", `\Flagged kw`)
	put("INBOX", "c07-i4", ``)
	put("Work", "c07-w1", `\Seen \Deleted`)
	put("Work", "c07-w2", ``)
	put("Work", "c07-w3", `\Answered`)
	put("Other", "c07-o1", ``)
	put("Other", "c07-o2", `\Draft`)

	// a message the remote rejected: it waits in the recovery mailbox
	_, _ = child.Ctl("rejectnext 1", 30*time.Second)

	lits["c07-rec"] = simpleMessage("c07-rec", nil)
	cn.Cmd("APPEND Work ", imapc.Lit(lits["c07-rec"]))

	cn.Cmd("CREATE Bulk")

	for i := 1; i <= 12; i++ {
		put("Bulk", fmt.Sprintf("c07-b%d", i), []string{``, `\Deleted`, `\Seen`}[i%3])
	}

	// one message lives in two mailboxes
	cn.Cmd("SELECT INBOX")
	cn.Cmd("COPY 1 Work")
	cn.Close()

	c07CloseClean(child)

	return filepath.Join(dir, "server"), lits, nil
}

func c07ObserveDir(tdir, base string, lits map[string][]byte, startFP string) (*c07Obs, error) {
	if err := copyDir(base, filepath.Join(tdir, "server")); err != nil {
		return nil, err
	}

	defer os.RemoveAll(tdir)

	child, err := c07Start(tdir, startFP)
	if err != nil {
		return nil, err
	}

	defer child.Kill()

	return c07Observe(child, filepath.Join(tdir, "server"), lits)
}

func c07Prepare(child *srvChild, op *c07Op) (*imapc.Conn, error) {
	cn, err := imapc.Dial(child.Addr, "actor")
	if err != nil {
		return nil, err
	}

	cn.Timeout = 90 * time.Second

	if res := cn.Cmdf("LOGIN %s %s", imapc.Quote(srv.DefaultUser.Usernames[0]), imapc.Quote(srv.DefaultUser.Password)); !res.OK() {
		cn.Close()
		return nil, fmt.Errorf("login: %s", res)
	}

	if op.sel != "" {
		if res := cn.Cmdf("SELECT %s", op.sel); !res.OK() {
			cn.Close()
			return nil, fmt.Errorf("select: %s", res)
		}
	}

	return cn, nil
}

// c07Reference runs the operation without faults; returns the state after a clean restart and the hit counts.
func c07Reference(tdir, base string, lits map[string][]byte, op *c07Op) (*c07Obs, map[string]int, string, error) {
	if err := copyDir(base, filepath.Join(tdir, "server")); err != nil {
		return nil, nil, "", err
	}

	child, err := c07Start(tdir, "")
	if err != nil {
		return nil, nil, "", err
	}

	cn, err := c07Prepare(child, op)
	if err != nil {
		child.Kill()
		return nil, nil, "", err
	}

	// counters from here on
	before := c07Hits(child)
	status := op.run(cn, child)
	after := c07Hits(child)

	if os.Getenv("VERIF_DEBUG") != "" {
		fmt.Fprintf(os.Stderr, "DEBUG %s: before=%v after=%v\n", op.name, before, after)
	}
	cn.Close()

	hits := map[string]int{}
	for n, v := range after {
		if d := v - before[n]; d > 0 {
			hits[n] = d
		}
	}

	c07CloseClean(child)

	child2, err := c07Start(tdir, "")
	if err != nil {
		return nil, nil, "", err
	}

	defer child2.Kill()

	obs, err := c07Observe(child2, filepath.Join(tdir, "server"), lits)

	return obs, hits, status, err
}

// c07ReferenceStartup: the operation runs undisturbed, the process is killed, and the hits of the NEXT start-up
// are counted; the state after is what that start-up leaves.
func c07ReferenceStartup(tdir, base string, lits map[string][]byte, op *c07Op) (*c07Obs, map[string]int, string, error) {
	if err := copyDir(base, filepath.Join(tdir, "server")); err != nil {
		return nil, nil, "", err
	}

	child, err := c07Start(tdir, "")
	if err != nil {
		return nil, nil, "", err
	}

	cn, err := c07Prepare(child, op)
	if err != nil {
		child.Kill()
		return nil, nil, "", err
	}

	status := op.run(cn, child)

	child.Kill()
	cn.Close()

	child2, err := c07Start(tdir, "")
	if err != nil {
		return nil, nil, "", err
	}

	hits := c07Hits(child2)
	obs, err := c07Observe(child2, filepath.Join(tdir, "server"), lits)

	c07CloseClean(child2)

	return obs, hits, status, err
}

func c07Hits(child *srvChild) map[string]int {
	out := map[string]int{}

	if l, err := child.Ctl("hits", 30*time.Second); err == nil {
		var m map[string]int64
		if json.Unmarshal([]byte(l), &m) == nil {
			for k, v := range m {
				out[k] = int(v)
			}
		}
	}

	if os.Getenv("VERIF_DEBUG") != "" {
		l1, e1 := child.Ctl("hits", 30*time.Second)
		l2, e2 := child.Ctl("storecalls", 30*time.Second)
		fmt.Fprintf(os.Stderr, "DEBUGRAW hits=%q %v storecalls=%q %v\n", l1, e1, l2, e2)
	}

	if l, err := child.Ctl("storecalls", 30*time.Second); err == nil {
		var m map[string]int
		if json.Unmarshal([]byte(l), &m) == nil {
			for k, v := range m {
				out["store."+k] = v
			}
		}
	}

	return out
}

type c07Result struct {
	outcome    string
	answeredOK bool
	died       bool
	obs        *c07Obs
	obsErr     string
	log        []string
}

func c07Trial(tdir, base string, lits map[string][]byte, op *c07Op, point string, k int, mode, end, startFP string) (*c07Result, error) {
	res := &c07Result{}
	logf := func(f string, a ...any) { res.log = append(res.log, fmt.Sprintf(f, a...)) }

	if err := copyDir(base, filepath.Join(tdir, "server")); err != nil {
		return nil, err
	}

	child, err := c07Start(tdir, "")
	if err != nil {
		return nil, err
	}

	cn, err := c07Prepare(child, op)
	if err != nil {
		child.Kill()
		return nil, err
	}

	switch {
	case point == "":
		// no fault during the operation itself
	case strings.HasPrefix(point, "store."):
		_, err = child.Ctl(fmt.Sprintf("storefail %s %d %s", strings.TrimPrefix(point, "store."), k, mode), 30*time.Second)
	default:
		_, err = child.Ctl(fmt.Sprintf("fp %s %s %d", mode, point, k), 30*time.Second)
	}

	if err != nil {
		child.Kill()
		return nil, fmt.Errorf("arming: %v", err)
	}

	status := op.run(cn, child)
	cn.Close()
	logf("%s with %s at hit %d of %s -> %s", op.name, mode, k, point, status)

	res.answeredOK = status == "OK"

	// give a dying process a moment to be reaped
	if status == "LOST" {
		select {
		case <-child.done:
		case <-time.After(5 * time.Second):
		}
	}

	res.died = !child.Alive()

	switch {
	case res.died:
		res.outcome = "died"
		logf("the server process died (%s)", child.ExitInfo())

		if mode != "crash" {
			// an injected error must not take the process down
			res.obsErr = "the server process died although only an error was injected: " + firstLine(firstPanicLines(child.StderrAll()))

			child.Kill()

			return res, nil
		}
	case end == "kill":
		res.outcome = status + " then killed"

		child.Kill()
		logf("the server process was killed")
	default:
		res.outcome = status + " then closed"

		c07CloseClean(child)
		logf("the server was closed")
	}

	child.Kill()

	// restart, possibly dying once more during start-up
	if startFP != "" {
		if c2, err := c07Start(tdir, startFP); err == nil {
			// it may have survived (the failpoint was not reached that often)
			logf("restart with %q: alive=%v", startFP, c2.Alive())
			c2.Kill()
		} else {
			logf("restart with %q died during start-up", startFP)
		}
	}

	c3, err := c07Start(tdir, "")
	if err != nil {
		// a process that exits while starting is a verdict; one that is merely slow to report is not
		if strings.Contains(err.Error(), "exited during start") {
			res.obsErr = "the server does not start any more: " + err.Error()
			return res, nil
		}

		return nil, err
	}

	obs, err := c07Observe(c3, filepath.Join(tdir, "server"), lits)

	c07CloseClean(c3)

	if err != nil {
		res.obsErr = err.Error()
		res.obs = &c07Obs{}

		return res, nil
	}

	// the index itself, now that nobody has it open
	obs.rows, obs.marked, err = c07DBCounts(filepath.Join(tdir, "server"))
	if err != nil {
		res.obsErr = "reading the index: " + err.Error()
	}

	res.obs = obs

	return res, nil
}

// c07DBCounts: number of message rows and of rows marked for deletion in the user's SQLite index.
func c07DBCounts(serverDir string) (rows, marked int, err error) {
	dbs, _ := filepath.Glob(filepath.Join(serverDir, "db", "*.db"))
	if len(dbs) != 1 {
		return 0, 0, fmt.Errorf("expected one database, found %v", dbs)
	}

	h, err := sql.Open("sqlite3", "file:"+dbs[0])
	if err != nil {
		return 0, 0, err
	}

	defer h.Close()

	if err := h.QueryRow("SELECT COUNT(*), COALESCE(SUM(CASE WHEN deleted THEN 1 ELSE 0 END), 0) FROM messages_v2").Scan(&rows, &marked); err != nil {
		return 0, 0, err
	}

	return rows, marked, nil
}

package checks

import (
	"fmt"
	"math/rand"
	"sort"
	"strings"
	"time"

	"github.com/ProtonMail/gluon/imap"

	"verifharness/ev"
	"verifharness/imapc"
	"verifharness/srv"
)

func init() { register("C18", "exploration", runC18) }

func runC18(r *ev.Run) {
	r.SetRule("servers with three users (same mailbox names, different content, different passwords). (a) gating: a connection sends random batches of every mailbox/message command before LOGIN, after failed LOGINs, and after LOGIN without a selection (selected-state commands): each must be answered NO/BAD and a full observation of every user (LIST, LSUB, every mailbox's UIDs/flags/markers) must be unchanged; CAPABILITY/NOOP/ID must still work. (b) credentials: a table of wrong user/password combinations (other user's password, case changes, prefixes, empty, literal and quoted forms) never authenticates. (c) isolation: sessions of one user run random mutating commands on names the other users have too; the other users' observations never change and no view ever shows a message marker of another user; connector updates of one user do not show up for another. (d) jail: scripted sequences of failing/succeeding LOGINs; after three consecutive failures the next answer must not arrive earlier than jail time after the third failing LOGIN was sent (a lower bound only: slowness is never a violation). distinct = distinct (stage, command, answer) triples and jail scripts")
	r.Assume("the jail oracle is a lower bound on elapsed wall time measured from before the third failing LOGIN is sent, so machine load cannot produce a false alarm; it cannot show that a login that should not be jailed is answered promptly")

	cases := r.Pick(40, 500)

	ev.Parallel(cases, 10, func(i int) {
		label := fmt.Sprintf("gate-%d", i)
		if r.OnlyCase != "" && r.OnlyCase != label {
			return
		}

		c18Gating(r, label)
	})

	jail := r.Pick(16, 120)

	ev.Parallel(jail, 16, func(i int) {
		label := fmt.Sprintf("jail-%d", i)
		if r.OnlyCase != "" && r.OnlyCase != label {
			return
		}

		c18Jail(r, label, i)
	})
}

var c18Users = []srv.UserSpec{
	{Usernames: []string{"alice@example.com", "alice-alias@example.com"}, Password: "pass-alice", UserID: "u1"},
	{Usernames: []string{"bob@example.com"}, Password: "pass-bob", UserID: "u2"},
	{Usernames: []string{"carol@example.com"}, Password: "pass-alice2", UserID: "u3"},
}

type c18Case struct {
	r     *ev.Run
	label string
	rng   *rand.Rand
	s     *srv.Server
	log   []string
	fail  bool
	n     int
}

func (c *c18Case) logf(f string, a ...any) {
	c.log = append(c.log, fmt.Sprintf(f, a...))
	if len(c.log) > 300 {
		c.log = c.log[len(c.log)-300:]
	}
}

func (c *c18Case) violate(sig, what string) {
	if c.fail {
		return
	}

	c.fail = true
	c.r.Violate(sig, what, c.label, map[string]any{"history": c.log})
}

// observeUser: everything a fresh session of that user can see, as text lines.
func (c *c18Case) observeUser(u int) ([]string, bool) {
	cn, err := c.s.Login("observe", u)
	if err != nil {
		c.violate("C18 cannot-login", fmt.Sprintf("user %d cannot log in with its own credentials: %v", u, err))
		return nil, false
	}

	defer cn.Close()

	var out []string

	names, err := listNames(cn, `LIST "" "*"`)
	if err != nil {
		c.violate("C18 list-failed", err.Error())
		return nil, false
	}

	sort.Strings(names)

	subs, _ := listNames(cn, `LSUB "" "*"`)
	sort.Strings(subs)

	out = append(out, fmt.Sprintf("LIST %v", names), fmt.Sprintf("LSUB %v", subs))

	for _, n := range names {
		v, err := viewOn(cn, n, false, true)
		if err != nil {
			continue // \Noselect
		}

		out = append(out, fmt.Sprintf("%s uidvalidity=%d uidnext=%d", n, v.UIDValidity, v.UIDNext))

		for _, m := range v.Msgs {
			out = append(out, fmt.Sprintf("%s uid=%d %s (%s)", n, m.UID, m.Marker, m.FlagKey()))

			if !strings.HasPrefix(m.Marker, fmt.Sprintf("%s-u%d-", c.label, u)) {
				c.violate("C18 foreign-message", fmt.Sprintf("user %d sees message %s in %q, which belongs to another user", u, m.Marker, n))
				return nil, false
			}
		}
	}

	return out, true
}

func (c *c18Case) observeAll() ([][]string, bool) {
	var all [][]string

	for u := range c.s.Users {
		o, ok := c.observeUser(u)
		if !ok {
			return nil, false
		}

		all = append(all, o)
	}

	return all, true
}

func diffLines(a, b []string) string {
	in := map[string]int{}
	for _, x := range a {
		in[x]++
	}

	for _, x := range b {
		in[x]--
	}

	var d []string

	for k, v := range in {
		if v > 0 {
			d = append(d, "- "+k)
		} else if v < 0 {
			d = append(d, "+ "+k)
		}
	}

	sort.Strings(d)

	if len(d) > 6 {
		d = d[:6]
	}

	return strings.Join(d, "; ")
}

// gated commands: kind, builder; selectedOnly = needs a selected mailbox.
type c18Cmd struct {
	kind         string
	selectedOnly bool
	build        func(c *c18Case) []any
}

func c18Box(c *c18Case) string {
	return imapc.Quote([]string{"INBOX", "Work", "Shared/Sub", "inbox", "Nope"}[c.rng.Intn(5)])
}

var c18Cmds = []c18Cmd{
	{"SELECT", false, func(c *c18Case) []any { return []any{"SELECT " + c18Box(c)} }},
	{"EXAMINE", false, func(c *c18Case) []any { return []any{"EXAMINE " + c18Box(c)} }},
	{"CREATE", false, func(c *c18Case) []any { c.n++; return []any{fmt.Sprintf("CREATE Gate%d", c.n)} }},
	{"DELETE", false, func(c *c18Case) []any { return []any{"DELETE " + c18Box(c)} }},
	{"RENAME", false, func(c *c18Case) []any { c.n++; return []any{fmt.Sprintf("RENAME %s Moved%d", c18Box(c), c.n)} }},
	{"SUBSCRIBE", false, func(c *c18Case) []any { return []any{"SUBSCRIBE " + c18Box(c)} }},
	{"UNSUBSCRIBE", false, func(c *c18Case) []any { return []any{"UNSUBSCRIBE " + c18Box(c)} }},
	{"LIST", false, func(c *c18Case) []any { return []any{`LIST "" "*"`} }},
	{"LSUB", false, func(c *c18Case) []any { return []any{`LSUB "" "%"`} }},
	{"STATUS", false, func(c *c18Case) []any { return []any{"STATUS " + c18Box(c) + " (MESSAGES UIDNEXT)"} }},
	{"APPEND", false, func(c *c18Case) []any {
		c.n++
		return []any{"APPEND " + c18Box(c) + ` (\Seen) `, imapc.Lit(simpleMessage(fmt.Sprintf("%s-gate-%d", c.label, c.n), c.rng))}
	}},
	{"IDLE", false, func(c *c18Case) []any { return []any{"IDLE"} }},
	{"CHECK", true, func(c *c18Case) []any { return []any{"CHECK"} }},
	{"CLOSE", true, func(c *c18Case) []any { return []any{"CLOSE"} }},
	{"UNSELECT", true, func(c *c18Case) []any { return []any{"UNSELECT"} }},
	{"EXPUNGE", true, func(c *c18Case) []any { return []any{"EXPUNGE"} }},
	{"SEARCH", true, func(c *c18Case) []any { return []any{"SEARCH ALL"} }},
	{"FETCH", true, func(c *c18Case) []any { return []any{"FETCH 1:* (FLAGS BODY[])"} }},
	{"STORE", true, func(c *c18Case) []any { return []any{`STORE 1:* +FLAGS (\Deleted \Flagged)`} }},
	{"COPY", true, func(c *c18Case) []any { return []any{"COPY 1:* " + c18Box(c)} }},
	{"MOVE", true, func(c *c18Case) []any { return []any{"MOVE 1:* " + c18Box(c)} }},
	{"UID FETCH", true, func(c *c18Case) []any { return []any{"UID FETCH 1:* (FLAGS)"} }},
	{"UID STORE", true, func(c *c18Case) []any { return []any{`UID STORE 1:* FLAGS (\Deleted)`} }},
	{"UID COPY", true, func(c *c18Case) []any { return []any{"UID COPY 1:* " + c18Box(c)} }},
	{"UID MOVE", true, func(c *c18Case) []any { return []any{"UID MOVE 1:* " + c18Box(c)} }},
	{"UID SEARCH", true, func(c *c18Case) []any { return []any{"UID SEARCH UNSEEN"} }},
	{"UID EXPUNGE", true, func(c *c18Case) []any { return []any{"UID EXPUNGE 1:*"} }},
}

// gateBatch sends commands that the current state must refuse.
func (c *c18Case) gateBatch(cn *imapc.Conn, stage string, onlySelected bool, count int) bool {
	for i := 0; i < count && !c.fail; i++ {
		cmd := c18Cmds[c.rng.Intn(len(c18Cmds))]
		if onlySelected && !cmd.selectedOnly {
			continue
		}

		var res *imapc.Result

		if cmd.kind == "IDLE" {
			res = cn.IdleStart()
			if res.Status == "" && res.Err == nil {
				// the server went into IDLE
				res = cn.IdleDone(res)
				c.logf("[%s] IDLE was entered -> %s", stage, res.Status)
				c.violate("C18 accepted "+stage+" IDLE", fmt.Sprintf("IDLE was accepted %s", stage))

				return false
			}
		} else {
			res = cn.Cmd(cmd.build(c)...)
		}

		c.logf("[%s] %s -> %s %s", stage, cmd.kind, res.Status, shorten(res.Text, 60))
		c.r.Distinct(fmt.Sprintf("%s %s %s", stage, cmd.kind, res.Status))

		if res.Err != nil || res.Bye {
			// closing the connection on an unauthenticated client is a refusal too; start over
			c.logf("[%s] connection ended", stage)
			return true
		}

		if res.Status != "NO" && res.Status != "BAD" {
			c.violate("C18 accepted "+stage+" "+cmd.kind, fmt.Sprintf("%s was answered %s %s %s", cmd.kind, res.Status, res.Text, stage))
			return false
		}

		for _, u := range res.Untagged {
			switch u.Kind {
			case "LIST", "LSUB", "FETCH", "SEARCH", "STATUS", "EXISTS", "FLAGS":
				c.violate("C18 data-leaked "+stage+" "+cmd.kind, fmt.Sprintf("%s %s produced %q", cmd.kind, stage, u.String()))
				return false
			}
		}
	}

	return !c.fail
}

func c18Gating(r *ev.Run, label string) {
	rng := r.Rand(label)

	s, err := startServer(r, label, func(o *srv.Options) {
		o.Users = c18Users
		o.JailTime = 20 * time.Millisecond
	})
	if err != nil {
		r.Inconclusive("%s: %v", label, err)
		return
	}

	c := &c18Case{r: r, label: label, rng: rng, s: s}

	defer finishServer(r, s, label, func() []string { return c.log })

	// every user: same names, own content
	for u := range s.Users {
		cn, err := s.Login("setup", u)
		if err != nil {
			r.Inconclusive("%s: %v", label, err)
			return
		}

		cn.Cmd("CREATE Work")
		cn.Cmd("CREATE Shared/Sub")

		for i := 0; i < 1+rng.Intn(3); i++ {
			for _, b := range []string{"INBOX", "Work", "Shared/Sub"} {
				if rng.Intn(2) == 0 {
					c.n++
					cn.Cmd(fmt.Sprintf("APPEND %s ", imapc.Quote(b)), imapc.Lit(simpleMessage(fmt.Sprintf("%s-u%d-m%d", label, u, c.n), rng)))
				}
			}
		}

		cn.Close()
	}

	before, ok := c.observeAll()
	if !ok {
		return
	}

	r.Eval(1)

	unchanged := func(after [][]string, what string, except int) bool {
		for u := range before {
			if u == except {
				continue
			}

			if d := diffLines(before[u], after[u]); d != "" {
				c.violate("C18 state-changed "+what, fmt.Sprintf("%s changed what user %d sees: %s", what, u, d))
				return false
			}
		}

		return true
	}

	// ---- (a) before LOGIN ----
	cn, err := s.Dial("gate")
	if err != nil {
		r.Inconclusive("%s: %v", label, err)
		return
	}

	defer func() { cn.Close() }()

	redial := func() bool {
		cn.Close()

		if cn, err = s.Dial("gate"); err != nil {
			r.Inconclusive("%s: %v", label, err)
			c.fail = true

			return false
		}

		return true
	}

	if !c.gateBatch(cn, "before LOGIN", false, 12) || !redial() {
		return
	}

	for _, any := range []string{"CAPABILITY", "NOOP", `ID ("name" "verif")`} {
		if res := cn.Cmd(any); !res.OK() {
			c.violate("C18 any-state-command-refused "+strings.Fields(any)[0], fmt.Sprintf("%s before LOGIN was answered %s %s", any, res.Status, res.Text))
			return
		}
	}

	// ---- (b) wrong credentials ----
	alice, bob := c18Users[0], c18Users[1]
	wrong := [][2]string{
		{alice.Usernames[0], bob.Password}, {bob.Usernames[0], alice.Password}, {alice.Usernames[0], ""},
		{alice.Usernames[0], strings.ToUpper(alice.Password)}, {alice.Usernames[0], alice.Password + " "}, {alice.Usernames[0], alice.Password[:len(alice.Password)-1]},
		{alice.Usernames[0], alice.Password + "2"}, {"", alice.Password}, {"nobody@example.com", alice.Password},
		{alice.Usernames[0] + "x", alice.Password}, {c18Users[2].Usernames[0], alice.Password}, {alice.Usernames[1], bob.Password},
		{bob.Usernames[0], "*"}, {alice.Password, alice.Usernames[0]}, {"u1", alice.Password},
	}

	for i := 0; i < 6 && !c.fail; i++ {
		w := wrong[rng.Intn(len(wrong))]

		var res *imapc.Result

		switch rng.Intn(3) {
		case 0:
			res = cn.Cmdf("LOGIN %s %s", imapc.Quote(w[0]), imapc.Quote(w[1]))
		case 1:
			res = cn.Cmd("LOGIN ", imapc.Lit([]byte(w[0])), " ", imapc.Lit([]byte(w[1])))
		default:
			res = cn.Cmd("LOGIN "+imapc.Quote(w[0])+" ", imapc.Lit([]byte(w[1])))
		}

		c.logf("LOGIN %q %q -> %s %s", w[0], w[1], res.Status, shorten(res.Text, 40))
		r.Distinct("wrong-login " + res.Status)

		if res.OK() {
			c.violate("C18 wrong-credentials-authenticated", fmt.Sprintf("LOGIN %q %q was answered OK", w[0], w[1]))
			return
		}

		if res.Err != nil || res.Bye {
			if !redial() {
				return
			}

			continue
		}

		// still unauthenticated
		if !c.gateBatch(cn, "after a failed LOGIN", false, 2) {
			return
		}

		if cn == nil || c.fail {
			return
		}
	}

	after, ok := c.observeAll()
	if !ok || !unchanged(after, "commands sent before authentication", -1) {
		return
	}

	// ---- (a') authenticated, nothing selected ----
	if !redial() {
		return
	}

	me := rng.Intn(len(c18Users))

	if res := cn.Cmdf("LOGIN %s %s", imapc.Quote(c18Users[me].Usernames[rng.Intn(len(c18Users[me].Usernames))]), imapc.Quote(c18Users[me].Password)); !res.OK() {
		c.violate("C18 cannot-login", fmt.Sprintf("user %d cannot log in: %s", me, res))
		return
	}

	if !c.gateBatch(cn, "without a selected mailbox", true, 12) {
		return
	}

	// also after a selection was given up
	if rng.Intn(2) == 0 {
		cn.Cmd([]string{"SELECT INBOX", "EXAMINE Work"}[rng.Intn(2)])
		cn.Cmd([]string{"CLOSE", "UNSELECT"}[rng.Intn(2)])

		if !c.gateBatch(cn, "after CLOSE/UNSELECT", true, 8) {
			return
		}
	}

	// and after a failed SELECT / EXAMINE
	if rng.Intn(2) == 0 {
		cn.Cmd([]string{"SELECT INBOX", "EXAMINE INBOX", "SELECT Work"}[rng.Intn(3)])
		cn.Cmd([]string{"SELECT NoSuchMailbox", "EXAMINE NoSuchMailbox", "EXAMINE \"\"", "SELECT INBOX/nothing/here"}[rng.Intn(4)])

		if !c.gateBatch(cn, "after a failed SELECT/EXAMINE", true, 8) {
			return
		}
	}

	after, ok = c.observeAll()
	if !ok || !unchanged(after, "selected-state commands without a selection", -1) {
		return
	}

	// ---- (c) isolation: user `me` mutates, the others must not notice ----
	for step := 0; step < 25 && !c.fail; step++ {
		box := []string{"INBOX", "Work", "Shared/Sub"}[rng.Intn(3)]

		var cmd []any

		switch rng.Intn(10) {
		case 0:
			c.n++
			cmd = []any{fmt.Sprintf("CREATE Own%d", c.n)}
		case 1:
			cmd = []any{"DELETE " + []string{"Work", "Shared/Sub", "Shared"}[rng.Intn(3)]}
		case 2:
			c.n++
			cmd = []any{fmt.Sprintf("RENAME %s Renamed%d", imapc.Quote([]string{"Work", "Shared", "INBOX"}[rng.Intn(3)]), c.n)}
		case 3:
			cmd = []any{[]string{"SUBSCRIBE ", "UNSUBSCRIBE "}[rng.Intn(2)] + imapc.Quote(box)}
		case 4, 5:
			c.n++
			cmd = []any{fmt.Sprintf("APPEND %s ", imapc.Quote(box)), imapc.Lit(simpleMessage(fmt.Sprintf("%s-u%d-m%d", label, me, c.n), rng))}
		case 6:
			cn.Cmdf("SELECT %s", imapc.Quote(box))
			cmd = []any{`STORE 1:* +FLAGS (\Seen \Deleted)`}
		case 7:
			cn.Cmdf("SELECT %s", imapc.Quote(box))
			cmd = []any{"EXPUNGE"}
		case 8:
			cn.Cmdf("SELECT %s", imapc.Quote(box))
			cmd = []any{[]string{"COPY", "MOVE"}[rng.Intn(2)] + " 1:* " + imapc.Quote([]string{"INBOX", "Work", "Shared/Sub"}[rng.Intn(3)])}
		default:
			// the connector of another user delivers something
			other := (me + 1 + rng.Intn(len(c18Users)-1)) % len(c18Users)
			oc := s.Users[other].Conn

			if id, ok := oc.MailboxID("INBOX"); ok {
				c.n++

				if mc, err := oc.RemoteAddMessage(simpleMessage(fmt.Sprintf("%s-u%d-m%d", label, other, c.n), rng), imap.NewFlagSet(), c06Date, id); err == nil {
					ack := oc.Apply(imap.NewMessagesCreated(false, mc), srv.UpdateTimeout)
					c.logf("connector of user %d: MessagesCreated -> %v", other, ack.Err)
					r.Distinct("isolation connector-update")

					mine, ok := c.observeUser(me)
					if !ok {
						return
					}

					if d := diffLines(before[me], mine); d != "" && step == 0 {
						c.violate("C18 foreign-update-visible", fmt.Sprintf("an update of user %d's connector changed what user %d sees: %s", other, me, d))
						return
					}

					// the other user's own view moved on legitimately
					if o, ok := c.observeUser(other); ok {
						before[other] = o
					}
				}
			}

			continue
		}

		res := cn.Cmd(cmd...)
		c.logf("user %d: %v -> %s", me, shorten(fmt.Sprint(cmd[0]), 60), res.Status)
		r.Distinct("isolation " + strings.Fields(fmt.Sprint(cmd[0]))[0] + " " + res.Status)

		if res.Err != nil || res.Bye {
			return
		}

		after, ok := c.observeAll()
		if !ok || !unchanged(after, fmt.Sprintf("user %d's %s", me, strings.Fields(fmt.Sprint(cmd[0]))[0]), me) {
			return
		}
	}

	if !c.fail && r.WantSample() {
		l := c.log
		if len(l) > 40 {
			l = l[:40]
		}

		r.Sample(map[string]any{"case": label, "first_events": l})
	}
}

// ---- (d) jail -----------------------------------------------------------------------------

// scripts: F = failing LOGIN, S = successful LOGIN, N = failing LOGIN on a new connection
var c18JailScripts = []string{
	"FFFF", "FFFS", "FFNF", "NNNN", "FSFFFF", "FFSFFFS", "FFFFFFF", "FFFSFFFF", "FFFFFFS", "NFNFNFNF", "FFFFFFFFFF", "SFFFS", "FFFNFFS", "FFFFSFFFF", "FFFFFFFFFS", "NNNSNNNS",
}

func c18Jail(r *ev.Run, label string, idx int) {
	rng := r.Rand(label)
	script := c18JailScripts[idx%len(c18JailScripts)]
	jail := time.Duration(400+rng.Intn(400)) * time.Millisecond

	s, err := startServer(r, label, func(o *srv.Options) {
		o.Users = c18Users
		o.JailTime = jail
	})
	if err != nil {
		r.Inconclusive("%s: %v", label, err)
		return
	}

	c := &c18Case{r: r, label: label, rng: rng, s: s}

	defer finishServer(r, s, label, func() []string { return c.log })

	cn, err := s.Dial("jail")
	if err != nil {
		r.Inconclusive("%s: %v", label, err)
		return
	}

	defer func() { cn.Close() }()

	r.Eval(1)
	r.Distinct("jail script " + script)

	var (
		consecutive int
		armed       bool
		ref         time.Time
	)

	for i, step := range script {
		if step == 'N' || step == 'S' && consecutive > 0 && rng.Intn(2) == 0 {
			cn.Close()

			if cn, err = s.Dial("jail"); err != nil {
				r.Inconclusive("%s: %v", label, err)
				return
			}
		}

		u := c18Users[rng.Intn(len(c18Users))]
		pass := u.Password

		if step != 'S' {
			pass = []string{"wrong", c18Users[(rng.Intn(2)+1)%3].Password + "x", ""}[rng.Intn(3)]
		}

		sent := time.Now()
		res := cn.Cmdf("LOGIN %s %s", imapc.Quote(u.Usernames[0]), imapc.Quote(pass))
		answered := time.Now()

		c.logf("attempt %d (%c): LOGIN %s -> %s after %v (consecutive failures before: %d, jailed: %v)", i+1, step, u.Usernames[0], res.Status, answered.Sub(sent).Round(time.Millisecond), consecutive, armed)

		if res.Err != nil {
			r.Inconclusive("%s: connection error: %v", label, res.Err)
			return
		}

		if armed {
			if el := answered.Sub(ref); el < jail {
				c.violate("C18 jail-not-served", fmt.Sprintf("script %s: attempt %d followed three consecutive failed LOGINs and was answered %v after the third of them was sent; the jail time is %v", script, i+1, el.Round(time.Millisecond), jail))
				return
			}

			r.Count("jailed_attempts_observed", 1)

			armed, consecutive = false, 0
		}

		if step == 'S' {
			if !res.OK() {
				c.violate("C18 cannot-login", fmt.Sprintf("script %s: the correct credentials were answered %s %s", script, res.Status, res.Text))
				return
			}

			consecutive = 0

			// a logged-in connection cannot LOGIN again: continue on a new one
			cn.Close()

			if cn, err = s.Dial("jail"); err != nil {
				r.Inconclusive("%s: %v", label, err)
				return
			}

			continue
		}

		if res.OK() {
			c.violate("C18 wrong-credentials-authenticated", fmt.Sprintf("LOGIN %q %q was answered OK", u.Usernames[0], pass))
			return
		}

		consecutive++

		if consecutive == 3 {
			armed, ref = true, sent
		}
	}

	if r.WantSample() {
		r.Sample(map[string]any{"case": label, "script": script, "jail_ms": jail.Milliseconds(), "events": c.log})
	}
}

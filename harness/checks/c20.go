package checks

import (
	"bytes"
	"context"
	"errors"
	"fmt"
	"math/rand"
	"sort"
	"strconv"
	"strings"
	"sync"

	"github.com/ProtonMail/gluon/connector"
	"github.com/ProtonMail/gluon/imap"
	"github.com/ProtonMail/gluon/verifhooks"

	"verifharness/ev"
	"verifharness/imapc"
	"verifharness/srv"
)

func init() { register("C20", "exploration", runC20) }

func runC20(r *ev.Run) {
	r.SetRule("the harness connector fails CreateMessage on a schedule (generic error, an error wrapping another, errors wrapping context.DeadlineExceeded / context.Canceled of the remote's own request, the size error). Histories: APPEND of new messages (simple, generated MIME trees, siblings of a message in the recovery mailbox that share its Subject and address fields (they are fresh messages otherwise), text parts whose transfer encoding cannot be decoded, 8-bit) into normal mailboxes and a \\Drafts mailbox with the outcomes accept / reject / reject-for-size; re-sending a rejected message while it is in the recovery mailbox and after it was moved, copied or expunged out of it; two sessions sending the same rejected message at once; APPEND / CREATE / RENAME (both directions) / DELETE aimed at the recovery mailbox; MOVE and COPY out of it, also with a remote that de-duplicates (it answers the import with a message it already has, which may or may not be in the destination already); clean restarts. Oracles after every step: OK => the message is in the target under the announced UID with its bytes; rejected (not for size) => answered NO and the recovery mailbox holds the message exactly once with its bytes; the recovery mailbox is in LIST exactly while the model says it is non-empty; commands aimed at it are refused and change nothing; moved/copied-out messages arrive with their bytes, and RFC822.SIZE equals the length of BODY[] everywhere. distinct = distinct (operation, variant, outcome) triples")
	r.Assume("'distinct message' = distinct content (every generated message carries its own marker in Subject, Message-Id and body; duplicates are byte-identical re-sends). For rejections because of size nothing is required and the model follows what the server did.")

	hist := r.Pick(120, 1500)

	ev.Parallel(hist, 10, func(i int) {
		label := fmt.Sprintf("hist-%d", i)
		if r.OnlyCase != "" && r.OnlyCase != label {
			return
		}

		c20History(r, label, r.Pick(35, 55))
	})
}

type c20Case struct {
	r     *ev.Run
	label string
	rng   *rand.Rand
	s     *srv.Server
	c     *imapc.Conn
	log   []string
	fail  bool
	n     int

	mu       sync.Mutex
	failMode string // "", "generic", "wrapped", "size"
	dedup    bool   // the remote de-duplicates by content while this is set

	lits     map[string][]byte   // marker -> bytes
	boxes    map[string][]string // normal mailbox -> markers (order of arrival)
	recovery map[string]bool     // markers expected in the recovery mailbox
	everRej  []string            // markers that were rejected at some time
}

var errC20Remote = errors.New("verif: the remote rejected the message")

func (c *c20Case) logf(f string, a ...any) {
	c.log = append(c.log, fmt.Sprintf(f, a...))
	if len(c.log) > 300 {
		c.log = c.log[len(c.log)-300:]
	}
}

func (c *c20Case) violate(sig, what string) {
	if c.fail {
		return
	}

	c.fail = true
	c.r.Violate(sig, what, c.label, map[string]any{"history": c.log})
}

func (c *c20Case) setFail(mode string) {
	c.mu.Lock()
	c.failMode = mode
	c.mu.Unlock()
}

func (c *c20Case) install() {
	c.s.Users[0].Conn.FailCall = func(kind string, n int) error {
		if kind != "CreateMessage" {
			return nil
		}

		c.mu.Lock()
		defer c.mu.Unlock()

		switch c.failMode {
		case "generic":
			return errC20Remote
		case "wrapped":
			return fmt.Errorf("remote call failed: %w", errC20Remote)
		case "size":
			return connector.ErrMessageSizeExceedsLimits
		case "timeout":
			return fmt.Errorf("remote request failed: %w", context.DeadlineExceeded)
		case "cancelled":
			return fmt.Errorf("remote request failed: %w", context.Canceled)
		}

		return nil
	}

	c.s.Users[0].Conn.DedupKey = func(lit []byte) string {
		c.mu.Lock()
		defer c.mu.Unlock()

		if !c.dedup {
			return ""
		}

		return markerOfLiteral(lit)
	}
}

func (c *c20Case) setDedup(on bool) {
	c.mu.Lock()
	c.dedup = on
	c.mu.Unlock()
}

// newMessage builds a distinct message of some kind.
func (c *c20Case) newMessage() (string, []byte, string) {
	c.n++
	mk := fmt.Sprintf("%s-m%d", c.label, c.n)

	// a sibling of a message that sits in the recovery mailbox: a fresh message that shares what the header
	// contributes to a message's identity (Subject, From, To, Cc) with it
	var siblingBase []byte

	if len(c.recovery) > 0 && c.rng.Intn(4) == 0 {
		bases := keysOf(c.recovery)
		sort.Strings(bases)
		siblingBase = c.lits[bases[c.rng.Intn(len(bases))]]
	}

	if siblingBase != nil {
		g := &mimeGen{rng: c.rng, nl: "\r\n", maxDepth: 1 + c.rng.Intn(3), eightBit: c.rng.Intn(2) == 0}
		m := g.message(0, mk)

		// a multipart sibling gets one more part that names the marker, so that its parts differ from those of
		// every other message by construction; anything else becomes a simple message (whose body names it)
		if closing := []byte("--" + m.Boundary + "--"); m.IsMultipart() && c.rng.Intn(3) != 0 {
			lit := m.Bytes()

			if i := bytes.LastIndex(lit, closing); i >= 0 {
				extra := fmt.Sprintf("--%s\r\nContent-Type: text/plain\r\n\r\nsibling part of %s\r\n", m.Boundary, mk)
				lit = append(append(append([]byte{}, lit[:i]...), []byte(extra)...), lit[i:]...)

				return mk, siblingOf(siblingBase, lit), "sibling-multipart"
			}
		}

		return mk, siblingOf(siblingBase, simpleMessage(mk, c.rng)), "sibling-simple"
	}

	switch k := c.rng.Intn(10); {
	case k < 4:
		return mk, simpleMessage(mk, c.rng), "simple"
	case k < 7:
		g := &mimeGen{rng: c.rng, nl: "\r\n", maxDepth: 1 + c.rng.Intn(3), eightBit: c.rng.Intn(2) == 0}
		return mk, g.message(0, mk).Bytes(), "mime"
	case k < 9:
		// a text part whose transfer encoding cannot be decoded (base64 with a plain-text footer)
		enc := []string{"base64", "quoted-printable"}[c.rng.Intn(2)]
		body := "SGVsbG8gd29ybGQ=\r\n--\r\nThis footer was added by a mailing list: not base64 at all!\r\n"

		if enc == "quoted-printable" {
			body = "broken =ZZ escape and a soft break at the end =\r\n=\r\n"
		}

		lit := fmt.Sprintf("From: Alice <alice@example.com>\r\nTo: bob@example.com\r\nSubject: odd %s\r\nDate: Mon, 02 Jan 2006 15:04:05 +0000\r\nMessage-Id: <%s@verif.example>\r\n%s: %s\r\nMIME-Version: 1.0\r\nContent-Type: text/%s; charset=utf-8\r\nContent-Transfer-Encoding: %s\r\n\r\n%s marker %s\r\n", mk, mk, markerHeader, mk, []string{"plain", "html"}[c.rng.Intn(2)], enc, body, mk)

		return mk, []byte(lit), "undecodable-" + enc
	default:
		lit := fmt.Sprintf("From: =?utf-8?q?Al=C3=AFce?= <alice@example.com>\r\nTo: undisclosed-recipients:;\r\nSubject: group %s\r\nDate: Mon, 02 Jan 2006 15:04:05 +0000\r\nMessage-Id: <%s@verif.example>\r\n%s: %s\r\nContent-Type: text/plain; charset=x-unknown-charset\r\n\r\nbody \xff\xfe of %s\r\n", mk, mk, markerHeader, mk, mk)

		return mk, []byte(lit), "odd-charset"
	}
}

// siblingOf gives the fresh message lit the Subject and Cc fields of base (From and To have the same addresses
// in all generated messages): gluon identifies a message by subject, addresses and the content of its leaf
// parts, so the two share what the header contributes and differ in their parts.
func siblingOf(base, lit []byte) []byte {
	split := func(m []byte) (fields [][]byte, rest []byte) {
		for len(m) > 0 {
			i := bytes.IndexByte(m, '\n')
			if i < 0 {
				i = len(m) - 1
			}

			line := m[:i+1]

			if len(bytes.TrimRight(line, "\r\n")) == 0 {
				return fields, m
			}

			if (line[0] == ' ' || line[0] == '\t') && len(fields) > 0 {
				fields[len(fields)-1] = append(fields[len(fields)-1], line...)
			} else {
				fields = append(fields, append([]byte{}, line...))
			}

			m = m[i+1:]
		}

		return fields, nil
	}

	isField := func(f []byte, name string) bool {
		return len(f) > len(name) && strings.EqualFold(string(f[:len(name)]), name) && f[len(name)] == ':'
	}

	baseFields, _ := split(base)
	fields, rest := split(lit)

	var out bytes.Buffer

	for _, f := range baseFields {
		if isField(f, "Subject") || isField(f, "Cc") {
			out.Write(f)
		}
	}

	for _, f := range fields {
		if !isField(f, "Subject") && !isField(f, "Cc") {
			out.Write(f)
		}
	}

	out.Write(rest)

	return out.Bytes()
}

// observe compares the recovery mailbox, LIST and the normal mailboxes with the model.
func (c *c20Case) observe(after string) bool {
	lc, err := c.s.Login("observe")
	if err != nil {
		c.r.Inconclusive("%s: %v", c.label, err)
		c.fail = true

		return false
	}

	names, lerr := listNames(lc, `LIST "" "*"`)
	lc.Close()

	if lerr != nil {
		c.violate("C20 list-failed", lerr.Error())
		return false
	}

	listed := false

	for _, n := range names {
		if n == verifhooks.RecoveryMailboxName {
			listed = true
		}
	}

	if listed != (len(c.recovery) > 0) {
		c.violate(fmt.Sprintf("C20 recovery-listed=%v-with-%s after %s", listed, lenClass(len(c.recovery)), opWord(after)), fmt.Sprintf("after %s the recovery mailbox is listed=%v although it should hold %d message(s) %v", after, listed, len(c.recovery), keysOf(c.recovery)))
		return false
	}

	if listed {
		v, err := freshView(c.s, 0, verifhooks.RecoveryMailboxName, true)
		if err != nil {
			c.violate("C20 recovery-not-viewable", fmt.Sprintf("after %s: %v", after, err))
			return false
		}

		count := map[string]int{}

		for _, m := range v.Msgs {
			count[m.Marker]++

			want, ok := c.lits[m.Marker]
			if !ok {
				c.violate("C20 recovery-holds-unknown-message", fmt.Sprintf("after %s the recovery mailbox holds %q", after, m.Marker))
				return false
			}

			if m.Size >= 0 && m.Size != int64(len(m.Body)) {
				c.violate("C20 recovered-size-differs", fmt.Sprintf("after %s the recovered message %s has RFC822.SIZE %d, its BODY[] has %d bytes", after, m.Marker, m.Size, len(m.Body)))
				return false
			}

			got, _ := stripGluonID(m.Body)
			w2, _ := stripGluonID(want)

			if !bytes.Equal(got, w2) {
				c.violate("C20 recovered-bytes-differ", fmt.Sprintf("after %s the recovered message %s has %d bytes, %d were handed to APPEND", after, m.Marker, len(got), len(w2)))
				return false
			}
		}

		for mk := range c.recovery {
			if count[mk] == 0 {
				c.violate("C20 rejected-message-lost after "+opWord(after), fmt.Sprintf("after %s the message %s, which the remote rejected, is not in the recovery mailbox (it holds %v)", after, mk, v.Markers()))
				return false
			}
		}

		for mk, n := range count {
			if n > 1 {
				c.violate("C20 recovered-message-duplicated after "+opWord(after), fmt.Sprintf("after %s the recovery mailbox holds %s %d times", after, mk, n))
				return false
			}

			if !c.recovery[mk] {
				c.violate("C20 recovery-holds-extra after "+opWord(after), fmt.Sprintf("after %s the recovery mailbox holds %s, which should not be there (expected %v)", after, mk, keysOf(c.recovery)))
				return false
			}
		}
	}

	for box, want := range c.boxes {
		v, err := freshView(c.s, 0, box, true)
		if err != nil {
			c.violate("C20 mailbox-not-viewable", fmt.Sprintf("after %s: %v", after, err))
			return false
		}

		got := v.Markers()
		if !eqStrings(sortedCopy(got), sortedCopy(want)) {
			c.violate("C20 mailbox-content-differs after "+opWord(after), fmt.Sprintf("after %s mailbox %q holds %v, expected %v", after, box, got, want))
			return false
		}

		for _, m := range v.Msgs {
			if m.Size >= 0 && m.Size != int64(len(m.Body)) {
				c.violate("C20 size-differs after "+opWord(after), fmt.Sprintf("after %s message %s in %q has RFC822.SIZE %d, its BODY[] has %d bytes", after, m.Marker, box, m.Size, len(m.Body)))
				return false
			}

			g, _ := stripGluonID(m.Body)
			w, _ := stripGluonID(c.lits[m.Marker])

			if !bytes.Equal(g, w) {
				c.violate("C20 bytes-differ after "+opWord(after), fmt.Sprintf("after %s message %s in %q has %d bytes, %d were handed over", after, m.Marker, box, len(g), len(w)))
				return false
			}
		}
	}

	return true
}

func opWord(s string) string {
	f := strings.Fields(s)
	if len(f) == 0 {
		return ""
	}

	if len(f) > 1 && (f[0] == "re-sending" || f[0] == "APPEND") {
		return f[0] + " " + f[1]
	}

	return f[0]
}

// appendMsg sends an APPEND and judges the immediate answer.
func (c *c20Case) appendMsg(cn *imapc.Conn, box, mk, mode, what string) *imapc.Result {
	c.setFail(mode)
	res := cn.Cmd(fmt.Sprintf("APPEND %s ", imapc.Quote(box)), imapc.Lit(c.lits[mk]))
	c.setFail("")
	c.logf("%s: APPEND %s %s (remote: %s) -> %s %s [%s]", what, box, mk, orStr(mode, "accepts"), res.Status, shorten(res.Text, 70), res.Code)

	return res
}

func orStr(s, d string) string {
	if s == "" {
		return d
	}

	return s
}

func c20History(r *ev.Run, label string, steps int) {
	rng := r.Rand(label)

	s, err := startServer(r, label, nil)
	if err != nil {
		r.Inconclusive("%s: %v", label, err)
		return
	}

	c := &c20Case{r: r, label: label, rng: rng, s: s, lits: map[string][]byte{}, boxes: map[string][]string{"INBOX": nil, "Work": nil, "Drafts": nil}, recovery: map[string]bool{}}

	defer func() {
		if c.c != nil {
			c.c.Close()
		}

		finishServer(r, c.s, label, func() []string { return c.log })
	}()

	s.Users[0].Conn.AttrsFor = func(name []string) imap.FlagSet {
		if len(name) == 1 && name[0] == "Drafts" {
			return imap.NewFlagSet(imap.AttrDrafts)
		}

		return nil
	}

	c.install()

	if c.c, err = s.Login("actor"); err != nil {
		r.Inconclusive("%s: %v", label, err)
		return
	}

	c.c.Cmd("CREATE Work")
	c.c.Cmd("CREATE Drafts")

	r.Eval(1)

	recName := imapc.Quote(verifhooks.RecoveryMailboxName)
	normal := []string{"INBOX", "Work", "Drafts"}
	restarts := 0

	for step := 0; step < steps && !c.fail; step++ {
		box := normal[rng.Intn(len(normal))]

		switch k := rng.Intn(100); {
		case k < 40: // a new message
			mk, lit, kind := c.newMessage()
			c.lits[mk] = lit
			mode := []string{"", "", "", "generic", "generic", "wrapped", "size", "timeout", "cancelled"}[rng.Intn(9)]
			res := c.appendMsg(c.c, box, mk, mode, "new "+kind)
			what := fmt.Sprintf("APPEND %s of a %s message", orStr(mode, "accepted"), kind)
			r.Distinct(fmt.Sprintf("append %s %s box=%s -> %s", kind, orStr(mode, "accepted"), box, res.Status))

			switch mode {
			case "":
				if !res.OK() {
					if res.Status == "BAD" || res.Status == "NO" {
						// the server refuses the message itself (validation): the client is told, nothing is kept
						delete(c.lits, mk)
						r.Count("messages_refused_by_validation", 1)

						break
					}

					c.violate("C20 append-failed", fmt.Sprintf("%s was answered %s %s", what, res.Status, res.Text))

					return
				}

				f := strings.Fields(res.Code)
				if len(f) != 3 {
					c.violate("C20 appenduid-missing", fmt.Sprintf("%s answered OK without APPENDUID", what))
					return
				}

				uid, _ := strconv.ParseUint(f[2], 10, 32)
				c.boxes[box] = append(c.boxes[box], mk)

				if !c.observe(what) {
					return
				}

				v, _ := freshView(c.s, 0, box, false)
				found := false

				for _, m := range v.Msgs {
					if m.Marker == mk && m.UID == uint32(uid) {
						found = true
					}
				}

				if !found {
					c.violate("C20 appenduid-wrong", fmt.Sprintf("%s announced UID %d; the message is not there (%v / %v)", what, uid, v.Markers(), v.UIDs()))
					return
				}

				continue
			case "size":
				if res.OK() {
					c.violate("C20 rejected-append-answered-ok", fmt.Sprintf("%s was answered OK", what))
					return
				}

				// nothing is required: follow the server
				if v, err := freshView(c.s, 0, verifhooks.RecoveryMailboxName, false); err == nil {
					for _, m := range v.Msgs {
						if m.Marker == mk {
							c.recovery[mk] = true
						}
					}
				}
			default:
				if res.OK() {
					c.violate("C20 rejected-append-answered-ok", fmt.Sprintf("%s was answered OK although the remote rejected the message", what))
					return
				}

				if res.Status == "BAD" {
					delete(c.lits, mk)
					r.Count("messages_refused_by_validation", 1)

					break
				}

				c.recovery[mk] = true
				c.everRej = append(c.everRej, mk)
			}

			if !c.observe(what) {
				return
			}
		case k < 55: // re-send a message that was rejected before
			if len(c.everRej) == 0 {
				continue
			}

			mk := c.everRej[rng.Intn(len(c.everRej))]
			where := "while it is in the recovery mailbox"

			if !c.recovery[mk] {
				where = "after it left the recovery mailbox"
			}

			mode := []string{"generic", "wrapped", "timeout", "cancelled", ""}[rng.Intn(5)]
			res := c.appendMsg(c.c, box, mk, mode, "re-send "+where)
			what := fmt.Sprintf("re-sending %s %s (remote: %s)", mk, where, orStr(mode, "accepts"))
			r.Distinct(fmt.Sprintf("resend %s remote=%s -> %s", where, orStr(mode, "accepts"), res.Status))

			if mode == "" {
				if !res.OK() {
					c.violate("C20 append-failed", fmt.Sprintf("%s was answered %s %s", what, res.Status, res.Text))
					return
				}

				c.boxes[box] = append(c.boxes[box], mk)
			} else {
				if res.OK() {
					c.violate("C20 rejected-append-answered-ok", fmt.Sprintf("%s was answered OK", what))
					return
				}

				c.recovery[mk] = true
			}

			if !c.observe(what) {
				return
			}
		case k < 60: // two sessions send the same rejected message at once
			mk, lit, kind := c.newMessage()
			c.lits[mk] = lit

			other, err := c.s.Login("second")
			if err != nil {
				continue
			}

			c.setFail("generic")

			var wg sync.WaitGroup

			results := make([]*imapc.Result, 2)

			for i, cn := range []*imapc.Conn{c.c, other} {
				wg.Add(1)

				go func(i int, cn *imapc.Conn) {
					defer wg.Done()
					results[i] = cn.Cmd(fmt.Sprintf("APPEND %s ", imapc.Quote(box)), imapc.Lit(lit))
				}(i, cn)
			}

			wg.Wait()
			c.setFail("")
			other.Close()
			c.logf("two sessions APPEND the same rejected %s message %s at once -> %s / %s", kind, mk, results[0].Status, results[1].Status)
			r.Distinct("concurrent duplicate " + results[0].Status + results[1].Status)

			if results[0].Status == "BAD" {
				delete(c.lits, mk)
				continue
			}

			c.recovery[mk] = true
			c.everRej = append(c.everRej, mk)

			if !c.observe("two sessions sending the same rejected message at once") {
				return
			}
		case k < 72: // commands aimed at the recovery mailbox
			var (
				res  *imapc.Result
				what string
			)

			switch rng.Intn(5) {
			case 0:
				mk, lit, _ := c.newMessage()
				what = "APPEND to the recovery mailbox"
				res = c.c.Cmd("APPEND "+recName+" ", imapc.Lit(lit))
				_ = mk
			case 1:
				what = "CREATE of the recovery mailbox"
				res = c.c.Cmd("CREATE " + []string{recName, imapc.Quote(strings.ToLower(verifhooks.RecoveryMailboxName)), imapc.Quote(verifhooks.RecoveryMailboxName + "/sub")}[rng.Intn(3)])
			case 2:
				what = "RENAME of the recovery mailbox"
				res = c.c.Cmd("RENAME " + recName + " Stolen")
			case 3:
				what = "RENAME onto the recovery mailbox"
				res = c.c.Cmd("RENAME Work " + recName)
			default:
				what = "DELETE of the recovery mailbox"
				res = c.c.Cmd("DELETE " + []string{recName, imapc.Quote(strings.ToUpper(verifhooks.RecoveryMailboxName))}[rng.Intn(2)])
			}

			c.logf("%s -> %s %s", what, res.Status, shorten(res.Text, 60))
			r.Distinct(fmt.Sprintf("%s nonempty=%v -> %s", what, len(c.recovery) > 0, res.Status))

			if res.OK() {
				c.violate("C20 recovery-mailbox-not-protected "+strings.Fields(what)[0], fmt.Sprintf("%s was answered OK", what))
				return
			}

			if !c.observe(what) {
				return
			}
		case k < 92: // move / copy / expunge out of the recovery mailbox
			if len(c.recovery) == 0 {
				continue
			}

			if sel := c.c.Cmd("SELECT " + recName); !sel.OK() {
				c.violate("C20 recovery-not-selectable", fmt.Sprintf("SELECT of the non-empty recovery mailbox: %s", sel))
				return
			}

			rows := c.c.Cmd("FETCH 1:* (UID BODY.PEEK[HEADER.FIELDS (" + markerHeader + ")])")

			type ent struct {
				seq int
				mk  string
			}

			var ents []ent

			for _, u := range rows.Untagged {
				if u.Kind != "FETCH" {
					continue
				}

				for key, v := range u.FetchItems() {
					if strings.HasPrefix(key, "BODY[HEADER.FIELDS") {
						ents = append(ents, ent{int(u.Num), markerFromHeaderFields(v.Str)})
					}
				}
			}

			if len(ents) == 0 {
				c.c.Cmd("UNSELECT")
				continue
			}

			sort.Slice(ents, func(i, j int) bool { return ents[i].seq < ents[j].seq })
			e := ents[rng.Intn(len(ents))]
			verb := []string{"MOVE", "COPY", "UID MOVE", "EXPUNGE"}[rng.Intn(4)]
			dst := normal[rng.Intn(2)]

			// the remote may know the message already (it was re-sent and accepted meanwhile, or copied out)
			// and answer the import with that message instead of a new one
			dedupHit, inDst := false, false

			if verb != "EXPUNGE" && rng.Intn(3) == 0 {
				var known imap.MessageID

				c.setDedup(true)
				known, inDst = c.s.Users[0].Conn.DedupCandidate(c.lits[e.mk], []string{dst})
				dedupHit = known != ""
			}

			var res *imapc.Result

			switch verb {
			case "EXPUNGE":
				c.c.Cmdf(`STORE %d +FLAGS (\Deleted)`, e.seq)
				res = c.c.Cmd("EXPUNGE")
			case "UID MOVE":
				uidRes := c.c.Cmdf("FETCH %d (UID)", e.seq)
				uid := ""

				for _, u := range uidRes.Untagged {
					if u.Kind == "FETCH" {
						uid = u.FetchItems()["UID"].Str
					}
				}

				res = c.c.Cmdf("UID MOVE %s %s", uid, dst)
			default:
				res = c.c.Cmdf("%s %d %s", verb, e.seq, dst)
			}

			c.setDedup(false)
			c.c.Cmd("UNSELECT")
			what := fmt.Sprintf("%s of %s out of the recovery mailbox to %s", verb, e.mk, dst)

			if dedupHit {
				r.Count("takeouts_the_remote_answered_with_a_known_message", 1)

				if inDst {
					r.Count("takeouts_whose_known_message_was_in_the_destination_already", 1)
				}

				what += fmt.Sprintf(" (the remote answers with a message it already has, in the destination already: %v)", inDst)
			}

			c.logf("%s -> %s %s", what, res.Status, shorten(res.Text, 60))
			r.Distinct(fmt.Sprintf("%s out of recovery dedup=%v indst=%v -> %s", verb, dedupHit, inDst, res.Status))

			if !res.OK() {
				c.violate("C20 cannot-take-out-of-recovery "+verb, fmt.Sprintf("%s was answered %s %s", what, res.Status, res.Text))
				return
			}

			switch verb {
			case "EXPUNGE":
				delete(c.recovery, e.mk)
			case "COPY":
				if !(dedupHit && inDst) {
					c.boxes[dst] = append(c.boxes[dst], e.mk)
				}
			default:
				delete(c.recovery, e.mk)

				if !(dedupHit && inDst) {
					c.boxes[dst] = append(c.boxes[dst], e.mk)
				}
			}

			if !c.observe(what) {
				return
			}
		default: // clean restart
			if restarts >= 2 {
				continue
			}

			restarts++
			c.c.Close()

			ns, err := c.s.Restart()
			if err != nil {
				c.violate("C20 restart-failed", fmt.Sprintf("server did not come up again: %v", err))
				return
			}

			c.s = ns
			c.install()
			c.logf("server restarted")
			r.Distinct("restart")

			if c.c, err = c.s.Login("actor"); err != nil {
				r.Inconclusive("%s: %v", label, err)
				c.fail = true

				return
			}

			if !c.observe("a restart") {
				return
			}
		}
	}

	if !c.fail && r.WantSample() {
		l := c.log
		if len(l) > 40 {
			l = l[:40]
		}

		r.Sample(map[string]any{"case": label, "first_events": l})
	}
}

package checks

import (
	"fmt"
	"math/rand"
	"strings"
	"time"

	"github.com/ProtonMail/gluon/imap"

	"verifharness/ev"
	"verifharness/imapc"
	"verifharness/srv"
)

func init() { register("C02", "exploration", runC02) }

func runC02(r *ev.Run) {
	r.SetRule("an observer keeps one mailbox selected while other sessions and the connector append / store / expunge / copy / move / flag / re-label / delete / replace messages in it; for every step a PRNG chooses whether the observer does nothing, lets its queue be applied (barrier, no flush) or flushes with NOOP / FETCH / STORE; at quiescent points (barrier + NOOP) the observer's UID FETCH 1:* (UID FLAGS) must equal that of a fresh EXAMINE session (same UIDs in order, same flags modulo \\Recent). Plus a directed table: (how message m arrives) x (what then targets m) x (observer: nothing / applied / flushed before the second change) x (source: session, connector). distinct = distinct (first change, second change, observer placement) triples and random-history op bigrams")
	r.Assume("connector updates never carry \\Deleted among a message's flags (it is a per-mailbox IMAP attribute the remote does not know)",
		"quiescence is the verif-tagged barrier: every state of the user has applied every update queued to it; a barrier timeout is inconclusive")

	hist := r.Pick(500, 6000)

	ev.Parallel(hist, 10, func(i int) {
		label := fmt.Sprintf("hist-%d", i)
		if r.OnlyCase != "" && r.OnlyCase != label {
			return
		}

		c02History(r, label, r.Pick(30, 40))
	})

	c02Directed(r)
}

// viewKey renders a result of UID FETCH 1:* (UID FLAGS) as "uid[flags]" list.
func c02ViewOf(res *imapc.Result) ([]string, error) {
	rows, err := fetchRows(res)
	if err != nil {
		return nil, err
	}

	// rows may arrive in any order
	bySeq := map[int]MsgView{}
	max := 0

	for _, m := range rows {
		if _, dup := bySeq[m.Seq]; dup {
			continue // trailing flag update of the same message: the first is the row
		}

		bySeq[m.Seq] = m
		if m.Seq > max {
			max = m.Seq
		}
	}

	var out []string

	for i := 1; i <= max; i++ {
		m, ok := bySeq[i]
		if !ok {
			return nil, fmt.Errorf("row %d missing", i)
		}

		out = append(out, fmt.Sprintf("%d[%s]", m.UID, m.FlagKey()))
	}

	return out, nil
}

// c02Converged performs barrier + NOOP on the observer and compares with a fresh view.
func c02Converged(w *world, obs *vsess, box, sigDetail string) bool {
	if !mustQuiesce(w.r, w.s, 0, w.label) {
		w.mu.Lock()
		w.failed = true
		w.mu.Unlock()

		return false
	}

	if res := w.exec(obs, "NOOP"); !res.OK() {
		if w.isFailed() {
			return false
		}

		w.violate("C02 observer-noop-refused", fmt.Sprintf("observer's NOOP refused: %s", res.Text), nil)

		return false
	}

	ores := obs.c.Cmd("UID FETCH 1:* (UID FLAGS)")
	if ores.Err != nil || !ores.OK() {
		if len(w.s.Panics()) == 0 {
			w.r.Inconclusive("%s: observer fetch failed: %v %s", w.label, ores.Err, ores.Text)
		}

		w.mu.Lock()
		w.failed = true
		w.mu.Unlock()

		return false
	}

	w.absorbQuiet(obs, "UID FETCH", ores)

	oview, err := c02ViewOf(ores)
	if err != nil {
		w.violate("C02 observer-view-unreadable", fmt.Sprintf("observer's view: %v", err), nil)
		return false
	}

	fresh, err := freshView(w.s, 0, box, false)
	if err != nil {
		w.violate("C02 fresh-view-failed", fmt.Sprintf("fresh view: %v", err), nil)
		return false
	}

	var fview []string
	for _, m := range fresh.Msgs {
		fview = append(fview, fmt.Sprintf("%d[%s]", m.UID, m.FlagKey()))
	}

	w.noteUIDs(box, fresh)

	w.r.Count("quiescent_comparisons", 1)

	if strings.Join(oview, " ") == strings.Join(fview, " ") {
		return true
	}

	kind := "flags-differ"

	uids := func(v []string) string {
		var u []string
		for _, x := range v {
			u = append(u, x[:strings.Index(x, "[")])
		}

		return strings.Join(u, ",")
	}

	if uids(oview) != uids(fview) {
		kind = "membership-differs"
	}

	sig := "C02 not-converged " + kind

	// Listed finding: a message that was re-filed inside the mailbox (new UID for a message the
	// mailbox already held) while the observer had not been told yet loses flag changes made in
	// between. Recognised precisely: every message whose flags differ is such a re-filed one.
	if kind == "flags-differ" {
		refiled := true

		for i := range oview {
			if oview[i] != fview[i] {
				mk := fresh.Msgs[i].Marker
				if len(w.uidsOfMarker(box, mk)) < 2 {
					refiled = false
				}
			}
		}

		if refiled {
			sig += " of-a-message-refiled-inside-the-mailbox"
		}
	}

	if sigDetail != "" {
		sig += " " + sigDetail
	}

	w.violate(sig, fmt.Sprintf("after all updates were applied and the observer issued NOOP its view of %s is %v, a fresh session sees %v", box, oview, fview), map[string]any{"observer": oview, "fresh": fview})

	return false
}

func c02History(r *ev.Run, label string, steps int) {
	rng := r.Rand(label)
	nSess := 2 + rng.Intn(3)
	boxes := []string{"INBOX", "Other"}

	w, err := newWorld(r, "C02", label, nSess, boxes, func(o *srv.Options) { o.IdleBulk = 0 })
	if err != nil {
		r.Inconclusive("%s: %v", label, err)
		return
	}

	defer w.close()

	// Re-filing a message inside the observed mailbox is part of a listed finding (see
	// known-findings.txt); most histories do without, so that they are judged strictly.
	w.noRefile = rng.Intn(4) != 0

	obs := w.sess[0]
	if !w.selectBox(obs, "INBOX", false) {
		return
	}

	for _, s := range w.sess[1:] {
		w.selectBox(s, boxes[rng.Intn(2)], false)
	}

	r.Eval(1)

	last := ""

	for i := 0; i < steps && !w.isFailed(); i++ {
		// Somebody else changes things.
		var k string

		if rng.Intn(4) == 0 {
			k = "conn:" + w.stepConnector(rng)
		} else {
			s := w.sess[1+rng.Intn(len(w.sess)-1)]
			k = w.stepClient(s, rng, true)
		}

		r.Distinct(fmt.Sprintf("bigram %s>%s", last, k))
		last = k

		if w.isFailed() {
			return
		}

		// Remember which UIDs each message has had in the observed mailbox (authoritative side,
		// through a fresh session, so that the observer is not disturbed).
		if fv, err := freshView(w.s, 0, "INBOX", false); err == nil {
			w.noteUIDs("INBOX", fv)
		}

		// Placement of the observer's flushes.
		switch p := rng.Intn(10); {
		case p < 4: // nothing: updates may or may not have been applied yet
		case p < 6: // applied but not flushed
			if !mustQuiesce(r, w.s, 0, label) {
				return
			}

			r.Distinct("observer applied-not-flushed after " + k)
		case p < 7:
			w.exec(obs, "NOOP")
			r.Distinct("observer NOOP after " + k)
		case p < 8:
			if n := len(obs.mir.Entries); n > 0 {
				w.exec(obs, fmt.Sprintf("FETCH %d (FLAGS)", 1+rng.Intn(n)))
				r.Distinct("observer FETCH after " + k)
			}
		case p < 9:
			if n := len(obs.mir.Entries); n > 0 {
				w.exec(obs, fmt.Sprintf("STORE %d +FLAGS.SILENT (kwobs)", 1+rng.Intn(n)))
				r.Distinct("observer STORE after " + k)
			}
		default:
			if !c02Converged(w, obs, "INBOX", "") {
				return
			}
		}
	}

	if w.isFailed() {
		return
	}

	for _, s := range w.sess[1:] {
		if s.idle != nil {
			w.stepClient(s, rng, false)
		}
	}

	c02Converged(w, obs, "INBOX", "")

	if !w.isFailed() && r.WantSample() {
		l := w.getLog()
		if len(l) > 40 {
			l = l[:40]
		}

		r.Sample(map[string]any{"case": label, "sessions": nSess, "first_events": l})
	}
}

// ---- directed table ---------------------------------------------------------------------

func c02Directed(r *ev.Run) {
	firsts := []string{"session-append", "connector-create", "session-copy-in", "session-move-in"}
	seconds := []string{"session-store-flag", "session-store-deleted-expunge", "session-move-out", "session-uid-expunge", "connector-flags", "connector-unlabel", "connector-deleted", "connector-updated", "connector-move-away-and-back", "session-copy-onto-itself"}
	placements := []string{"nothing", "applied", "flushed-noop", "flushed-fetch"}

	type scen struct{ a, b, p string }

	var all []scen

	for _, a := range firsts {
		for _, b := range seconds {
			for _, p := range placements {
				all = append(all, scen{a, b, p})
			}
		}
	}

	r.Count("directed_scenarios", len(all))

	// One server per group of scenarios; one mailbox per scenario.
	groups := 8

	ev.Parallel(groups, groups, func(g int) {
		label := fmt.Sprintf("directed-%d", g)

		w, err := newWorld(r, "C02", label, 2, []string{"INBOX", "Side"}, func(o *srv.Options) { o.IdleBulk = 0 })
		if err != nil {
			r.Inconclusive("%s: %v", label, err)
			return
		}

		defer w.close()

		obs, act := w.sess[0], w.sess[1]
		rng := r.Rand(label)

		for i := g; i < len(all); i += groups {
			sc := all[i]
			name := fmt.Sprintf("%s/%s/%s", sc.a, sc.b, sc.p)

			if r.OnlyCase != "" && r.OnlyCase != label+" "+name {
				continue
			}

			if len(w.s.Panics()) > 0 {
				return
			}

			w.mu.Lock()
			w.failed = false
			w.log = nil
			w.label = label + " " + name
			w.mu.Unlock()

			r.Eval(1)
			c02Scenario(w, obs, act, rng, i, sc.a, sc.b, sc.p)
			r.Distinct("directed " + name)
		}
	})
}

func c02Scenario(w *world, obs, act *vsess, rng *rand.Rand, idx int, first, second, placement string) {
	box := fmt.Sprintf("T%d", idx)
	u := w.s.Users[0]

	if res := w.exec(act, "CREATE "+box); !res.OK() {
		w.r.Inconclusive("%s: CREATE: %s", w.label, res.Text)
		return
	}

	boxID, ok := u.Conn.MailboxID(box)
	if !ok {
		w.r.Inconclusive("%s: remote mailbox id of %s unknown", w.label, box)
		return
	}

	sideID, _ := u.Conn.MailboxID("Side")

	// A bystander message so that the mailbox is never empty.
	w.exec(act, fmt.Sprintf("APPEND %s ", box), imapc.Lit(simpleMessage(w.marker(), nil)))

	if !w.selectBox(obs, box, false) || !w.selectBox(act, box, false) {
		return
	}

	mk := w.marker()
	body := simpleMessage(mk, nil)

	// First change: message m arrives in the observed mailbox.
	switch first {
	case "session-append":
		w.exec(act, fmt.Sprintf("APPEND %s (\\Seen) ", box), imapc.Lit(body))
	case "connector-create":
		mc, err := u.Conn.RemoteAddMessage(body, imap.NewFlagSet(imap.FlagSeen), time.Unix(1136214245, 0).UTC(), boxID)
		if err != nil {
			return
		}

		if ack := u.Conn.Apply(imap.NewMessagesCreated(false, mc), srv.UpdateTimeout); !ack.Acked || ack.Err != nil {
			w.violate("C02 directed connector-create-failed", fmt.Sprintf("MessagesCreated: %+v", ack), nil)
			return
		}

		w.logf("connector MessagesCreated %s into %s", mk, box)
	case "session-copy-in", "session-move-in":
		w.exec(act, "APPEND Side (\\Seen) ", imapc.Lit(body))
		w.selectBox(act, "Side", false)

		n := len(act.mir.Entries)
		verb := "COPY"

		if first == "session-move-in" {
			verb = "MOVE"
		}

		w.exec(act, fmt.Sprintf("%s %d %s", verb, n, box))
		w.selectBox(act, box, false)
	}

	if w.isFailed() {
		return
	}

	// Observer placement between the two changes.
	switch placement {
	case "applied":
		if !mustQuiesce(w.r, w.s, 0, w.label) {
			return
		}
	case "flushed-noop":
		mustQuiesce(w.r, w.s, 0, w.label)
		w.exec(obs, "NOOP")
	case "flushed-fetch":
		mustQuiesce(w.r, w.s, 0, w.label)
		w.exec(obs, "FETCH 1 (FLAGS)")
	}

	if w.isFailed() {
		return
	}

	mi, found := u.Conn.FindMessage(markerHeader + ": " + mk + "\r\n")

	// Second change targets m. The acting session sees m as its last message.
	last := len(act.mir.Entries)

	switch second {
	case "session-store-flag":
		w.exec(act, fmt.Sprintf("STORE %d +FLAGS (\\Flagged)", last))
	case "session-store-deleted-expunge":
		w.exec(act, fmt.Sprintf("STORE %d +FLAGS (\\Deleted)", last))
		w.exec(act, "EXPUNGE")
	case "session-uid-expunge":
		w.exec(act, fmt.Sprintf("STORE %d +FLAGS.SILENT (\\Deleted)", last))
		w.exec(act, "UID EXPUNGE 1:*")
	case "session-move-out":
		w.exec(act, fmt.Sprintf("MOVE %d Side", last))
	case "session-copy-onto-itself":
		w.exec(act, fmt.Sprintf("COPY %d %s", last, box))
	case "connector-flags":
		if !found {
			return
		}

		fl := imap.NewFlagSet(imap.FlagFlagged)
		u.Conn.RemoteSetFlags(mi.ID, fl)
		ack := u.Conn.Apply(imap.NewMessageFlagsUpdated(mi.ID, fl), srv.UpdateTimeout)
		w.logf("connector MessageFlagsUpdated %s -> %+v", mk, ack.Err)
	case "connector-unlabel":
		if !found {
			return
		}

		u.Conn.RemoteSetMailboxes(mi.ID, []imap.MailboxID{sideID})
		ack := u.Conn.Apply(imap.NewMessageMailboxesUpdated(mi.ID, []imap.MailboxID{sideID}, mi.Flags), srv.UpdateTimeout)
		w.logf("connector MessageMailboxesUpdated %s -> Side only: %+v", mk, ack.Err)
	case "connector-move-away-and-back":
		if !found {
			return
		}

		a1 := u.Conn.Apply(imap.NewMessageMailboxesUpdated(mi.ID, []imap.MailboxID{sideID}, mi.Flags), srv.UpdateTimeout)
		a2 := u.Conn.Apply(imap.NewMessageMailboxesUpdated(mi.ID, []imap.MailboxID{sideID, boxID}, mi.Flags), srv.UpdateTimeout)
		w.logf("connector MessageMailboxesUpdated %s away %v and back %v", mk, a1.Err, a2.Err)
	case "connector-deleted":
		if !found {
			return
		}

		u.Conn.RemoteDeleteMessage(mi.ID)
		ack := u.Conn.Apply(imap.NewMessagesDeleted(mi.ID), srv.UpdateTimeout)
		w.logf("connector MessageDeleted %s -> %+v", mk, ack.Err)
	case "connector-updated":
		if !found {
			return
		}

		nb := simpleMessage(mk+"-v2", nil)

		parsed, err := imap.NewParsedMessage(nb)
		if err != nil {
			return
		}

		ack := u.Conn.Apply(imap.NewMessageUpdated(imap.Message{ID: mi.ID, Flags: imap.NewFlagSet(imap.FlagFlagged), Date: mi.Date}, nb, []imap.MailboxID{boxID}, parsed, false), srv.UpdateTimeout)
		w.logf("connector MessageUpdated %s (new literal) -> %+v", mk, ack.Err)
	}

	if w.isFailed() {
		return
	}

	c02Converged(w, obs, box, fmt.Sprintf("directed second=%s placement=%s", second, placement))
}

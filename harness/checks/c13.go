package checks

import (
	"bytes"
	"errors"
	"fmt"
	"math/big"
	"math/rand"
	"os"
	"path/filepath"
	"regexp"
	"strconv"
	"strings"
	"sync"
	"time"

	"github.com/ProtonMail/gluon/verifhooks"

	"github.com/ProtonMail/gluon/imap"

	"verifharness/ev"
	"verifharness/imapc"
	"verifharness/srv"
)

func init() { register("C13", "exploration", runC13) }

var gluonIDLineRe = regexp.MustCompile(`^X-Pm-Gluon-Id: [0-9a-fA-F-]{36}\r\n`)

type c13Case struct {
	r     *ev.Run
	label string
	rng   *rand.Rand
	s     *srv.Server
	c     *imapc.Conn
	seq   int
	log   []string
	bad   bool
	msg   *mimePart
	orig  []byte
	prov  string
}

// removeStoreFile deletes the store file of a message (named after its internal id) below the data directory.
func removeStoreFile(dir, id string) bool {
	removed := false

	_ = filepath.WalkDir(filepath.Join(dir, "data"), func(path string, d os.DirEntry, err error) error {
		if err == nil && !d.IsDir() && d.Name() == id {
			removed = os.Remove(path) == nil
		}

		return nil
	})

	return removed
}

func (c *c13Case) violate(sig, what string) {
	c.bad = true
	c.r.Violate(sig, what, c.label, map[string]any{"message": fmt.Sprintf("%q", shorten(string(c.orig), 6000)), "fetches": c.log})
}

// fetchOne sends one FETCH attribute and returns the single value of the response.
func (c *c13Case) fetchOne(att string) (val string, key string, ok bool) {
	res := c.c.Cmdf("FETCH %d (%s)", c.seq, att)
	c.r.Eval(1)

	if res.Err != nil {
		c.log = append(c.log, fmt.Sprintf("FETCH %s -> connection error %v", att, res.Err))
		if len(c.s.Panics()) == 0 {
			c.r.Inconclusive("%s: FETCH %s: %v", c.label, att, res.Err)
		}

		c.bad = true

		return "", "", false
	}

	c.log = append(c.log, fmt.Sprintf("FETCH %d (%s) -> %s", c.seq, att, res.Status))
	if len(c.log) > 60 {
		c.log = c.log[len(c.log)-60:]
	}

	if !res.OK() {
		return "", "", false
	}

	for _, u := range res.Untagged {
		if u.Kind != "FETCH" || int(u.Num) != c.seq {
			continue
		}

		if u.Malformed != "" {
			c.violate("C13 malformed-response", fmt.Sprintf("FETCH %s: response does not parse (%s): %q", att, u.Malformed, shorten(string(u.Raw), 300)))
			return "", "", false
		}

		for k, v := range u.FetchItems() {
			if k == "FLAGS" || k == "UID" {
				continue
			}

			return v.Str, k, true
		}
	}

	c.violate("C13 no-data", fmt.Sprintf("FETCH %s answered OK without the requested item", att))

	return "", "", false
}

func (c *c13Case) expectBytes(att string, want []byte, sigKind string) bool {
	got, _, ok := c.fetchOne(att)
	if c.bad {
		return false
	}

	if !ok {
		c.violate("C13 refused "+sigKind, fmt.Sprintf("FETCH %s refused although the section exists", att))
		return false
	}

	if got != string(want) {
		c.violate("C13 wrong-bytes "+sigKind, fmt.Sprintf("FETCH %s returned %d bytes, expected %d; first difference at %d: got %q want %q", att, len(got), len(want), firstDiffAt([]byte(got), want),
			shorten(around(got, firstDiffAt([]byte(got), want)), 80), shorten(around(string(want), firstDiffAt([]byte(got), want)), 80)))

		return false
	}

	return true
}

func around(s string, i int) string {
	if i < 0 {
		i = 0
	}

	lo := i - 20
	if lo < 0 {
		lo = 0
	}

	hi := i + 40
	if hi > len(s) {
		hi = len(s)
	}

	return s[lo:hi]
}

func runC13(r *ev.Run) {
	r.SetRule("generated MIME messages whose section bytes are known by construction (nesting <= 4, multipart/message-rfc822/leaf parts, folded headers, header fields without a value, a top-level content type message/rfc822 now and then, CRLF and LF line endings, 8-bit data, an occasional leaf across the store's 256 KiB block edge) are APPENDed (5 in 10 plainly; 1 in 10 delivered by the connector instead (MessagesCreated); 1 in 10 appended and then replaced through MessageUpdated with other bytes; messages without any header field now and then, into \\Drafts mailboxes and through the connector; 1 in 10 rejected by the remote, kept in the recovery mailbox and moved or copied out of it; 2 in 10 appended, then their store file removed so that the next fetch downloads them from the remote again and later ones read what was written back); every relation of the property is then checked on the wire: BODY[] vs the appended bytes (+ one server ID line), RFC822/RFC822.SIZE/HEADER/TEXT, every BODY[p], BODY[p.MIME], BODY[p.HEADER], BODY[p.TEXT], partials <o.n> with o,n in {0,1,len-1,len,len+1,2^31,2^63-1}, partials whose origin or count is t+k*2^32, t+k*2^64 or a 64-bit boundary text with a digit appended (only a refusal, the empty string resp. the unshortened slice are accepted), HEADER.FIELDS vs HEADER.FIELDS.NOT partition. distinct = distinct (relation, part kind, depth, line ending) tuples")
	r.Assume("literal framing is checked by the wire parser: a {n} that is not followed by exactly n bytes and a well-formed continuation makes the response unparseable, which is reported")

	msgs := r.Pick(700, 25000)

	s, err := startServer(r, "c13", nil)
	if err != nil {
		r.Inconclusive("server start: %v", err)
		return
	}

	// One server, several connections, each with its own mailbox.
	workers := 8
	logs := make([][]string, workers)

	defer finishServer(r, s, "c13", func() []string {
		var all []string
		for _, l := range logs {
			all = append(all, l...)
		}

		return all
	})

	var rejected sync.Map // markers the remote rejects

	s.Users[0].Conn.AttrsFor = func(name []string) imap.FlagSet {
		if len(name) == 1 && strings.HasPrefix(name[0], "Drafts") {
			return imap.NewFlagSet(imap.AttrDrafts)
		}

		return nil
	}

	s.Users[0].Conn.RejectLiteral = func(lit []byte) error {
		if _, ok := rejected.Load(markerOfLiteral(lit)); ok {
			return errors.New("verif: the remote rejects this message")
		}

		return nil
	}

	ev.Parallel(workers, workers, func(w int) {
		conn := s.MustLogin(fmt.Sprintf("w%d", w))
		defer conn.Close()

		// every other worker's mailbox is a \Drafts mailbox: APPEND skips the From/Date validation there, so a
		// message without any header field can get in
		box := fmt.Sprintf("Box%d", w)
		if w%2 == 1 {
			box = fmt.Sprintf("Drafts%d", w)
		}

		conn.Cmd("CREATE " + box)

		if res := conn.Cmd("SELECT " + box); !res.OK() {
			r.Inconclusive("SELECT: %s", res)
			return
		}

		n := 0

		for i := w; i < msgs; i += workers {
			label := fmt.Sprintf("msg-%d", i)
			if r.OnlyCase != "" && r.OnlyCase != label {
				continue
			}

			if len(s.Panics()) > 0 {
				return
			}

			rng := r.Rand(label)
			g := &mimeGen{rng: rng, nl: []string{"\r\n", "\r\n", "\n"}[rng.Intn(3)], maxDepth: 1 + rng.Intn(4), eightBit: rng.Intn(2) == 0, emptyFields: true, topMessage: true}

			if rng.Intn(12) == 0 {
				g.bigLeaf = 250*1024 + rng.Intn(40*1024)
			}

			msg := g.message(0, label)
			orig := msg.Bytes()

			// how the message gets into the mailbox: appended; rejected by the remote, kept in the recovery
			// mailbox and moved / copied out of it; appended, its store file lost and downloaded again
			prov := []string{"appended", "appended", "appended", "appended", "appended", "recovered", "redownloaded", "redownloaded", "updated", "delivered"}[rng.Intn(10)]

			// a message without a single header field (the literal begins with the empty line): possible in a
			// \Drafts mailbox and through the connector
			if ((prov == "appended" && strings.HasPrefix(box, "Drafts")) || prov == "delivered") && rng.Intn(5) == 0 {
				body := "Just a note " + label + g.nl + g.words(1+rng.Intn(20)) + g.nl
				msg = &mimePart{NL: g.nl, Type: "text", Sub: "plain", TopLevel: true, Marker: label, Header: []byte(g.nl), Body: []byte(body)}
				orig = msg.Bytes()
				prov += " headerless"
			}

			if prov == "recovered" {
				rejected.Store(label, true)
			}

			var res *imapc.Result

			if strings.HasPrefix(prov, "delivered") {
				// the message arrives through the connector (MessagesCreated) instead of APPEND
				hc := s.Users[0].Conn
				id, _ := hc.MailboxID(box)
				mc, err := hc.RemoteAddMessage(orig, imap.NewFlagSet(), time.Date(2006, 1, 2, 15, 4, 5, 0, time.UTC), id)

				if err != nil {
					r.Violate("C13 wellformed-message-refused", fmt.Sprintf("imap.NewParsedMessage refuses %s: %v", label, err), label, map[string]any{"message": fmt.Sprintf("%q", shorten(string(orig), 4000))})
					continue
				}

				if ack := hc.Apply(imap.NewMessagesCreated(false, mc), srv.UpdateTimeout); !ack.Acked || ack.Err != nil {
					if !ack.Acked {
						r.Inconclusive("%s: MessagesCreated not acknowledged", label)
						return
					}

					r.Violate("C13 delivery-refused", fmt.Sprintf("MessagesCreated for %s acknowledged with %v", label, ack.Err), label, map[string]any{"message": fmt.Sprintf("%q", shorten(string(orig), 4000))})

					continue
				}

				// the session takes the update off its queue between commands; wait until it has it
				if !mustQuiesce(r, s, 0, label) {
					return
				}

				res = conn.Cmd("NOOP")
				r.Count("messages_delivered_by_the_connector", 1)
			} else {
				res = conn.Cmd("APPEND "+box+" ", imapc.Lit(orig))
			}

			rejected.Delete(label)

			if !res.OK() && prov == "recovered" && res.Status == "NO" {
				uid := uint32(0)

				if sel := conn.Cmd("SELECT " + imapc.Quote(verifhooks.RecoveryMailboxName)); sel.OK() {
					if rows, err := fetchRows(conn.Cmd("UID FETCH 1:* (UID BODY.PEEK[HEADER.FIELDS (" + markerHeader + ")])")); err == nil {
						for _, row := range rows {
							if row.Marker == label {
								uid = row.UID
							}
						}
					}
				}

				verb := []string{"MOVE", "COPY"}[rng.Intn(2)]

				if uid != 0 {
					res = conn.Cmdf("UID %s %d %s", verb, uid, box)
				}

				if sel := conn.Cmd("SELECT " + box); !sel.OK() {
					r.Inconclusive("SELECT %s: %s", box, sel)
					return
				}

				if uid == 0 || !res.OK() {
					r.Violate("C13 rejected-message-not-recoverable", fmt.Sprintf("the remote rejected the APPEND of %s; the message could not be taken out of the recovery mailbox (UID %d, %s: %s %s)", label, uid, verb, res.Status, res.Text), label, nil)
					continue
				}

				r.Count("messages_taken_out_of_the_recovery_mailbox", 1)
				prov += " " + verb
			} else if !res.OK() {
				r.Violate("C13 append-refused", fmt.Sprintf("APPEND of a well-formed generated message refused: %s", res.Text), label, map[string]any{"message": fmt.Sprintf("%q", shorten(string(orig), 4000))})
				continue
			}

			n++

			c := &c13Case{r: r, label: label, rng: rng, s: s, c: conn, seq: n, msg: msg, orig: orig, prov: prov}

			if prov == "updated" {
				// the remote replaces the message's bytes (MessageUpdated): gluon removes the message and creates it
				// again from the new literal; what is fetched afterwards must be that literal
				hc := s.Users[0].Conn
				msg2 := g.message(0, label)
				orig2 := msg2.Bytes()

				if mi, ok := hc.FindMessage("<" + label + "@"); ok {
					parsed, _ := imap.NewParsedMessage(orig2)
					hc.RemoteSetLiteral(mi.ID, orig2)
					ack := hc.Apply(imap.NewMessageUpdated(imap.Message{ID: mi.ID, Flags: mi.Flags.Clone(), Date: mi.Date}, append([]byte{}, orig2...), mi.Mailboxes, parsed, false), srv.UpdateTimeout)

					if !ack.Acked {
						r.Inconclusive("%s: MessageUpdated not acknowledged", label)
						return
					}

					if ack.Err != nil {
						r.Violate("C13 update-refused", fmt.Sprintf("MessageUpdated for %s acknowledged with %v", label, ack.Err), label, nil)
						continue
					}

					if !mustQuiesce(r, s, 0, label) {
						return
					}

					conn.Cmd("NOOP") // EXPUNGE n, n EXISTS: the replacement takes the last place again
					c.msg, c.orig = msg2, orig2
					r.Count("messages_replaced_by_MessageUpdated", 1)
				}
			}

			if prov == "redownloaded" {
				// the first fetch names the store file; with the file gone the next fetch downloads the message
				// again from the remote and every later one reads what was written back
				if full, _, ok := c.fetchOne("BODY.PEEK[]"); ok {
					if id := gluonIDLineRe.FindString(full); id != "" && removeStoreFile(s.Opts.Dir, strings.TrimSpace(strings.TrimPrefix(id, "X-Pm-Gluon-Id: "))) {
						r.Count("store_files_removed_before_fetching", 1)
					}
				}
			}

			c.run(g.nl)
			logs[w] = c.log

			if c.bad && len(s.Panics()) > 0 {
				return
			}

			if c.bad {
				// The connection may be unusable; start over on a new one.
				conn.Close()
				conn = s.MustLogin(fmt.Sprintf("w%d", w))

				if res := conn.Cmd("SELECT " + box); !res.OK() {
					return
				}
			}
		}
	})
}

func partKind(p *mimePart) string {
	switch {
	case p.IsMultipart():
		return "multipart"
	case p.IsMessage():
		return "message"
	case len(p.Header) == 0:
		return "empty-part"
	default:
		return "leaf"
	}
}

func (c *c13Case) run(nl string) {
	nlName := "CRLF"
	if nl == "\n" {
		nlName = "LF"
	}

	mark := func(rel string, p *mimePart, path string) {
		c.r.Distinct(fmt.Sprintf("%s %s depth=%d %s %s", rel, partKind(p), strings.Count(path, ".")+1, nlName, c.prov))
	}

	// 1. Whole message.
	full, _, ok := c.fetchOne("BODY.PEEK[]")
	if c.bad {
		return
	}

	if !ok {
		c.violate("C13 refused BODY[]", "FETCH BODY.PEEK[] refused")
		return
	}

	idLine := gluonIDLineRe.FindString(full)
	if idLine == "" {
		c.violate("C13 wrong-bytes BODY[] no-id-line", fmt.Sprintf("BODY[] does not start with the server's ID header line: %q", shorten(full, 120)))
		return
	}

	if full[len(idLine):] != string(c.orig) {
		d := firstDiffAt([]byte(full[len(idLine):]), c.orig)
		c.violate("C13 wrong-bytes BODY[]", fmt.Sprintf("BODY[] minus the server's ID line differs from the appended message at offset %d: got %q want %q", d, around(full[len(idLine):], d), around(string(c.orig), d)))

		return
	}

	mark("BODY[]", c.msg, "")

	withID := []byte(full)
	hdrWithID := append([]byte(idLine), c.msg.Header...)

	if !c.expectBytes("RFC822.SIZE", []byte(strconv.Itoa(len(full))), "RFC822.SIZE") {
		return
	}

	if !c.expectBytes("BODY.PEEK[HEADER]", hdrWithID, "BODY[HEADER]") || !c.expectBytes("BODY.PEEK[TEXT]", c.msg.Body, "BODY[TEXT]") {
		return
	}

	mark("HEADER+TEXT", c.msg, "")

	if c.rng.Intn(3) == 0 {
		if !c.expectBytes("RFC822.HEADER", hdrWithID, "RFC822.HEADER") || !c.expectBytes("RFC822.TEXT", c.msg.Body, "RFC822.TEXT") || !c.expectBytes("RFC822", withID, "RFC822") {
			return
		}

		mark("RFC822*", c.msg, "")
	}

	// 2. Every part. (A message whose own content type is message/rfc822 has no unambiguous part numbers: only
	// the whole-message relations, partials of them and the header-field partition are checked for it.)
	secs := sections(c.msg)
	if c.msg.IsMessage() {
		secs = nil
		mark("top-level message/rfc822", c.msg, "")
	}

	type target struct {
		att  string
		want []byte
		kind string
	}

	var targets []target

	targets = append(targets, target{"BODY.PEEK[]", withID, "BODY[]"}, target{"BODY.PEEK[HEADER]", hdrWithID, "BODY[HEADER]"}, target{"BODY.PEEK[TEXT]", c.msg.Body, "BODY[TEXT]"})

	if !c.msg.IsMultipart() && !c.msg.IsMessage() {
		targets = append(targets, target{"BODY.PEEK[1]", c.msg.Body, "BODY[1] single-part"})
	}

	for _, sec := range secs {
		targets = append(targets, target{fmt.Sprintf("BODY.PEEK[%s]", sec.Path), sec.Part.Body, "BODY[p] " + partKind(sec.Part)})
		targets = append(targets, target{fmt.Sprintf("BODY.PEEK[%s.MIME]", sec.Path), sec.Part.Header, "BODY[p.MIME] " + partKind(sec.Part)})

		if sec.Part.IsMessage() {
			targets = append(targets, target{fmt.Sprintf("BODY.PEEK[%s.HEADER]", sec.Path), sec.Part.Embedded.Header, "BODY[p.HEADER] message"})
			targets = append(targets, target{fmt.Sprintf("BODY.PEEK[%s.TEXT]", sec.Path), sec.Part.Embedded.Body, "BODY[p.TEXT] message"})

			if !sec.Part.Embedded.IsMultipart() {
				targets = append(targets, target{fmt.Sprintf("BODY.PEEK[%s.1]", sec.Path), sec.Part.Embedded.Body, "BODY[p.1] message-with-single-part"})
			}
		}
	}

	for _, t := range targets[3:] {
		if !c.expectBytes(t.att, t.want, t.kind) {
			return
		}

		c.r.Distinct(fmt.Sprintf("%s depth=%d %s", t.kind, strings.Count(t.att, "."), nlName))
	}

	// 3. Partials on PRNG-chosen sections.
	for i := 0; i < 6 && !c.bad; i++ {
		t := targets[c.rng.Intn(len(targets))]
		L := int64(len(t.want))
		cands := []int64{0, 1, L - 1, L, L + 1, 1 << 31, 1<<63 - 1, int64(c.rng.Intn(int(L) + 1))}
		o := cands[c.rng.Intn(len(cands))]
		n := cands[1+c.rng.Intn(len(cands)-1)]

		if o < 0 {
			o = 0
		}

		if n <= 0 {
			n = 1
		}

		var want []byte

		if o < L {
			end := L
			if n < L-o {
				end = o + n
			}

			want = t.want[o:end]
		}

		att := fmt.Sprintf("%s<%d.%d>", t.att, o, n)

		got, key, ok := c.fetchOne(att)
		if c.bad {
			return
		}

		cls := func(v int64) string {
			switch {
			case v == 0:
				return "0"
			case v < L:
				return "<len"
			case v == L:
				return "len"
			case v == L+1:
				return "len+1"
			case v >= 1<<62:
				return "2^63-1"
			default:
				return ">len"
			}
		}

		c.r.Distinct(fmt.Sprintf("partial o=%s n=%s", cls(o), cls(n)))

		if !ok {
			c.violate(fmt.Sprintf("C13 refused partial o=%s n=%s", cls(o), cls(n)), fmt.Sprintf("FETCH %s refused (section has %d bytes)", att, L))
			return
		}

		if got != string(want) {
			c.violate(fmt.Sprintf("C13 wrong-bytes partial o=%s n=%s", cls(o), cls(n)), fmt.Sprintf("FETCH %s on a section of %d bytes returned %d bytes %q, expected the slice of %d bytes %q", att, L, len(got), shorten(got, 80), len(want), shorten(string(want), 80)))
			return
		}

		if !strings.Contains(key, fmt.Sprintf("<%d>", o)) {
			c.violate("C13 partial-origin-missing", fmt.Sprintf("FETCH %s: response item %q does not carry the origin <%d>", att, key, o))
			return
		}
	}

	// 3b. Partials whose origin does not fit 64 (or 32) bits but would alias a real offset if the number
	// parser wrapped: "t + k*2^w". Such an origin lies beyond every section, so the only acceptable answers are
	// a refusal (number = 32 bit in RFC 3501) or an empty string; bytes of the section mean the number was
	// re-interpreted. A wrapped count is judged the same way against the slice from a real origin.
	for i := 0; i < 2 && !c.bad; i++ {
		t := targets[c.rng.Intn(len(targets))]
		L := int64(len(t.want))

		if L == 0 {
			continue
		}

		w := []uint{32, 64, 64}[c.rng.Intn(3)]
		alias := new(big.Int).Lsh(big.NewInt(int64(1+c.rng.Intn(12))), w)
		alias.Add(alias, big.NewInt(int64(c.rng.Intn(int(L)))))

		if c.rng.Intn(3) == 0 {
			// the decimal text of 2^63-1 / 2^64-1 with one digit appended
			b := []string{"9223372036854775807", "18446744073709551615"}[c.rng.Intn(2)]
			alias.SetString(b[:len(b)-1]+fmt.Sprint(8+c.rng.Intn(2))+fmt.Sprint(c.rng.Intn(10)), 10)
		}

		wrapCount := c.rng.Intn(3) == 0

		att := fmt.Sprintf("%s<%s.%d>", t.att, alias, 1+c.rng.Intn(int(L)))
		want := ""

		if wrapCount {
			// a count that wraps to something small must not cut the slice short
			o := int64(c.rng.Intn(int(L)))
			att = fmt.Sprintf("%s<%d.%s>", t.att, o, alias)
			want = string(t.want[o:])
		}

		got, _, ok := c.fetchOne(att)
		if c.bad {
			return
		}

		c.r.Distinct(fmt.Sprintf("partial alias w=%d count=%v refused=%v", w, wrapCount, !ok))

		if ok {
			c.r.Count("aliased_partials_answered", 1)
		} else {
			c.r.Count("aliased_partials_refused", 1)
		}

		if ok && got != want {
			c.violate(fmt.Sprintf("C13 aliased partial count=%v", wrapCount), fmt.Sprintf("FETCH %s on a section of %d bytes returned %d bytes %q; a number of that size can only be refused or mean %d bytes", att, L, len(got), shorten(got, 80), len(want)))
			return
		}
	}

	// 4. HEADER.FIELDS / HEADER.FIELDS.NOT partition the header.
	type hdrTarget struct {
		prefix string
		header []byte
	}

	hts := []hdrTarget{{"", hdrWithID}}

	for _, sec := range secs {
		if sec.Part.IsMessage() {
			hts = append(hts, hdrTarget{sec.Path + ".", sec.Part.Embedded.Header})
		}
	}

	for i := 0; i < 3 && !c.bad; i++ {
		ht := hts[c.rng.Intn(len(hts))]
		entries := splitHeaderEntries(ht.header)

		var names []string
		for _, e := range entries {
			if e.name != "" {
				names = append(names, e.name)
			}
		}

		var pick []string

		for k := 0; k < 1+c.rng.Intn(3); k++ {
			if len(names) > 0 && c.rng.Intn(4) != 0 {
				pick = append(pick, caseMix(c.rng, names[c.rng.Intn(len(names))]))
			} else {
				pick = append(pick, "X-Not-There")
			}
		}

		list := strings.Join(pick, " ")

		in, _, ok1 := c.fetchOne(fmt.Sprintf("BODY.PEEK[%sHEADER.FIELDS (%s)]", ht.prefix, list))
		if c.bad {
			return
		}

		out, _, ok2 := c.fetchOne(fmt.Sprintf("BODY.PEEK[%sHEADER.FIELDS.NOT (%s)]", ht.prefix, list))
		if c.bad {
			return
		}

		if !ok1 || !ok2 {
			c.violate("C13 refused HEADER.FIELDS", fmt.Sprintf("HEADER.FIELDS / .NOT (%s) refused", list))
			return
		}

		c.r.Distinct(fmt.Sprintf("HEADER.FIELDS embedded=%v %s", ht.prefix != "", nlName))

		if msg := checkFieldPartition(entries, splitHeaderEntries([]byte(in)), splitHeaderEntries([]byte(out)), pick); msg != "" {
			c.violate("C13 header-fields-partition", fmt.Sprintf("HEADER.FIELDS (%s) / HEADER.FIELDS.NOT do not partition the header: %s; header=%q fields=%q not=%q", list, msg, shorten(string(ht.header), 600), shorten(in, 400), shorten(out, 400)))
			return
		}
	}

	if !c.bad && c.r.WantSample() && len(secs) >= 3 {
		var paths []string
		for _, sec := range secs {
			paths = append(paths, sec.Path+"="+partKind(sec.Part))
		}

		c.r.Sample(map[string]any{"case": c.label, "message_bytes": len(c.orig), "line_ending": nlName, "parts": paths, "fetches": len(c.log)})
	}
}

type hdrEntry struct {
	name string // lower-case, "" for the terminating empty line
	raw  string
}

// splitHeaderEntries splits a header block into fields (a field = its line and continuation lines).
func splitHeaderEntries(h []byte) []hdrEntry {
	var (
		out []hdrEntry
		cur []byte
	)

	flush := func() {
		if cur == nil {
			return
		}

		name := ""
		if i := bytes.IndexByte(cur, ':'); i > 0 {
			name = strings.ToLower(strings.TrimSpace(string(cur[:i])))
		}

		out = append(out, hdrEntry{name: name, raw: string(cur)})
		cur = nil
	}

	for len(h) > 0 {
		i := bytes.IndexByte(h, '\n')

		var line []byte
		if i < 0 {
			line, h = h, nil
		} else {
			line, h = h[:i+1], h[i+1:]
		}

		if len(bytes.TrimRight(line, "\r\n")) == 0 {
			flush()
			out = append(out, hdrEntry{raw: string(line)})

			continue
		}

		if (line[0] == ' ' || line[0] == '\t') && cur != nil {
			cur = append(cur, line...)
			continue
		}

		flush()
		cur = append([]byte{}, line...)
	}

	flush()

	return out
}

func checkFieldPartition(all, in, out []hdrEntry, pick []string) string {
	want := map[string]bool{}
	for _, p := range pick {
		want[strings.ToLower(p)] = true
	}

	var wantIn, wantOut []string

	for _, e := range all {
		if e.name == "" {
			continue
		}

		if want[e.name] {
			wantIn = append(wantIn, e.raw)
		} else {
			wantOut = append(wantOut, e.raw)
		}
	}

	fields := func(es []hdrEntry) []string {
		var f []string
		for _, e := range es {
			if e.name != "" {
				f = append(f, e.raw)
			}
		}

		return f
	}

	if g := fields(in); fmt.Sprint(g) != fmt.Sprint(wantIn) {
		return fmt.Sprintf("HEADER.FIELDS returned fields %q, expected %q", g, wantIn)
	}

	if g := fields(out); fmt.Sprint(g) != fmt.Sprint(wantOut) {
		return fmt.Sprintf("HEADER.FIELDS.NOT returned fields %q, expected %q", g, wantOut)
	}

	return ""
}

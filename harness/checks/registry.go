// Package checks contains one runtime-monitoring check per property.
package checks

import (
	"fmt"
	"os"
	"path/filepath"
	"runtime/debug"
	"sort"

	"verifharness/ev"
)

// Check is a registered property check.
type Check struct {
	ID    string
	Level string
	Run   func(r *ev.Run)
}

var registry = map[string]Check{}

func register(id, level string, fn func(r *ev.Run)) {
	registry[id] = Check{ID: id, Level: level, Run: fn}
}

// IDs lists the registered checks.
func IDs() []string {
	var ids []string
	for id := range registry {
		ids = append(ids, id)
	}

	sort.Strings(ids)

	return ids
}

// ChildModes are entry points for child processes (crash, hostile-input and race runs).
var ChildModes = map[string]func(args []string) int{}

// Main runs one check and returns the exit code.
func Main(id, tier, replay string) int {
	c, ok := registry[id]
	if !ok {
		fmt.Fprintf(os.Stderr, "unknown check %q; have %v\n", id, IDs())
		return 2
	}

	r := ev.NewRun(id, tier, c.Level)

	if replay != "" {
		ri, err := ev.LoadReplay(replay)
		if err != nil {
			fmt.Fprintf(os.Stderr, "replay: %v\n", err)
			return 2
		}

		r.Seed = ri.Seed
		r.Tier = ri.Tier
		r.OnlyCase = ri.Case
		fmt.Printf("replaying case %q of %s (seed %d, tier %s)\n", ri.Case, id, ri.Seed, ri.Tier)
	}

	defer r.Cleanup()

	func() {
		defer func() {
			if v := recover(); v != nil {
				// A panic of the harness itself is not a verdict about gluon.
				fmt.Fprintf(os.Stderr, "harness panic in %s: %v\n%s\n", id, v, debug.Stack())
				r.Inconclusive("harness panic: %v", v)
				r.Set("harness_panic", fmt.Sprint(v))
			}
		}()

		c.Run(r)
	}()

	return r.Finish()
}

// caseDir returns a fresh scratch directory for one case.
func caseDir(r *ev.Run, label string) string {
	dir := filepath.Join(r.WorkDir(), label)
	_ = os.RemoveAll(dir)
	_ = os.MkdirAll(dir, 0o755)

	return dir
}

package checks

import (
	"fmt"
	"math/rand"
	"os"
	"regexp"
	"sort"
	"strconv"
	"strings"
	"time"

	"verifharness/ev"
	"verifharness/imapc"
	"verifharness/srv"
)

const markerHeader = "X-Verif-Id"

// simpleMessage builds a small RFC 5322 message that carries a unique marker.
func simpleMessage(marker string, rng *rand.Rand) []byte {
	var b strings.Builder

	fmt.Fprintf(&b, "From: Alice %s <alice@example.com>\r\n", marker)
	fmt.Fprintf(&b, "To: bob@example.com\r\n")
	fmt.Fprintf(&b, "Subject: message %s\r\n", marker)
	fmt.Fprintf(&b, "Date: Mon, 02 Jan 2006 15:04:05 +0000\r\n")
	fmt.Fprintf(&b, "Message-Id: <%s@verif.example>\r\n", marker)
	fmt.Fprintf(&b, "%s: %s\r\n", markerHeader, marker)
	b.WriteString("\r\n")

	lines := 1
	if rng != nil {
		lines = 1 + rng.Intn(4)
	}

	for i := 0; i < lines; i++ {
		fmt.Fprintf(&b, "body line %d of %s\r\n", i, marker)
	}

	return []byte(b.String())
}

// MsgView is one message as a fresh session sees it.
type MsgView struct {
	Seq    int
	UID    uint32
	Flags  []string // lower-cased, sorted, without \recent
	Recent bool
	Marker string
	Body   []byte
	Size   int64 // RFC822.SIZE when fetched with the body, else -1
}

func (m MsgView) FlagKey() string { return strings.Join(m.Flags, " ") }

// normFlags lower-cases, drops \Recent and sorts.
func normFlags(flags []string) ([]string, bool) {
	out := make([]string, 0, len(flags))
	recent := false

	for _, f := range flags {
		l := strings.ToLower(f)
		if l == `\recent` {
			recent = true
			continue
		}

		out = append(out, l)
	}

	sort.Strings(out)

	return out, recent
}

// BoxView is a mailbox as a fresh session sees it.
type BoxView struct {
	Name        string
	Exists      int
	UIDValidity uint32
	UIDNext     uint32
	Msgs        []MsgView
}

func (b *BoxView) Markers() []string {
	out := make([]string, len(b.Msgs))
	for i, m := range b.Msgs {
		out[i] = m.Marker
	}

	return out
}

func (b *BoxView) UIDs() []uint32 {
	out := make([]uint32, len(b.Msgs))
	for i, m := range b.Msgs {
		out[i] = m.UID
	}

	return out
}

// Summary renders "uid:marker[flags]" per message.
func (b *BoxView) Summary() []string {
	out := make([]string, len(b.Msgs))
	for i, m := range b.Msgs {
		out[i] = fmt.Sprintf("%d:%s[%s]", m.UID, m.Marker, m.FlagKey())
	}

	return out
}

func markerFromHeaderFields(s string) string {
	for _, line := range strings.Split(s, "\n") {
		line = strings.TrimRight(line, "\r")
		if i := strings.IndexByte(line, ':'); i > 0 && strings.EqualFold(strings.TrimSpace(line[:i]), markerHeader) {
			return strings.TrimSpace(line[i+1:])
		}
	}

	return ""
}

// selectInfo extracts EXISTS / UIDVALIDITY / UIDNEXT from a SELECT or EXAMINE result.
func selectInfo(res *imapc.Result) (exists int, uidValidity, uidNext uint32) {
	exists = -1

	for _, u := range res.Untagged {
		if u.Kind == "EXISTS" && u.HasNum {
			exists = int(u.Num)
		}

		if u.Kind == "OK" {
			f := strings.Fields(u.Code)
			if len(f) == 2 {
				if v, err := strconv.ParseUint(f[1], 10, 32); err == nil {
					switch strings.ToUpper(f[0]) {
					case "UIDVALIDITY":
						uidValidity = uint32(v)
					case "UIDNEXT":
						uidNext = uint32(v)
					}
				}
			}
		}
	}

	return
}

// fetchRows turns the untagged FETCH responses of a result into message views.
func fetchRows(res *imapc.Result) ([]MsgView, error) {
	var out []MsgView

	for _, u := range res.Untagged {
		if u.Kind != "FETCH" {
			continue
		}

		if u.Malformed != "" {
			return nil, fmt.Errorf("malformed FETCH response %q: %s", u.String(), u.Malformed)
		}

		items := u.FetchItems()
		mv := MsgView{Seq: int(u.Num)}

		if n, ok := items["UID"]; ok {
			v, err := strconv.ParseUint(n.Str, 10, 32)
			if err != nil {
				return nil, fmt.Errorf("bad UID %q", n.Str)
			}

			mv.UID = uint32(v)
		}

		if n, ok := items["FLAGS"]; ok {
			mv.Flags, mv.Recent = normFlags(n.Strings())
		}

		mv.Size = -1
		if n, ok := items["RFC822.SIZE"]; ok {
			if v, err := strconv.ParseInt(n.Str, 10, 64); err == nil {
				mv.Size = v
			}
		}

		for k, v := range items {
			if strings.HasPrefix(k, "BODY[HEADER.FIELDS") {
				mv.Marker = markerFromHeaderFields(v.Str)
			}

			if k == "BODY[]" {
				mv.Body = []byte(v.Str)
				mv.Marker = markerFromHeaderFields(headerPart(v.Str))
			}
		}

		out = append(out, mv)
	}

	return out, nil
}

func headerPart(s string) string {
	if i := strings.Index(s, "\r\n\r\n"); i >= 0 {
		return s[:i]
	}

	if i := strings.Index(s, "\n\n"); i >= 0 {
		return s[:i]
	}

	return s
}

// freshView opens a new session, EXAMINEs the mailbox and fetches everything.
func freshView(s *srv.Server, user int, mailbox string, withBody bool) (*BoxView, error) {
	_, before, _ := s.G.VerifPending(s.Users[user].ID)

	c, err := s.Login("fresh", user)
	if err != nil {
		return nil, err
	}

	v, err := viewOn(c, mailbox, withBody, true)

	c.Close()

	// Wait until the server has torn the session down. Tearing a session down reads the
	// snapshots of the user's other sessions without synchronisation (a data race that is C19's
	// subject and kills the process when it hits a concurrent map write); sequential checks must
	// not overlap it with their next command.
	for i := 0; i < 5000; i++ {
		if _, now, _ := s.G.VerifPending(s.Users[user].ID); now <= before {
			break
		}

		time.Sleep(100 * time.Microsecond)
	}

	return v, err
}

// viewOn EXAMINEs (or uses the current selection of) a connection and fetches everything.
func viewOn(c *imapc.Conn, mailbox string, withBody, examine bool) (*BoxView, error) {
	bv := &BoxView{Name: mailbox}

	if examine {
		res := c.Cmdf("EXAMINE %s", imapc.Quote(mailbox))
		if !res.OK() {
			return nil, fmt.Errorf("EXAMINE %q: %s", mailbox, res)
		}

		bv.Exists, bv.UIDValidity, bv.UIDNext = selectInfo(res)
	}

	if examine && bv.Exists == 0 {
		return bv, nil
	}

	what := "(UID FLAGS BODY.PEEK[HEADER.FIELDS (" + markerHeader + ")])"
	if withBody {
		what = "(UID FLAGS RFC822.SIZE BODY.PEEK[])"
	}

	res := c.Cmd("FETCH 1:* " + what)
	if !res.OK() {
		if res.BAD() && !examine {
			// Empty selection: "1:*" is not valid on an empty mailbox.
			return bv, nil
		}

		return nil, fmt.Errorf("FETCH 1:*: %s", res)
	}

	rows, err := fetchRows(res)
	if err != nil {
		return nil, err
	}

	// FETCH responses may come in any order; the set of rows is what counts.
	sort.SliceStable(rows, func(i, j int) bool { return rows[i].Seq < rows[j].Seq })

	bv.Msgs = rows

	if !examine {
		bv.Exists = len(rows)
	}

	for i, m := range rows {
		if m.Seq != i+1 {
			return nil, fmt.Errorf("fresh FETCH 1:* rows not dense: row %d has seq %d", i, m.Seq)
		}
	}

	if examine && bv.Exists != len(rows) {
		return nil, fmt.Errorf("EXAMINE said %d EXISTS, FETCH 1:* returned %d rows", bv.Exists, len(rows))
	}

	return bv, nil
}

// listNames returns the mailbox names LIST "" * yields (decoded as sent on the wire).
func listNames(c *imapc.Conn, cmd string) ([]string, error) {
	res := c.Cmd(cmd)
	if !res.OK() {
		return nil, fmt.Errorf("%s: %s", cmd, res)
	}

	var out []string

	for _, u := range res.Untagged {
		if (u.Kind == "LIST" || u.Kind == "LSUB") && len(u.Items) >= 3 {
			out = append(out, u.Items[2].Str)
		}
	}

	return out, nil
}

func sortedCopy(s []string) []string {
	out := append([]string{}, s...)
	sort.Strings(out)

	return out
}

func eqStrings(a, b []string) bool {
	if len(a) != len(b) {
		return false
	}

	for i := range a {
		if a[i] != b[i] {
			return false
		}
	}

	return true
}

func shorten(s string, n int) string {
	if len(s) > n {
		return s[:n] + fmt.Sprintf("...(%d bytes)", len(s))
	}

	return s
}

const quiesceTimeout = 60 * time.Second

// mustQuiesce waits for the barrier; a timeout is inconclusive, not a violation.
func mustQuiesce(r *ev.Run, s *srv.Server, user int, where string) bool {
	if err := s.Quiesce(user, quiesceTimeout); err != nil {
		r.Inconclusive("quiescence barrier not reached (%s): %v", where, err)
		return false
	}

	return true
}

// startServer starts a server in a fresh case directory; a failure is a harness problem.
func startServer(r *ev.Run, label string, mod func(o *srv.Options)) (*srv.Server, error) {
	opts := srv.Options{Dir: caseDir(r, label)}
	if mod != nil {
		mod(&opts)
	}

	return srv.Start(opts)
}

func osRemoveAll(dir string) error { return os.RemoveAll(dir) }

var gluonFrameRe = regexp.MustCompile(`(?m)^(github\.com/ProtonMail/gluon[^\s(]*)`)

// finishServer destroys an in-process server and reports panics recovered from its goroutines
// (with gluon's default panic handler each of them would have killed the process).
func finishServer(r *ev.Run, s *srv.Server, label string, log func() []string) {
	panics := s.Panics()
	s.Destroy()

	for _, p := range panics {
		fn := "?"

		for _, m := range gluonFrameRe.FindAllStringSubmatch(p, -1) {
			if !strings.Contains(m[1], "/async.") && !strings.Contains(m[1], "/srv.") {
				fn = m[1]
				break
			}
		}

		var l []string
		if log != nil {
			l = log()
		}

		r.Violate(fmt.Sprintf("%s server-panic %s %s", r.ID, fn, firstLine(p)), "a server goroutine panicked (with the default panic handler the whole server process dies): "+firstLine(p), label,
			map[string]any{"stack": firstLines(p, 40), "log": l})
	}
}

package checks

import (
	"context"
	"errors"
	"fmt"
	"math/rand"
	"net"
	"os"
	"path/filepath"
	"runtime"
	"strings"
	"sync"
	"sync/atomic"
	"syscall"
	"time"

	"github.com/ProtonMail/gluon/imap"

	"verifharness/ev"
	"verifharness/imapc"
	"verifharness/srv"
)

func init() {
	register("C19", "exploration", runC19)
	ChildModes["c19"] = c19Child
}

func runC19(r *ev.Run) {
	r.SetRule("a race-detector build of the harness runs stress rounds in a child process: a server with two users, 6-12 sessions per round issuing random commands on shared mailboxes (SELECT/EXAMINE, FETCH, STORE, COPY, MOVE, EXPUNGE, APPEND, SEARCH, IDLE, NOOP, STATUS, LIST, CREATE/RENAME/DELETE), sessions that LOGOUT and come back, sessions that drop the socket in the middle of a command, connections that never log in, connector updates of every kind from two goroutines, then RemoveUser of one user while its sessions are busy and Close of the server, each behind a watchdog. Oracles: no race report (reports de-duplicated by the pair of outermost gluon frames); no server panic; every client call, RemoveUser and Close return (a watchdog expiry counts only when the process used almost no CPU while waiting, i.e. it is blocked, not slow); after Close (listener closed, Serve context NOT cancelled) the goroutine count is back to what it was before the server was created. distinct = distinct (command kind, outcome) pairs of the children plus distinct race pairs")
	r.Assume("a watchdog expiry with the process still consuming CPU is inconclusive; goroutines are given 15 s to end after Close before the count is taken")

	rounds := r.Pick(96, 1600)
	children := r.Pick(4, 8)

	type result struct {
		cr  *ChildResult
		dir string
	}

	results := make([]result, children)

	ev.Parallel(children, 4, func(i int) {
		dir := filepath.Join(r.WorkDir(), fmt.Sprintf("c19-%d", i))
		cr := runChild(dir, true, 40*time.Minute, nil, "c19", dir, fmt.Sprint(r.Seed+int64(i)*7919), fmt.Sprint(rounds/children+1))
		results[i] = result{cr, dir}
	})

	races := map[string]string{}
	rawRaces := 0

	for i, res := range results {
		cr := res.cr
		r.Eval(1)
		rawRaces += cr.RaceRaw

		for _, blk := range cr.RaceBlocks {
			races[raceKey(blk)] = blk
		}

		for _, line := range strings.Split(cr.Stdout, "\n") {
			switch {
			case strings.HasPrefix(line, "OUTCOME "):
				r.Distinct(strings.TrimPrefix(line, "OUTCOME "))
			case strings.HasPrefix(line, "ROUNDS "):
				var n, ops int
				fmt.Sscan(strings.TrimPrefix(line, "ROUNDS "), &n, &ops)
				r.Count("rounds", n)
				r.Count("client_commands", ops)
			}
		}

		section := func(marker string) string {
			j := strings.Index(cr.Stdout, marker)
			if j < 0 {
				return ""
			}

			return shorten(cr.Stdout[j:], 30000)
		}

		switch {
		case strings.Contains(cr.Stdout, "BLOCKED "):
			what := firstLine(section("BLOCKED "))
			r.Violate("C19 blocked "+strings.Join(strings.Fields(what)[1:minInt(4, len(strings.Fields(what)))], " "), "a call never returned and the process was idle while waiting: "+what, fmt.Sprintf("child-%d", i), map[string]any{"goroutines": section("BLOCKED ")})
		case strings.Contains(cr.Stdout, "LEAK "):
			what := firstLine(section("LEAK "))
			r.Violate("C19 goroutines-left-after-close", "after Server.Close returned (listener closed, Serve context alive) goroutines were left: "+what, fmt.Sprintf("child-%d", i), map[string]any{"goroutines": section("LEAK ")})
		case strings.Contains(cr.Stdout, "PANIC "):
			what := firstLine(section("PANIC "))
			r.Violate("C19 server-panic "+shorten(what, 100), "a server goroutine panicked during the stress: "+what, fmt.Sprintf("child-%d", i), map[string]any{"panic": section("PANIC ")})
		case strings.Contains(cr.Stderr, "fatal error:"):
			what := firstLine(cr.Stderr[strings.Index(cr.Stderr, "fatal error:"):])
			r.Violate("C19 "+what, "the process died with a Go runtime fatal error (cannot be recovered): "+what, fmt.Sprintf("child-%d", i), map[string]any{"stderr": firstPanicLines(cr.Stderr)})
		case strings.Contains(cr.Stdout, "SLOW "):
			r.Inconclusive("child %d: %s", i, firstLine(section("SLOW ")))
		case cr.TimedOut:
			r.Inconclusive("child %d hit the 40 min watchdog", i)
		case !strings.Contains(cr.Stdout, "ROUNDS "):
			r.Inconclusive("child %d ended early: exit %d %s: %s", i, cr.ExitCode, cr.Signal, lastLines(cr.Stderr, 5))
		}
	}

	r.Count("race_reports_raw", rawRaces)

	for key, blk := range races {
		r.Violate("C19 "+key, "data race: "+key, "race", map[string]any{"report": firstLines(blk, 70)})
		r.Distinct(key)
	}
}

// ---- child ---------------------------------------------------------------------------------------

type c19State struct {
	mu       sync.Mutex
	outcomes map[string]bool
	ops      int64
}

func (c *c19State) outcome(s string) {
	c.mu.Lock()
	c.outcomes[s] = true
	c.mu.Unlock()
}

func cpuMillis() int64 {
	var ru syscall.Rusage

	_ = syscall.Getrusage(syscall.RUSAGE_SELF, &ru)

	return (ru.Utime.Sec+ru.Stime.Sec)*1000 + int64(ru.Utime.Usec+ru.Stime.Usec)/1000
}

func allStacks() string {
	buf := make([]byte, 8<<20)
	n := runtime.Stack(buf, true)

	return string(buf[:n])
}

// guarded runs fn behind a watchdog. When it expires the verdict depends on whether the process is
// blocked (next to no CPU during the last 20 s) or merely slow.
func guarded(what string, limit time.Duration, fn func()) bool {
	done := make(chan struct{})

	go func() {
		defer close(done)
		fn()
	}()

	select {
	case <-done:
		return true
	case <-time.After(limit):
	}

	c1 := cpuMillis()

	select {
	case <-done:
		return true
	case <-time.After(20 * time.Second):
	}

	used := cpuMillis() - c1

	if used < 500 {
		os.Stdout.WriteString(fmt.Sprintf("BLOCKED %s did not return within %v and the process used %d ms CPU in the following 20 s\n%s\n", what, limit, used, allStacks()))
	} else {
		os.Stdout.WriteString(fmt.Sprintf("SLOW %s did not return within %v but the process used %d ms CPU in the following 20 s\n", what, limit, used))
	}

	os.Exit(0)

	return false
}

func c19Child(args []string) int {
	if len(args) < 3 {
		return 2
	}

	dir := args[0]

	var seed int64

	var rounds int

	fmt.Sscan(args[1], &seed)
	fmt.Sscan(args[2], &rounds)

	st := &c19State{outcomes: map[string]bool{}}

	for round := 0; round < rounds; round++ {
		c19Round(st, filepath.Join(dir, fmt.Sprintf("r%d", round)), seed*1000+int64(round))
		_ = os.RemoveAll(filepath.Join(dir, fmt.Sprintf("r%d", round)))
	}

	for o := range st.outcomes {
		os.Stdout.WriteString("OUTCOME " + o + "\n")
	}

	os.Stdout.WriteString(fmt.Sprintf("ROUNDS %d %d\n", rounds, atomic.LoadInt64(&st.ops)))

	return 0
}

var c19Users = []srv.UserSpec{
	{Usernames: []string{"user"}, Password: "pass", UserID: "u1"},
	{Usernames: []string{"other"}, Password: "pass2", UserID: "u2"},
}

func c19Round(st *c19State, dir string, seed int64) {
	rng := rand.New(rand.NewSource(seed))

	// let goroutines of the previous round end
	runtime.GC()

	base := runtime.NumGoroutine()

	s, err := srv.Start(srv.Options{Dir: dir, Users: c19Users, IdleBulk: 0})
	if err != nil {
		os.Stdout.WriteString("SLOW start failed: " + err.Error() + "\n")
		os.Exit(0)
	}

	for _, u := range s.Users {
		u.Conn.RejectUnknownMessages = true
	}

	// content
	for u := range c19Users {
		cn, err := s.Login("setup", u)
		if err != nil {
			continue
		}

		cn.Cmd("CREATE Work")
		cn.Cmd("CREATE Other")

		for i := 0; i < 6; i++ {
			cn.Cmd(fmt.Sprintf("APPEND %s ", []string{"INBOX", "Work"}[i%2]), imapc.Lit(simpleMessage(fmt.Sprintf("c19-%d-%d", u, i), rng)))
		}

		cn.Close()
	}

	var wg sync.WaitGroup

	stop := make(chan struct{})
	nSess := 6 + rng.Intn(7)
	opsPer := 25 + rng.Intn(25)

	for i := 0; i < nSess; i++ {
		wg.Add(1)

		go func(i int) {
			defer wg.Done()
			c19Session(st, s, rand.New(rand.NewSource(seed*100+int64(i))), i, opsPer, stop)
		}(i)
	}

	// connections that never log in (some say something, some nothing)
	var idle []*imapc.Conn

	for i := 0; i < 1+rng.Intn(3); i++ {
		if cn, err := s.Dial("idle"); err == nil {
			if i%2 == 0 {
				cn.Cmd("CAPABILITY")
			}

			idle = append(idle, cn)
		}
	}

	// connector updates
	for g := 0; g < 2; g++ {
		wg.Add(1)

		go func(g int) {
			defer wg.Done()

			urng := rand.New(rand.NewSource(seed*100 + 50 + int64(g)))
			n := 0

			for k := 0; k < 30; k++ {
				select {
				case <-stop:
					return
				default:
				}

				u := s.Users[urng.Intn(len(s.Users))]
				conn := u.Conn

				boxes := conn.MailboxNames()

				var ids []imap.MailboxID
				for id := range boxes {
					ids = append(ids, id)
				}

				if len(ids) == 0 {
					continue
				}

				var up imap.Update

				switch urng.Intn(6) {
				case 0, 1:
					n++

					mc, err := conn.RemoteAddMessage(simpleMessage(fmt.Sprintf("c19-up-%d-%d", g, n), urng), imap.NewFlagSet(), c06Date, ids[urng.Intn(len(ids))])
					if err != nil {
						continue
					}

					up = imap.NewMessagesCreated(true, mc)
				case 2:
					if all := conn.AllMessages(); len(all) > 0 {
						m := all[urng.Intn(len(all))]
						up = imap.NewMessageFlagsUpdated(m.ID, imap.NewFlagSet(imap.FlagSeen))
					}
				case 3:
					if all := conn.AllMessages(); len(all) > 0 {
						m := all[urng.Intn(len(all))]
						up = imap.NewMessageMailboxesUpdated(m.ID, []imap.MailboxID{ids[urng.Intn(len(ids))]}, m.Flags)
					}
				case 4:
					if all := conn.AllMessages(); len(all) > 0 {
						m := all[urng.Intn(len(all))]
						conn.RemoteDeleteMessage(m.ID)
						up = imap.NewMessagesDeleted(m.ID)
					}
				default:
					up = imap.NewNoop()
				}

				if up == nil {
					continue
				}

				ack := conn.Apply(up, 20*time.Second)
				st.outcome(fmt.Sprintf("update %T acked=%v", up, ack.Acked))

				if !ack.Acked && ack.Err != nil && strings.Contains(ack.Err.Error(), "closed") {
					return
				}
			}
		}(g)
	}

	// let them run, then remove a user and close the server while they are still at it
	wgDone := make(chan struct{})

	go func() {
		wg.Wait()
		close(wgDone)
	}()

	select {
	case <-wgDone:
	case <-time.After(time.Duration(200+rng.Intn(1500)) * time.Millisecond):
	}

	if rng.Intn(2) == 0 {
		guarded("RemoveUser", 120*time.Second, func() {
			ctx, cancel := context.WithTimeout(context.Background(), 10*time.Minute)
			defer cancel()

			err := s.G.RemoveUser(ctx, "u2", rng.Intn(2) == 0)
			st.outcome(fmt.Sprintf("RemoveUser err=%v", err != nil))
		})
	}

	if rng.Intn(3) == 0 {
		// sometimes everything has ended before Close
		close(stop)
		<-wgDone
	}

	guarded("Server.Close", 180*time.Second, func() {
		_ = s.L.Close()

		ctx, cancel := context.WithTimeout(context.Background(), 10*time.Minute)
		defer cancel()

		err := s.G.Close(ctx)
		st.outcome(fmt.Sprintf("Close err=%v", err != nil))
	})

	select {
	case <-stop:
	default:
		close(stop)
	}

	guarded("client goroutines after Close", 180*time.Second, func() { <-wgDone })

	// goroutines: poll (bounded) until back at the base level
	var now int

	for i := 0; i < 150; i++ {
		now = runtime.NumGoroutine()
		if now <= base {
			break
		}

		time.Sleep(100 * time.Millisecond)
	}

	if now > base {
		os.Stdout.WriteString(fmt.Sprintf("LEAK %d goroutines 15 s after Close, %d before the server was created (%d connections that never logged in are still open on the client side)\n%s\n", now, base, len(idle), allStacks()))
		os.Exit(0)
	}

	for _, cn := range idle {
		cn.Close()
	}

	if p := s.Panics(); len(p) > 0 {
		os.Stdout.WriteString("PANIC " + strings.ReplaceAll(firstLine(p[0]), "\n", " ") + "\n" + p[0] + "\n")
		os.Exit(0)
	}

	// only now the Serve context goes
	s.CancelServe()
}

func c19Session(st *c19State, s *srv.Server, rng *rand.Rand, idx, ops int, stop chan struct{}) {
	user := 0
	if idx%3 == 2 {
		user = 1
	}

	var cn *imapc.Conn

	login := func() bool {
		var err error

		cn, err = s.Login(fmt.Sprintf("s%d", idx), user)
		if err != nil {
			return false
		}

		cn.Timeout = 150 * time.Second

		return true
	}

	if !login() {
		return
	}

	defer func() {
		if cn != nil {
			cn.Close()
		}
	}()

	boxes := []string{"INBOX", "Work", "Other"}
	selected := false

	for k := 0; k < ops; k++ {
		select {
		case <-stop:
			return
		default:
		}

		var (
			kind string
			res  *imapc.Result
		)

		box := boxes[rng.Intn(len(boxes))]

		do := func(k string, parts ...any) {
			kind = k

			var r2 *imapc.Result

			ok := guardedSoft(func() { r2 = cn.Cmd(parts...) }, 170*time.Second)
			if !ok || isTimeout(r2.Err) {
				hangVerdict(fmt.Sprintf("client command %s of session %d (no answer within 150 s)", k, idx))
			}

			res = r2
		}

		switch x := rng.Intn(100); {
		case x < 12:
			do("SELECT", fmt.Sprintf("%s %s", []string{"SELECT", "EXAMINE"}[rng.Intn(2)], box))
			selected = res.OK()
		case x < 24 && selected:
			do("FETCH", "FETCH 1:* (UID FLAGS RFC822.SIZE)")
		case x < 30 && selected:
			do("FETCH-BODY", "FETCH 1 (BODY[])")
		case x < 40 && selected:
			do("STORE", fmt.Sprintf(`STORE 1:* %sFLAGS (%s)`, []string{"+", "-", ""}[rng.Intn(3)], []string{`\Seen`, `\Deleted`, `\Flagged`, "kw"}[rng.Intn(4)]))
		case x < 47 && selected:
			do("COPY", fmt.Sprintf("COPY 1:* %s", box))
		case x < 54 && selected:
			do("MOVE", fmt.Sprintf("MOVE 1 %s", box))
		case x < 60 && selected:
			do("EXPUNGE", "EXPUNGE")
		case x < 66 && selected:
			do("SEARCH", "SEARCH OR SEEN BODY \"line\"")
		case x < 74:
			do("APPEND", fmt.Sprintf("APPEND %s ", box), imapc.Lit(simpleMessage(fmt.Sprintf("c19-s%d-%d", idx, k), rng)))
		case x < 79:
			do("STATUS", fmt.Sprintf("STATUS %s (MESSAGES UIDNEXT UNSEEN)", box))
		case x < 83:
			do("LIST", `LIST "" "*"`)
		case x < 87:
			name := fmt.Sprintf("T%d-%d", idx, rng.Intn(3))

			switch rng.Intn(3) {
			case 0:
				do("CREATE", "CREATE "+name)
			case 1:
				do("DELETE", "DELETE "+name)
			default:
				do("RENAME", fmt.Sprintf("RENAME %s %s-x", name, name))
			}
		case x < 91 && selected:
			kind = "IDLE"
			ir := cn.IdleStart()

			if ir.Err == nil && ir.Status == "" {
				time.Sleep(time.Duration(rng.Intn(30)) * time.Millisecond)
				ir = cn.IdleDone(ir)
			}

			res = ir
		case x < 94:
			// LOGOUT and come back
			do("LOGOUT", "LOGOUT")
			cn.Close()

			selected = false

			if !login() {
				return
			}
		case x < 97:
			// drop the socket in the middle of a command
			kind = "DROP"
			_, _ = cn.RawConn().Write([]byte(fmt.Sprintf("x%d FETCH 1:* (BODY[])\r\nx%d APPEND %s {100000}\r\n", k, k+1, box)))
			cn.Close()

			selected = false
			res = &imapc.Result{Status: "dropped"}

			if !login() {
				return
			}
		default:
			do("NOOP", "NOOP")
		}

		if res == nil {
			continue
		}

		atomic.AddInt64(&st.ops, 1)

		status := res.Status
		if res.Err != nil {
			status = "connection-ended"
		}

		st.outcome(kind + " " + status)

		if res.Err != nil || res.Bye {
			// e.g. the user was removed or the server closed
			cn.Close()

			selected = false

			if !login() {
				return
			}
		}
	}
}

func isTimeout(err error) bool {
	var ne net.Error

	return err != nil && errors.As(err, &ne) && ne.Timeout()
}

// hangVerdict: something did not return. Blocked (next to no CPU in the next 20 s) or just slow?
func hangVerdict(what string) {
	c1 := cpuMillis()

	time.Sleep(20 * time.Second)

	if used := cpuMillis() - c1; used < 500 {
		os.Stdout.WriteString(fmt.Sprintf("BLOCKED %s; the process used %d ms CPU in the following 20 s\n%s\n", what, used, allStacks()))
	} else {
		os.Stdout.WriteString(fmt.Sprintf("SLOW %s; the process used %d ms CPU in the following 20 s\n", what, used))
	}

	os.Exit(0)
}

// guardedSoft waits for fn up to limit; false when it has not returned.
func guardedSoft(fn func(), limit time.Duration) bool {
	done := make(chan struct{})

	go func() {
		defer close(done)
		fn()
	}()

	select {
	case <-done:
		return true
	case <-time.After(limit):
		return false
	}
}

var _ = ev.Root

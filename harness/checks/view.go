package checks

import (
	"fmt"
	"math/rand"
	"sort"
	"strconv"
	"strings"
	"sync"
	"time"

	"github.com/ProtonMail/gluon/imap"

	"verifharness/ev"
	"verifharness/imapc"
	"verifharness/srv"
)

// ---- client-side mirror ---------------------------------------------------------------
//
// What an RFC 3501 client can know about its selected mailbox purely from the untagged
// EXISTS / EXPUNGE / FETCH responses it received.

type mirEntry struct {
	UID        uint32 // 0 = unknown
	FlagsKnown bool
	Flags      map[string]bool // lower-case, without \recent
	Marker     string          // "" = unknown
}

type Mirror struct {
	Entries []mirEntry
}

func (e mirEntry) flagKey() string {
	if !e.FlagsKnown {
		return "?"
	}

	return setKey(e.Flags)
}

func (m *Mirror) summary() []string {
	out := make([]string, len(m.Entries))
	for i, e := range m.Entries {
		uid := "?"
		if e.UID != 0 {
			uid = fmt.Sprint(e.UID)
		}

		out[i] = fmt.Sprintf("%s[%s]", uid, e.flagKey())
	}

	return out
}

func (m *Mirror) reset(n int) {
	m.Entries = make([]mirEntry, n)
}

func flagsOfNode(n imapc.Node) map[string]bool {
	out := map[string]bool{}

	for _, f := range n.Strings() {
		l := strings.ToLower(f)
		if l != `\recent` {
			out[l] = true
		}
	}

	return out
}

// apply processes one untagged response; a non-empty return value is a violation of the
// incremental rules (count shrinks without EXPUNGE, EXPUNGE/FETCH out of range, UID changes).
func (m *Mirror) apply(r *imapc.Resp) (kind, what string) {
	switch r.Kind {
	case "EXISTS":
		n := int(r.Num)
		if n < len(m.Entries) {
			return "count-shrinks-without-expunge", fmt.Sprintf("%d EXISTS announced while the client knows %d messages and no EXPUNGE was sent", n, len(m.Entries))
		}

		for len(m.Entries) < n {
			m.Entries = append(m.Entries, mirEntry{})
		}
	case "EXPUNGE":
		k := int(r.Num)
		if k < 1 || k > len(m.Entries) {
			return "expunge-out-of-range", fmt.Sprintf("%d EXPUNGE announced while the client knows %d messages", k, len(m.Entries))
		}

		m.Entries = append(m.Entries[:k-1:k-1], m.Entries[k:]...)
	case "FETCH":
		k := int(r.Num)
		if k < 1 || k > len(m.Entries) {
			return "fetch-out-of-range", fmt.Sprintf("%d FETCH sent while the client knows %d messages", k, len(m.Entries))
		}

		items := r.FetchItems()
		e := &m.Entries[k-1]

		if u, ok := items["UID"]; ok {
			v, err := strconv.ParseUint(u.Str, 10, 32)
			if err == nil {
				if e.UID != 0 && e.UID != uint32(v) {
					return "uid-changed-at-known-position", fmt.Sprintf("message %d was announced with UID %d and is now reported with UID %d without an EXPUNGE in between", k, e.UID, v)
				}

				for j, o := range m.Entries {
					if j != k-1 && o.UID == uint32(v) {
						if k-1 > j {
							return "renumbered-by-late-arrival", fmt.Sprintf("UID %d was announced as message %d and is now reported as message %d without an EXPUNGE: messages were inserted in front of it with only an EXISTS announced", v, j+1, k)
						}

						return "uid-at-two-positions", fmt.Sprintf("UID %d was announced as message %d and is now reported as message %d", v, j+1, k)
					}
				}

				e.UID = uint32(v)
			}
		}

		if f, ok := items["FLAGS"]; ok {
			e.Flags = flagsOfNode(f)
			e.FlagsKnown = true
		}

		for key, v := range items {
			if strings.HasPrefix(key, "BODY[HEADER.FIELDS") {
				if mk := markerFromHeaderFields(v.Str); mk != "" {
					e.Marker = mk
				}
			}
		}
	}

	return "", ""
}

// ---- sessions and world -----------------------------------------------------------------

type vsess struct {
	name    string
	c       *imapc.Conn
	box     string
	ro      bool
	mir     Mirror
	idle    *imapc.Result
	dead    bool
	rng     *rand.Rand
	lastCmd string
}

type world struct {
	r     *ev.Run
	id    string // property id prefix for signatures
	label string
	rng   *rand.Rand
	s     *srv.Server
	sess  []*vsess
	boxes []string

	mu     sync.Mutex
	log    []string
	failed bool
	nextID int

	// lenientPositions: truly concurrent histories. The known late-arrival renumbering (see
	// known-findings.txt) can then go unnoticed for a while and make the mirror's positions wrong
	// in arbitrary ways, so position/UID/flag disagreements are only counted (and the mirror is
	// re-synchronised); counts, density, UID order and range rules stay hard.
	lenientPositions bool

	// noRefile: do not generate operations that re-file a message inside one mailbox (COPY/MOVE
	// onto the selected mailbox, remote re-label of a mailbox the message was in before);
	// refiles counts the ones that were generated.
	noRefile bool
	refiles  int
	everIn   map[string]map[imap.MailboxID]bool

	uidHistory map[string]map[string]map[uint32]bool // box -> marker -> UIDs it has had there

	// onResp is called for every untagged response of every command (trace monitors).
	onResp func(s *vsess, cmdKind string, resp *imapc.Resp)
}

func (w *world) logf(format string, a ...any) {
	w.mu.Lock()
	defer w.mu.Unlock()

	w.log = append(w.log, fmt.Sprintf(format, a...))
	if len(w.log) > 400 {
		w.log = w.log[len(w.log)-400:]
	}
}

func (w *world) getLog() []string {
	w.mu.Lock()
	defer w.mu.Unlock()

	return append([]string{}, w.log...)
}

func (w *world) violate(sig, what string, extra map[string]any) {
	w.mu.Lock()
	w.failed = true
	witness := map[string]any{"history": append([]string{}, w.log...)}
	w.mu.Unlock()

	for k, v := range extra {
		witness[k] = v
	}

	w.r.Violate(sig, what, w.label, witness)
}

func (w *world) isFailed() bool {
	w.mu.Lock()
	defer w.mu.Unlock()

	return w.failed
}

func (w *world) marker() string {
	w.mu.Lock()
	defer w.mu.Unlock()

	w.nextID++

	return fmt.Sprintf("%s-m%d", w.label, w.nextID)
}

func cmdKindOf(cmd string) string {
	f := strings.Fields(cmd)
	if len(f) == 0 {
		return ""
	}

	k := strings.ToUpper(f[0])
	if k == "UID" && len(f) > 1 {
		return "UID " + strings.ToUpper(f[1])
	}

	return k
}

// exec sends one command on a session and feeds every untagged response to the mirror.
func (w *world) exec(s *vsess, parts ...any) *imapc.Result {
	res := s.c.Cmd(parts...)
	kind := cmdKindOf(res.Cmd[strings.Index(res.Cmd, " ")+1:])
	s.lastCmd = kind

	w.absorb(s, kind, res)

	return res
}

func (w *world) absorb(s *vsess, kind string, res *imapc.Result) {
	extra := ""
	if res.NO() || res.BAD() {
		extra = " (" + shorten(res.Text, 120) + ")"
	}

	w.logf("%s[%s] %s -> %s%s %v", s.name, s.box, shorten(strings.TrimSpace(res.Cmd[strings.Index(res.Cmd, " ")+1:]), 100), res.Status, extra, res.Kinds())

	if res.Err != nil {
		s.dead = true

		if len(w.s.Panics()) == 0 {
			w.r.Inconclusive("%s: %s %s: %v", w.label, s.name, kind, res.Err)
		}

		w.mu.Lock()
		w.failed = true
		w.mu.Unlock()

		return
	}

	if res.Bye {
		s.dead = true
	}

	switch kind {
	case "SELECT", "EXAMINE":
		if res.OK() {
			ex, _, _ := selectInfo(res)
			s.mir.reset(ex)
		} else {
			s.box = ""
			s.mir.reset(0)
		}

		return
	case "CLOSE", "UNSELECT":
		if res.OK() {
			s.box = ""
			s.mir.reset(0)
		}

		return
	}

	for _, u := range res.Untagged {
		if u.Malformed != "" && u.Tag == "*" {
			w.violate(w.id+" malformed-response", fmt.Sprintf("%s: response to %s does not parse (%s): %q", s.name, kind, u.Malformed, shorten(string(u.Raw), 200)), nil)
			return
		}

		if w.onResp != nil {
			w.onResp(s, kind, u)
		}

		if s.box == "" {
			continue
		}

		if k, what := s.mir.apply(u); k != "" {
			if w.lenientPositions && (k == "renumbered-by-late-arrival" || k == "uid-changed-at-known-position" || k == "uid-at-two-positions") {
				w.r.Count("concurrent_position_disagreements_(possible_late_arrival)", 1)
				w.resync(s)

				return
			}

			// The renumbering by a late arrival is what C01 decides (and records as a finding). In the worlds of
			// the other checks it is not their property that fails: note it, rebuild the mirror, carry on.
			if k == "renumbered-by-late-arrival" && w.id != "C01" {
				w.r.Count("late_arrival_renumberings_seen_(finding_of_C01)", 1)
				w.resync(s)

				return
			}

			if k == "renumbered-by-late-arrival" && w.r.IsKnown(w.id+" probe renumbered-by-late-arrival") {
				w.r.Violate(w.id+" probe renumbered-by-late-arrival", what, w.label, map[string]any{"mirror": s.mir.summary(), "response": u.String(), "history": w.getLog()})
				w.r.Count("known_finding_resyncs", 1)
				w.resync(s)

				return
			}

			w.violate(w.id+" mirror "+k, fmt.Sprintf("%s (during %s): %s", s.name, kind, what), map[string]any{"mirror": s.mir.summary(), "response": u.String()})

			return
		}
	}
}

// resync rebuilds a session's mirror from a fresh UID FETCH (after a listed finding).
func (w *world) resync(s *vsess) {
	res := s.c.Cmd("UID FETCH 1:* (UID FLAGS)")
	if res.Err != nil || !res.OK() {
		s.dead = true
		return
	}

	n := 0

	for _, u := range res.Untagged {
		if u.Kind == "FETCH" && int(u.Num) > n {
			n = int(u.Num)
		}

		if u.Kind == "EXISTS" && int(u.Num) > n {
			n = int(u.Num)
		}
	}

	s.mir.reset(n)

	for _, u := range res.Untagged {
		if u.Kind == "FETCH" {
			_, _ = s.mir.apply(u)
		}
	}

	w.logf("%s[%s] mirror re-synchronised after a listed finding (%d messages)", s.name, s.box, n)
}

func (w *world) selectBox(s *vsess, box string, examine bool) bool {
	verb := "SELECT"
	if examine {
		verb = "EXAMINE"
	}

	s.box = box
	s.ro = examine

	res := w.exec(s, fmt.Sprintf("%s %s", verb, imapc.Quote(box)))

	return res.OK()
}

// probe issues UID FETCH 1:* (UID FLAGS ...) and compares the rows with the mirror *before*
// the mirror learns from them. FETCH can never cause an EXPUNGE, so probing does not disturb
// what it measures; what the probe's own flush announces afterwards is applied afterwards.
func (w *world) probe(s *vsess, withMarker bool) bool {
	if s.box == "" || s.dead || s.idle != nil {
		return true
	}

	items := "(UID FLAGS)"
	if withMarker {
		items = "(UID FLAGS BODY.PEEK[HEADER.FIELDS (" + markerHeader + ")])"
	}

	res := s.c.Cmd("UID FETCH 1:* " + items)
	s.lastCmd = "UID FETCH"
	w.r.Count("probes", 1)
	w.logf("%s[%s] probe UID FETCH 1:* -> %s %v", s.name, s.box, res.Status, compactKinds(res.Kinds()))

	if res.Err != nil {
		s.dead = true

		if len(w.s.Panics()) == 0 {
			w.r.Inconclusive("%s: probe: %v", w.label, res.Err)
		}

		w.mu.Lock()
		w.failed = true
		w.mu.Unlock()

		return false
	}

	if !res.OK() {
		w.violate(w.id+" probe-refused", fmt.Sprintf("%s: UID FETCH 1:* refused: %s %s", s.name, res.Status, res.Text), nil)
		return false
	}

	// Anything in front of the first FETCH row was sent late by the previous command (it cannot be
	// part of this FETCH's own flush, which follows the rows): the client simply processes it in
	// order. (An EXPUNGE among it is C05's business.)
	lead := 0
	for lead < len(res.Untagged) && res.Untagged[lead].Kind != "FETCH" {
		lead++
	}

	// With nothing announced so far there are no rows: everything is the FETCH's own flush.
	if len(s.mir.Entries) == 0 || lead == len(res.Untagged) {
		lead = 0
	}

	if lead > 0 {
		w.r.Count("responses_in_front_of_probe_rows", lead)

		for _, u := range res.Untagged[:lead] {
			if w.onResp != nil {
				w.onResp(s, "UID FETCH", u)
			}

			if k, what := s.mir.apply(u); k != "" {
				w.violate(w.id+" mirror "+k, fmt.Sprintf("%s (in front of the rows of a probe): %s", s.name, what), map[string]any{"mirror": s.mir.summary(), "response": u.String()})
				return false
			}
		}

		res.Untagged = res.Untagged[lead:]
	}

	// Rows = maximal prefix of FETCH responses with pairwise distinct sequence numbers.
	seen := map[int]bool{}
	split := 0

	for i, u := range res.Untagged {
		if u.Kind != "FETCH" || seen[int(u.Num)] {
			break
		}

		if _, hasUID := u.FetchItems()["UID"]; !hasUID {
			break
		}

		seen[int(u.Num)] = true
		split = i + 1
	}

	rows := res.Untagged[:split]
	n := len(s.mir.Entries)

	mismatch := func(kind, what string) bool {
		if w.lenientPositions && (kind == "uid-differs" || kind == "flags-differ" || kind == "renumbered-by-late-arrival") {
			w.r.Count("concurrent_position_disagreements_(possible_late_arrival)", 1)
			s.mir.reset(len(rows))
			w.absorbQuiet(s, "UID FETCH", res)

			return !w.isFailed()
		}

		w.violate(w.id+" probe "+kind, fmt.Sprintf("%s[%s]: %s", s.name, s.box, what), map[string]any{"mirror": s.mir.summary(), "probe_rows": respStrings(rows), "after": respStrings(res.Untagged[split:])})
		return false
	}

	if len(rows) != n {
		return mismatch("row-count", fmt.Sprintf("the client was told about %d messages, the server answers UID FETCH 1:* with %d rows", n, len(rows)))
	}

	sorted := append([]*imapc.Resp{}, rows...)
	sort.SliceStable(sorted, func(i, j int) bool { return sorted[i].Num < sorted[j].Num })

	// Known design limitation (see DESIGN.md): a message of another writer whose EXISTS reaches this
	// session after a later UID has already been announced is inserted in UID order, in front of
	// messages the client knows - renumbering them with only an EXISTS announced. Recognised by its
	// shape: same count, the UIDs the client knows are still there in the same order, and every UID
	// the client did not know that sits in front of a known one is smaller than that known one.
	if lateArrivalShape(s.mir.Entries, sorted) {
		sig := w.id + " probe renumbered-by-late-arrival"
		what := "a message whose EXISTS arrived after a later UID had been announced was inserted in front of announced messages: sequence numbers the client knows now denote other messages, with only an EXISTS sent"

		if w.id != "C01" {
			w.r.Count("late_arrival_renumberings_seen_(finding_of_C01)", 1)
			s.mir.reset(len(rows))
			w.absorbQuiet(s, "UID FETCH", res)

			return !w.isFailed()
		}

		if !w.r.IsKnown(sig) {
			return mismatch("renumbered-by-late-arrival", what)
		}

		// Listed finding: report it (once) and carry on with a re-synchronised mirror.
		w.r.Violate(sig, what, w.label, map[string]any{"mirror": s.mir.summary(), "probe_rows": respStrings(rows), "history": w.getLog()})
		w.r.Count("known_finding_resyncs", 1)
		s.mir.reset(len(rows))
		w.absorbQuiet(s, "UID FETCH", res)

		return !w.isFailed()
	}

	var lastUID uint64

	for i, u := range sorted {
		if int(u.Num) != i+1 {
			return mismatch("not-dense", fmt.Sprintf("sequence numbers of the probe rows are not dense 1..%d", n))
		}

		it := u.FetchItems()
		uid, _ := strconv.ParseUint(it["UID"].Str, 10, 32)

		if uid <= lastUID {
			return mismatch("uids-not-ascending", fmt.Sprintf("UIDs are not strictly ascending at sequence number %d (%d after %d)", i+1, uid, lastUID))
		}

		lastUID = uid
		e := s.mir.Entries[i]

		if e.UID != 0 && uint64(e.UID) != uid {
			return mismatch("uid-differs", fmt.Sprintf("sequence number %d: the client learned UID %d, the server now answers UID %d (no EXPUNGE announced)", i+1, e.UID, uid))
		}

		if f, ok := it["FLAGS"]; ok && e.FlagsKnown {
			if got := setKey(flagsOfNode(f)); got != setKey(e.Flags) {
				return mismatch("flags-differ", fmt.Sprintf("sequence number %d (UID %d): the client learned flags [%s], the server answers [%s] without having sent a FETCH", i+1, uid, setKey(e.Flags), got))
			}
		}
	}

	// Now learn from the rows and process what the probe's own flush announced.
	w.absorbQuiet(s, "UID FETCH", res)

	return !w.isFailed()
}

// lateArrivalShape: see the comment at its call site.
func lateArrivalShape(entries []mirEntry, rows []*imapc.Resp) bool {
	if len(entries) != len(rows) {
		return false
	}

	rowUIDs := make([]uint32, len(rows))
	for i, u := range rows {
		v, _ := strconv.ParseUint(u.FetchItems()["UID"].Str, 10, 32)
		rowUIDs[i] = uint32(v)
	}

	var known []uint32
	for _, e := range entries {
		if e.UID != 0 {
			known = append(known, e.UID)
		}
	}

	// known must be a subsequence of rowUIDs ...
	j := 0
	for _, u := range rowUIDs {
		if j < len(known) && known[j] == u {
			j++
		}
	}

	if j != len(known) || len(known) == 0 {
		return false
	}

	// ... ascending, and some known UID must sit at another position than the client believes.
	shifted := false

	for i, e := range entries {
		if e.UID != 0 && rowUIDs[i] != e.UID {
			shifted = true
		}
	}

	for i := 1; i < len(rowUIDs); i++ {
		if rowUIDs[i] <= rowUIDs[i-1] {
			return false
		}
	}

	return shifted
}

func (w *world) absorbQuiet(s *vsess, kind string, res *imapc.Result) {
	for _, u := range res.Untagged {
		if w.onResp != nil {
			w.onResp(s, kind, u)
		}

		if k, what := s.mir.apply(u); k != "" {
			w.violate(w.id+" mirror "+k, fmt.Sprintf("%s (during %s): %s", s.name, kind, what), map[string]any{"mirror": s.mir.summary(), "response": u.String()})
			return
		}
	}
}

func respStrings(rs []*imapc.Resp) []string {
	out := make([]string, 0, len(rs))
	for _, r := range rs {
		out = append(out, r.String())
	}

	if len(out) > 60 {
		out = append(out[:60], fmt.Sprintf("... %d more", len(out)-60))
	}

	return out
}

func compactKinds(k []string) string {
	if len(k) > 12 {
		return fmt.Sprintf("%v ... (%d responses)", k[:12], len(k))
	}

	return fmt.Sprint(k)
}

// newWorld starts a server with the given mailboxes and sessions (each selected on a mailbox).
func newWorld(r *ev.Run, id, label string, nSess int, boxes []string, mod func(*srv.Options)) (*world, error) {
	s, err := startServer(r, label, mod)
	if err != nil {
		return nil, err
	}

	w := &world{r: r, id: id, label: label, rng: r.Rand(label), s: s, boxes: boxes}

	setup := s.MustLogin("setup")
	for _, b := range boxes {
		if !strings.EqualFold(b, "INBOX") {
			setup.Cmdf("CREATE %s", imapc.Quote(b))
		}
	}

	setup.Close()

	for i := 0; i < nSess; i++ {
		c, err := s.Login(fmt.Sprintf("s%d", i))
		if err != nil {
			s.Destroy()
			return nil, err
		}

		c.Timeout = 90 * time.Second
		vs := &vsess{name: fmt.Sprintf("s%d", i), c: c, rng: r.Rand(label, "sess", i)}
		w.sess = append(w.sess, vs)
	}

	return w, nil
}

func (w *world) close() {
	for _, s := range w.sess {
		s.c.Close()
	}

	finishServer(w.r, w.s, w.label, w.getLog)
}

// ---- command generation over a mirror ---------------------------------------------------

var viewFlagPool = []string{`\Seen`, `\Flagged`, `\Answered`, `\Draft`, `\Deleted`, `$Forwarded`, `Forwarded`, `kw,view`}

func pickViewFlags(rng *rand.Rand, allowEmpty bool) []string {
	n := rng.Intn(3)
	if n == 0 && !allowEmpty {
		n = 1
	}

	perm := rng.Perm(len(viewFlagPool))

	var out []string
	for _, p := range perm[:n] {
		out = append(out, viewFlagPool[p])
	}

	return out
}

// pickPositions chooses 1..3 positions (0-based) of a view with n entries.
func pickPositions(rng *rand.Rand, n int) []int {
	k := 1 + rng.Intn(3)
	if k > n {
		k = n
	}

	p := rng.Perm(n)[:k]
	sort.Ints(p)

	return p
}

func seqSetOf(pos []int) string {
	parts := make([]string, len(pos))
	for i, p := range pos {
		parts[i] = fmt.Sprint(p + 1)
	}

	return strings.Join(parts, ",")
}

// applySilentStore: after its own STORE ... .SILENT the client has not been *told* the new flags
// (the property speaks of what is reconstructed purely from untagged responses), and another
// session's identical change can make the server's answer lag behind what the client would
// compute itself. The affected flag sets therefore become unknown until the next FETCH.
func applySilentStore(m *Mirror, pos []int, action string, flags []string) {
	for _, p := range pos {
		if p < len(m.Entries) {
			m.Entries[p].FlagsKnown = false
		}
	}
}

// stepClient performs one PRNG-chosen client command of the kind set used by C01/C02/C05.
// It returns the command kind that was issued.
func (w *world) stepClient(s *vsess, rng *rand.Rand, allowIdle bool) string {
	if s.dead {
		return ""
	}

	if s.idle != nil {
		res := s.c.IdleDone(s.idle)
		s.idle = nil
		w.absorb(s, "IDLE", res)

		return "DONE"
	}

	if s.box == "" {
		w.selectBox(s, w.boxes[rng.Intn(len(w.boxes))], rng.Intn(8) == 0)
		return "SELECT"
	}

	n := len(s.mir.Entries)
	k := rng.Intn(100)

	if n == 0 && k >= 20 && k < 75 {
		k = rng.Intn(20)
	}

	if s.ro && k >= 20 && k < 60 {
		k = 60 + rng.Intn(15)
	}

	other := func() string {
		for {
			b := w.boxes[rng.Intn(len(w.boxes))]
			if b != s.box || len(w.boxes) == 1 {
				return b
			}
		}
	}

	switch {
	case k < 20: // APPEND
		box := w.boxes[rng.Intn(len(w.boxes))]
		mk := w.marker()
		fl := pickViewFlags(rng, true)
		flagPart := ""

		if len(fl) > 0 {
			flagPart = "(" + strings.Join(fl, " ") + ") "
		}

		w.exec(s, fmt.Sprintf("APPEND %s %s", imapc.Quote(box), flagPart), imapc.Lit(simpleMessage(mk, rng)))

		return "APPEND"
	case k < 40: // STORE
		pos := pickPositions(rng, n)
		action := []string{"+", "-", ""}[rng.Intn(3)]
		silent := rng.Intn(2) == 0
		flags := pickViewFlags(rng, action == "")
		uid := rng.Intn(3) == 0
		set := seqSetOf(pos)
		verb := "STORE"

		if uid {
			var us []string

			var known []int

			for _, p := range pos {
				if s.mir.Entries[p].UID != 0 {
					us = append(us, fmt.Sprint(s.mir.Entries[p].UID))
					known = append(known, p)
				}
			}

			if len(us) == 0 {
				uid = false
			} else {
				set, pos, verb = strings.Join(us, ","), known, "UID STORE"
			}
		}

		sil := ""
		if silent {
			sil = ".SILENT"
		}

		res := w.exec(s, fmt.Sprintf("%s %s %sFLAGS%s (%s)", verb, set, action, sil, strings.Join(flags, " ")))
		if res.OK() && silent {
			applySilentStore(&s.mir, pos, action, flags)
		}

		return verb
	case k < 47:
		w.exec(s, "EXPUNGE")
		return "EXPUNGE"
	case k < 53: // COPY
		pos := pickPositions(rng, n)
		w.exec(s, fmt.Sprintf("COPY %s %s", seqSetOf(pos), imapc.Quote(other())))

		return "COPY"
	case k < 60: // MOVE
		pos := pickPositions(rng, n)
		dst := other()

		if rng.Intn(6) == 0 && !w.noRefile {
			dst = s.box

			w.mu.Lock()
			w.refiles++
			w.mu.Unlock()
		}

		w.exec(s, fmt.Sprintf("MOVE %s %s", seqSetOf(pos), imapc.Quote(dst)))

		return "MOVE"
	case k < 68: // FETCH with / without \Seen side effect
		if n == 0 {
			w.exec(s, "NOOP")
			return "NOOP"
		}

		pos := pickPositions(rng, n)
		// (the last two name parts that do not exist: the command fails after the message was looked up, and
		// must not leave the \Seen side effect behind in the view)
		item := []string{"(FLAGS)", "(UID)", "(BODY.PEEK[])", "(BODY[])", "(RFC822.SIZE UID FLAGS)", "(BODY[TEXT])", "(BODY[7.1])", "(UID BODY[2.1.TEXT])"}[rng.Intn(8)]
		w.exec(s, fmt.Sprintf("FETCH %s %s", seqSetOf(pos), item))

		return "FETCH"
	case k < 72:
		w.exec(s, "SEARCH "+[]string{"ALL", "SEEN", "UNSEEN DELETED", "1:*"}[rng.Intn(3)])
		return "SEARCH"
	case k < 82:
		w.exec(s, "NOOP")
		return "NOOP"
	case k < 85:
		w.exec(s, "CHECK")
		return "CHECK"
	case k < 88:
		w.exec(s, fmt.Sprintf("STATUS %s (MESSAGES UIDNEXT)", imapc.Quote(s.box)))
		return "STATUS"
	case k < 93:
		if !allowIdle {
			w.exec(s, "NOOP")
			return "NOOP"
		}

		res := s.c.IdleStart()
		if res.Err != nil || res.Status != "" {
			w.absorb(s, "IDLE", res)
			return "IDLE"
		}

		// Responses sent before the continuation belong to IDLE's initial flush.
		w.logf("%s[%s] IDLE -> + %v", s.name, s.box, res.Kinds())
		s.idle = res

		return "IDLE"
	case k < 96:
		w.selectBox(s, w.boxes[rng.Intn(len(w.boxes))], rng.Intn(5) == 0)
		return "SELECT"
	case k < 98:
		w.exec(s, "CLOSE")
		return "CLOSE"
	default:
		w.exec(s, "UNSELECT")
		return "UNSELECT"
	}
}

// stepConnector delivers one PRNG-chosen connector update that touches message data.
func (w *world) stepConnector(rng *rand.Rand) string {
	u := w.s.Users[0]
	boxes := u.Conn.MailboxNames()

	var ids []imap.MailboxID
	for id := range boxes {
		ids = append(ids, id)
	}

	sort.Slice(ids, func(i, j int) bool { return ids[i] < ids[j] })

	if len(ids) == 0 {
		return ""
	}

	pickBox := func() imap.MailboxID { return ids[rng.Intn(len(ids))] }

	anyMessage := func() (string, bool) {
		w.mu.Lock()
		n := w.nextID
		w.mu.Unlock()

		if n == 0 {
			return "", false
		}

		return fmt.Sprintf("%s-m%d", w.label, 1+rng.Intn(n)), true
	}

	apply := func(kind string, up imap.Update) string {
		ack := u.Conn.Apply(up, srv.UpdateTimeout)
		w.logf("connector %s -> acked=%v err=%v", shorten(up.String(), 140), ack.Acked, ack.Err)

		if !ack.Acked {
			w.r.Inconclusive("%s: connector update %s not acknowledged: %v", w.label, kind, ack.Err)

			w.mu.Lock()
			w.failed = true
			w.mu.Unlock()
		}

		return kind
	}

	switch rng.Intn(5) {
	case 0: // new message(s)
		var created []*imap.MessageCreated

		for i := 0; i < 1+rng.Intn(2); i++ {
			mk := w.marker()

			mc, err := u.Conn.RemoteAddMessage(simpleMessage(mk, rng), imap.NewFlagSet(withoutFlag(pickViewFlags(rng, true), `\deleted`)...), time.Unix(1136214245, 0).UTC(), pickBox())
			if err != nil {
				return ""
			}

			created = append(created, mc)
		}

		return apply("MessagesCreated", imap.NewMessagesCreated(false, created...))
	case 1: // flags
		mk, ok := anyMessage()
		if !ok {
			return ""
		}

		mi, ok := u.Conn.FindMessage(markerHeader + ": " + mk + "\r\n")
		if !ok {
			return ""
		}

		fl := imap.NewFlagSet(withoutFlag(pickViewFlags(rng, true), `\deleted`)...)
		u.Conn.RemoteSetFlags(mi.ID, fl)

		return apply("MessageFlagsUpdated", imap.NewMessageFlagsUpdated(mi.ID, fl))
	case 2: // mailboxes (remove / add / move)
		mk, ok := anyMessage()
		if !ok {
			return ""
		}

		mi, ok := u.Conn.FindMessage(markerHeader + ": " + mk + "\r\n")
		if !ok {
			return ""
		}

		var target []imap.MailboxID

		switch rng.Intn(3) {
		case 0:
			target = []imap.MailboxID{pickBox()}
		case 1:
			target = append(append([]imap.MailboxID{}, mi.Mailboxes...), pickBox())
		default:
			if len(mi.Mailboxes) > 0 {
				target = mi.Mailboxes[1:]
			}
		}

		target = dedupMailboxIDs(target)

		// Re-adding a message to a mailbox it was in before re-files it there (new UID).
		w.mu.Lock()
		if w.everIn == nil {
			w.everIn = map[string]map[imap.MailboxID]bool{}
		}

		if w.everIn[mk] == nil {
			w.everIn[mk] = map[imap.MailboxID]bool{}
		}

		now := map[imap.MailboxID]bool{}
		for _, id := range mi.Mailboxes {
			now[id] = true
			w.everIn[mk][id] = true
		}

		refile := false

		for _, id := range target {
			if !now[id] && w.everIn[mk][id] {
				refile = true
			}
		}

		if refile && w.noRefile {
			w.mu.Unlock()
			return ""
		}

		if refile {
			w.refiles++
		}

		for _, id := range target {
			w.everIn[mk][id] = true
		}
		w.mu.Unlock()

		u.Conn.RemoteSetMailboxes(mi.ID, target)

		return apply("MessageMailboxesUpdated", imap.NewMessageMailboxesUpdated(mi.ID, target, mi.Flags))
	case 3: // deleted
		mk, ok := anyMessage()
		if !ok {
			return ""
		}

		mi, ok := u.Conn.FindMessage(markerHeader + ": " + mk + "\r\n")
		if !ok {
			return ""
		}

		u.Conn.RemoteDeleteMessage(mi.ID)

		return apply("MessageDeleted", imap.NewMessagesDeleted(mi.ID))
	default:
		return apply("Noop", imap.NewNoop())
	}
}

func dedupMailboxIDs(in []imap.MailboxID) []imap.MailboxID {
	seen := map[imap.MailboxID]bool{}

	var out []imap.MailboxID

	for _, id := range in {
		if !seen[id] {
			seen[id] = true
			out = append(out, id)
		}
	}

	return out
}

// noteUIDs records which UID each message (marker) has in a mailbox right now.
func (w *world) noteUIDs(box string, v *BoxView) {
	w.mu.Lock()
	defer w.mu.Unlock()

	if w.uidHistory == nil {
		w.uidHistory = map[string]map[string]map[uint32]bool{}
	}

	if w.uidHistory[box] == nil {
		w.uidHistory[box] = map[string]map[uint32]bool{}
	}

	for _, m := range v.Msgs {
		if m.Marker == "" {
			continue
		}

		if w.uidHistory[box][m.Marker] == nil {
			w.uidHistory[box][m.Marker] = map[uint32]bool{}
		}

		w.uidHistory[box][m.Marker][m.UID] = true
	}
}

func (w *world) uidsOfMarker(box, marker string) []uint32 {
	w.mu.Lock()
	defer w.mu.Unlock()

	var out []uint32
	for u := range w.uidHistory[box][marker] {
		out = append(out, u)
	}

	return out
}

package checks

import (
	"bufio"
	"bytes"
	"fmt"
	"io"
	"math/rand"
	"reflect"
	"sort"
	"strings"
	"time"

	"github.com/ProtonMail/gluon/imap/command"
	"github.com/ProtonMail/gluon/rfcparser"

	"verifharness/ev"
)

func init() { register("C10", "exploration", runC10) }

// ---- canonical dump of a parsed payload --------------------------------------------------

func dumpValue(v reflect.Value, b *strings.Builder) {
	if !v.IsValid() {
		b.WriteString("<nil>")
		return
	}

	if v.Type() == reflect.TypeOf(time.Time{}) {
		t := v.Interface().(time.Time)
		if t.IsZero() {
			b.WriteString("time(zero)")
			return
		}

		_, off := t.Zone()
		fmt.Fprintf(b, "time(%s off=%d)", t.UTC().Format(time.RFC3339), off)

		return
	}

	switch v.Kind() {
	case reflect.Ptr, reflect.Interface:
		if v.IsNil() {
			b.WriteString("<nil>")
			return
		}

		dumpValue(v.Elem(), b)
	case reflect.Struct:
		b.WriteString(v.Type().Name())
		b.WriteString("{")

		for i := 0; i < v.NumField(); i++ {
			if i > 0 {
				b.WriteString(" ")
			}

			b.WriteString(v.Type().Field(i).Name)
			b.WriteString(":")
			dumpValue(v.Field(i), b)
		}

		b.WriteString("}")
	case reflect.Slice:
		if v.Type().Elem().Kind() == reflect.Uint8 {
			fmt.Fprintf(b, "%q", v.Bytes())
			return
		}

		b.WriteString("[")

		for i := 0; i < v.Len(); i++ {
			if i > 0 {
				b.WriteString(" ")
			}

			dumpValue(v.Index(i), b)
		}

		b.WriteString("]")
	case reflect.Map:
		keys := v.MapKeys()
		sort.Slice(keys, func(i, j int) bool { return keys[i].String() < keys[j].String() })
		b.WriteString("map[")

		for i, k := range keys {
			if i > 0 {
				b.WriteString(" ")
			}

			fmt.Fprintf(b, "%q:", k.String())
			dumpValue(v.MapIndex(k), b)
		}

		b.WriteString("]")
	case reflect.String:
		fmt.Fprintf(b, "%q", v.String())
	default:
		fmt.Fprintf(b, "%v", v.Interface())
	}
}

func dumpPayload(p any) string {
	var b strings.Builder

	dumpValue(reflect.ValueOf(p), &b)

	return b.String()
}

// ---- generator ---------------------------------------------------------------------------

type cmdGen struct {
	rng *rand.Rand
	buf bytes.Buffer
	// features used by the current command (for coverage accounting)
	feat map[string]bool
}

func (g *cmdGen) mark(f string) { g.feat[f] = true }

func (g *cmdGen) kw(s string) {
	for i := 0; i < len(s); i++ {
		c := s[i]
		if g.rng.Intn(2) == 0 {
			if c >= 'A' && c <= 'Z' {
				c += 32
			} else if c >= 'a' && c <= 'z' {
				c -= 32
			}
		}

		g.buf.WriteByte(c)
	}
}

func (g *cmdGen) sp() { g.buf.WriteByte(' ') }

const atomChars = "!#$&'+,-./0123456789:;<=>?@ABCDEFGHIJKLMNOPQRSTUVWXYZ[^_`abcdefghijklmnopqrstuvwxyz|}~"

func isAtomCharByte(c byte) bool { return strings.IndexByte(atomChars, c) >= 0 }

func isAStringCharByte(c byte) bool { return isAtomCharByte(c) || c == ']' }

func (g *cmdGen) randAtom(maxLen int) string {
	n := 1 + g.rng.Intn(maxLen)
	b := make([]byte, n)

	for i := range b {
		b[i] = atomChars[g.rng.Intn(len(atomChars))]
	}

	return string(b)
}

// randString produces an arbitrary string value for an astring/string argument.
func (g *cmdGen) randString() string {
	switch g.rng.Intn(8) {
	case 0:
		return ""
	case 1:
		return g.randAtom(12)
	case 2: // needs quoting: spaces, quotes, backslashes, brackets, wildcards
		pool := ` "\()[]{}%*ab cd/INBOX` + "\t\x01\x1f\x7f"
		n := 1 + g.rng.Intn(14)
		b := make([]byte, n)

		for i := range b {
			b[i] = pool[g.rng.Intn(len(pool))]
		}

		return string(b)
	case 3: // needs a literal: CR, LF, 8-bit
		pool := "ab\r\n\xc3\xa9\xff \"\\x"
		n := 1 + g.rng.Intn(20)
		b := make([]byte, n)

		for i := range b {
			b[i] = pool[g.rng.Intn(len(pool))]
		}

		return string(b)
	case 4:
		return []string{"INBOX", "inbox", "InBoX", "INBOX/sub", "inbox.x", "NIL", "nil", "DONE", "{5}", "]"}[g.rng.Intn(10)]
	default:
		words := []string{"Folder", "Sent Items", "a/b/c", "Archive.2024", "Entw&APw-rfe", "x", "Trash", "user@example.com", "p@ss w0rd"}
		return words[g.rng.Intn(len(words))]
	}
}

func canAtom(s string, astring bool) bool {
	if s == "" {
		return false
	}

	for i := 0; i < len(s); i++ {
		if astring {
			if !isAStringCharByte(s[i]) {
				return false
			}
		} else if !isAtomCharByte(s[i]) {
			return false
		}
	}

	return true
}

func canQuote(s string) bool {
	for i := 0; i < len(s); i++ {
		if s[i] == '\r' || s[i] == '\n' || s[i] == 0 || s[i] >= 0x80 {
			return false
		}
	}

	return true
}

func (g *cmdGen) quoted(s string) {
	g.mark("quoted")
	g.buf.WriteByte('"')

	for i := 0; i < len(s); i++ {
		if s[i] == '"' || s[i] == '\\' {
			g.buf.WriteByte('\\')
		}

		g.buf.WriteByte(s[i])
	}

	g.buf.WriteByte('"')
}

func (g *cmdGen) literal(s string) {
	g.mark("literal")

	if len(s) == 0 {
		g.mark("literal{0}")
	}

	fmt.Fprintf(&g.buf, "{%d}\r\n", len(s))
	g.buf.WriteString(s)
}

// str writes a string argument (quoted or literal).
func (g *cmdGen) str(s string) {
	if canQuote(s) && g.rng.Intn(3) != 0 {
		g.quoted(s)
	} else {
		g.literal(s)
	}
}

// astring writes s in one of the encodings the grammar allows for it.
func (g *cmdGen) astring(s string) {
	if canAtom(s, true) && !startsLikeString(s) && g.rng.Intn(3) != 0 {
		g.mark("atom")
		g.buf.WriteString(s)

		return
	}

	g.str(s)
}

// An astring written as atom must not begin with '"' or '{' (it cannot: both are specials) - kept for clarity.
func startsLikeString(s string) bool { return s[0] == '"' || s[0] == '{' }

func (g *cmdGen) mailbox(s string) string {
	g.astring(s)

	if strings.EqualFold(s, "INBOX") {
		return "INBOX"
	}

	return s
}

func (g *cmdGen) seqNum() command.SeqNum {
	if g.rng.Intn(5) == 0 {
		g.buf.WriteByte('*')
		return command.SeqNumValueAsterisk
	}

	var n int64

	switch g.rng.Intn(6) {
	case 0:
		n = 1
	case 1:
		n = 1 + g.rng.Int63n(10)
	case 2:
		n = 1 + g.rng.Int63n(100000)
	case 3:
		n = 2147483647
	case 4:
		n = 4294967295
	default:
		n = 1 + g.rng.Int63n(4294967295)
	}

	fmt.Fprintf(&g.buf, "%d", n)

	return command.SeqNum(n)
}

func (g *cmdGen) seqSet() []command.SeqRange {
	n := 1 + g.rng.Intn(4)

	var out []command.SeqRange

	for i := 0; i < n; i++ {
		if i > 0 {
			g.buf.WriteByte(',')
		}

		b := g.seqNum()
		e := b

		if g.rng.Intn(2) == 0 {
			g.buf.WriteByte(':')
			e = g.seqNum()
		}

		out = append(out, command.SeqRange{Begin: b, End: e})
	}

	return out
}

func (g *cmdGen) flag() string {
	switch g.rng.Intn(4) {
	case 0:
		f := []string{`\Answered`, `\Flagged`, `\Deleted`, `\Seen`, `\Draft`, `\seen`, `\DELETED`}[g.rng.Intn(7)]
		g.buf.WriteString(f)

		return f
	case 1:
		a := g.randAtom(8)
		if strings.EqualFold(a, "recent") {
			a = "x" + a
		}

		g.buf.WriteString(`\` + a)

		return `\` + a
	default:
		a := g.randAtom(10)
		g.buf.WriteString(a)

		return a
	}
}

func (g *cmdGen) flagList(allowEmpty bool) []string {
	g.buf.WriteByte('(')

	n := g.rng.Intn(4)
	if n == 0 && !allowEmpty {
		n = 1
	}

	var out []string

	for i := 0; i < n; i++ {
		if i > 0 {
			g.sp()
		}

		out = append(out, g.flag())
	}

	g.buf.WriteByte(')')

	return out
}

var monthNames = []string{"Jan", "Feb", "Mar", "Apr", "May", "Jun", "Jul", "Aug", "Sep", "Oct", "Nov", "Dec"}

func (g *cmdGen) date() time.Time {
	day, month, year := 1+g.rng.Intn(28), g.rng.Intn(12), 1970+g.rng.Intn(130)
	quotedForm := g.rng.Intn(2) == 0

	if quotedForm {
		g.buf.WriteByte('"')
	}

	if day < 10 && g.rng.Intn(2) == 0 {
		fmt.Fprintf(&g.buf, "%d-", day)
	} else {
		fmt.Fprintf(&g.buf, "%02d-", day)
	}

	g.kw(monthNames[month])
	fmt.Fprintf(&g.buf, "-%04d", year)

	if quotedForm {
		g.buf.WriteByte('"')
	}

	return time.Date(year, time.Month(month+1), day, 0, 0, 0, 0, time.UTC)
}

func (g *cmdGen) dateTime() time.Time {
	day, month, year := 1+g.rng.Intn(28), g.rng.Intn(12), 1970+g.rng.Intn(130)
	h, mi, s := g.rng.Intn(24), g.rng.Intn(60), g.rng.Intn(60)
	zh, zm := g.rng.Intn(15), []int{0, 30, 45}[g.rng.Intn(3)]
	sign := 1

	if g.rng.Intn(2) == 0 {
		sign = -1
	}

	g.buf.WriteByte('"')

	if day < 10 && g.rng.Intn(2) == 0 {
		fmt.Fprintf(&g.buf, " %d-", day)
	} else {
		fmt.Fprintf(&g.buf, "%02d-", day)
	}

	g.kw(monthNames[month])

	signCh := "+"
	if sign < 0 {
		signCh = "-"
	}

	fmt.Fprintf(&g.buf, "-%04d %02d:%02d:%02d %s%02d%02d\"", year, h, mi, s, signCh, zh, zm)

	return time.Date(year, time.Month(month+1), day, h, mi, s, 0, time.FixedZone("zone", sign*(zh*3600+zm*60)))
}

func (g *cmdGen) headerList() []string {
	g.buf.WriteByte('(')

	n := 1 + g.rng.Intn(3)

	var out []string

	for i := 0; i < n; i++ {
		if i > 0 {
			g.sp()
		}

		h := []string{"Subject", "From", "X-Custom-Header", "to", "Message-Id", "weird header", "x]"}[g.rng.Intn(7)]
		if g.rng.Intn(6) == 0 {
			h = g.randString()
			if h == "" {
				h = "H"
			}
		}

		g.astring(h)
		out = append(out, h)
	}

	g.buf.WriteByte(')')

	return out
}

func (g *cmdGen) sectionMsgText(allowMIME bool) command.BodySection {
	max := 4
	if allowMIME {
		max = 5
	}

	switch g.rng.Intn(max) {
	case 0:
		g.kw("HEADER")
		return &command.BodySectionHeader{}
	case 1:
		g.kw("TEXT")
		return &command.BodySectionText{}
	case 2:
		g.kw("HEADER.FIELDS")
		g.sp()

		return &command.BodySectionHeaderFields{Negate: false, Fields: g.headerList()}
	case 3:
		g.kw("HEADER.FIELDS.NOT")
		g.sp()

		return &command.BodySectionHeaderFields{Negate: true, Fields: g.headerList()}
	default:
		g.kw("MIME")
		return &command.BodySectionMIME{}
	}
}

func (g *cmdGen) fetchAtt() command.FetchAttribute {
	switch g.rng.Intn(14) {
	case 0:
		g.kw("ENVELOPE")
		return &command.FetchAttributeEnvelope{}
	case 1:
		g.kw("FLAGS")
		return &command.FetchAttributeFlags{}
	case 2:
		g.kw("INTERNALDATE")
		return &command.FetchAttributeInternalDate{}
	case 3:
		g.kw("RFC822")
		return &command.FetchAttributeRFC822{}
	case 4:
		g.kw("RFC822.HEADER")
		return &command.FetchAttributeRFC822Header{}
	case 5:
		g.kw("RFC822.SIZE")
		return &command.FetchAttributeRFC822Size{}
	case 6:
		g.kw("RFC822.TEXT")
		return &command.FetchAttributeRFC822Text{}
	case 7:
		g.kw("BODY")
		return &command.FetchAttributeBody{}
	case 8:
		g.kw("BODYSTRUCTURE")
		return &command.FetchAttributeBodyStructure{}
	case 9:
		g.kw("UID")
		return &command.FetchAttributeUID{}
	default:
		g.mark("body-section")

		att := &command.FetchAttributeBodySection{}
		if g.rng.Intn(2) == 0 {
			g.kw("BODY.PEEK")
			att.Peek = true
		} else {
			g.kw("BODY")
		}

		g.buf.WriteByte('[')

		switch g.rng.Intn(3) {
		case 0: // empty section
		case 1:
			att.Section = g.sectionMsgText(false)
		default:
			g.mark("section-part")

			n := 1 + g.rng.Intn(4)
			part := &command.BodySectionPart{}

			for i := 0; i < n; i++ {
				if i > 0 {
					g.buf.WriteByte('.')
				}

				v := 1 + g.rng.Intn(12)
				fmt.Fprintf(&g.buf, "%d", v)
				part.Part = append(part.Part, v)
			}

			if g.rng.Intn(2) == 0 {
				g.buf.WriteByte('.')
				part.Section = g.sectionMsgText(true)
			}

			att.Section = part
		}

		g.buf.WriteByte(']')

		if g.rng.Intn(3) == 0 {
			g.mark("partial")

			off := []int64{0, 1, 100, 65536, 2147483647, 4294967295}[g.rng.Intn(6)]
			cnt := []int64{1, 2, 1024, 2147483647, 4294967295}[g.rng.Intn(5)]
			fmt.Fprintf(&g.buf, "<%d.%d>", off, cnt)
			att.Partial = &command.BodySectionPartial{Offset: off, Count: cnt}
		}

		return att
	}
}

func (g *cmdGen) searchKey(depth int) command.SearchKey {
	k := g.rng.Intn(44)

	if depth >= 4 && k >= 38 {
		k = g.rng.Intn(38)
	}

	simple := func(name string, v command.SearchKey) command.SearchKey { g.kw(name); return v }

	strKey := func(name string) string {
		g.kw(name)
		g.sp()

		s := g.randString()
		g.astring(s)

		return s
	}

	switch k {
	case 0:
		return simple("ALL", &command.SearchKeyAll{})
	case 1:
		return simple("ANSWERED", &command.SearchKeyAnswered{})
	case 2:
		return simple("DELETED", &command.SearchKeyDeleted{})
	case 3:
		return simple("FLAGGED", &command.SearchKeyFlagged{})
	case 4:
		return simple("NEW", &command.SearchKeyNew{})
	case 5:
		return simple("OLD", &command.SearchKeyOld{})
	case 6:
		return simple("RECENT", &command.SearchKeyRecent{})
	case 7:
		return simple("SEEN", &command.SearchKeySeen{})
	case 8:
		return simple("UNANSWERED", &command.SearchKeyUnanswered{})
	case 9:
		return simple("UNDELETED", &command.SearchKeyUndeleted{})
	case 10:
		return simple("UNFLAGGED", &command.SearchKeyUnflagged{})
	case 11:
		return simple("UNSEEN", &command.SearchKeyUnseen{})
	case 12:
		return simple("DRAFT", &command.SearchKeyDraft{})
	case 13:
		return simple("UNDRAFT", &command.SearchKeyUndraft{})
	case 14:
		return &command.SearchKeyBCC{Value: strKey("BCC")}
	case 15:
		return &command.SearchKeyBody{Value: strKey("BODY")}
	case 16:
		return &command.SearchKeyCC{Value: strKey("CC")}
	case 17:
		return &command.SearchKeyFrom{Value: strKey("FROM")}
	case 18:
		return &command.SearchKeySubject{Value: strKey("SUBJECT")}
	case 19:
		return &command.SearchKeyText{Value: strKey("TEXT")}
	case 20:
		return &command.SearchKeyTo{Value: strKey("TO")}
	case 21:
		g.kw("BEFORE")
		g.sp()

		return &command.SearchKeyBefore{Value: g.date()}
	case 22:
		g.kw("ON")
		g.sp()

		return &command.SearchKeyOn{Value: g.date()}
	case 23:
		g.kw("SINCE")
		g.sp()

		return &command.SearchKeySince{Value: g.date()}
	case 24:
		g.kw("SENTBEFORE")
		g.sp()

		return &command.SearchKeySentBefore{Value: g.date()}
	case 25:
		g.kw("SENTON")
		g.sp()

		return &command.SearchKeySentOn{Value: g.date()}
	case 26:
		g.kw("SENTSINCE")
		g.sp()

		return &command.SearchKeySentSince{Value: g.date()}
	case 27:
		g.kw("KEYWORD")
		g.sp()

		a := g.randAtom(8)
		g.buf.WriteString(a)

		return &command.SearchKeyKeyword{Value: a}
	case 28:
		g.kw("UNKEYWORD")
		g.sp()

		a := g.randAtom(8)
		g.buf.WriteString(a)

		return &command.SearchKeyUnkeyword{Value: a}
	case 29:
		g.kw("HEADER")
		g.sp()

		f := []string{"Subject", "X-Verif-Id", "List-Id", "odd field"}[g.rng.Intn(4)]
		g.astring(f)
		g.sp()

		v := g.randString()
		g.astring(v)

		return &command.SearchKeyHeader{Field: f, Value: v}
	case 30:
		g.kw("LARGER")
		g.sp()

		n := []int{0, 1, 1024, 2147483647, 4294967295}[g.rng.Intn(5)]
		fmt.Fprintf(&g.buf, "%d", n)

		return &command.SearchKeyLarger{Value: n}
	case 31:
		g.kw("SMALLER")
		g.sp()

		n := []int{0, 1, 1024, 2147483647, 4294967295}[g.rng.Intn(5)]
		fmt.Fprintf(&g.buf, "%d", n)

		return &command.SearchKeySmaller{Value: n}
	case 32, 33:
		g.kw("UID")
		g.sp()

		return &command.SearchKeyUID{SeqSet: g.seqSet()}
	case 34, 35, 36, 37:
		g.mark("search-seqset")
		return &command.SearchKeySeqSet{SeqSet: g.seqSet()}
	case 38, 39:
		g.mark("search-not")
		g.kw("NOT")
		g.sp()

		return &command.SearchKeyNot{Key: g.searchKey(depth + 1)}
	case 40, 41:
		g.mark("search-or")
		g.kw("OR")
		g.sp()

		k1 := g.searchKey(depth + 1)
		g.sp()
		k2 := g.searchKey(depth + 1)

		return &command.SearchKeyOr{Key1: k1, Key2: k2}
	default:
		g.mark("search-list")
		g.buf.WriteByte('(')

		n := 1 + g.rng.Intn(3)
		l := &command.SearchKeyList{}

		for i := 0; i < n; i++ {
			if i > 0 {
				g.sp()
			}

			l.Keys = append(l.Keys, g.searchKey(depth+1))
		}

		g.buf.WriteByte(')')

		return l
	}
}

func (g *cmdGen) search() *command.Search {
	s := &command.Search{}

	if g.rng.Intn(4) == 0 {
		g.kw("CHARSET")
		g.sp()

		cs := []string{"UTF-8", "US-ASCII", "utf-8", "ISO-8859-1"}[g.rng.Intn(4)]
		g.astring(cs)
		g.sp()
		s.Charset = cs
	}

	n := 1 + g.rng.Intn(3)
	for i := 0; i < n; i++ {
		if i > 0 {
			g.sp()
		}

		s.Keys = append(s.Keys, g.searchKey(0))
	}

	return s
}

func (g *cmdGen) fetch() *command.Fetch {
	f := &command.Fetch{SeqSet: g.seqSet()}
	g.sp()

	switch g.rng.Intn(5) {
	case 0:
		m := g.rng.Intn(3)
		g.kw([]string{"ALL", "FULL", "FAST"}[m])
		f.Attributes = []command.FetchAttribute{[]command.FetchAttribute{&command.FetchAttributeAll{}, &command.FetchAttributeFull{}, &command.FetchAttributeFast{}}[m]}
	case 1:
		f.Attributes = []command.FetchAttribute{g.fetchAtt()}
	default:
		g.buf.WriteByte('(')

		n := 1 + g.rng.Intn(5)
		for i := 0; i < n; i++ {
			if i > 0 {
				g.sp()
			}

			f.Attributes = append(f.Attributes, g.fetchAtt())
		}

		g.buf.WriteByte(')')
	}

	return f
}

func (g *cmdGen) store() *command.Store {
	s := &command.Store{SeqSet: g.seqSet()}
	g.sp()

	switch g.rng.Intn(3) {
	case 0:
		g.buf.WriteByte('+')
		s.Action = command.StoreActionAddFlags
	case 1:
		g.buf.WriteByte('-')
		s.Action = command.StoreActionRemFlags
	default:
		s.Action = command.StoreActionSetFlags
	}

	g.kw("FLAGS")

	if g.rng.Intn(2) == 0 {
		g.kw(".SILENT")
		s.Silent = true
	}

	g.sp()

	if g.rng.Intn(3) == 0 {
		n := 1 + g.rng.Intn(3)
		for i := 0; i < n; i++ {
			if i > 0 {
				g.sp()
			}

			s.Flags = append(s.Flags, g.flag())
		}
	} else {
		s.Flags = g.flagList(true)
	}

	return s
}

// command writes one complete command (with tag and CRLF) and returns the expected result.
func (g *cmdGen) command() (string, command.Payload, string) {
	g.feat = map[string]bool{}

	tag := ""
	for tag == "" || strings.EqualFold(tag, "done") {
		n := 1 + g.rng.Intn(6)
		b := make([]byte, n)

		for i := range b {
			for {
				c := atomChars[g.rng.Intn(len(atomChars))]
				if c != '+' {
					b[i] = c
					break
				}
			}
		}

		tag = string(b)
	}

	kind := g.rng.Intn(40)
	if kind == 39 {
		g.kw("DONE")
		g.buf.WriteString("\r\n")

		return "", &command.Done{}, "DONE"
	}

	g.buf.WriteString(tag)
	g.sp()

	var (
		p    command.Payload
		name string
	)

	mb := func() string { return g.mailbox(g.randString()) }

	switch {
	case kind == 0:
		name = "CAPABILITY"
		g.kw(name)
		p = &command.Capability{}
	case kind == 1:
		name = "NOOP"
		g.kw(name)
		p = &command.Noop{}
	case kind == 2:
		name = "LOGOUT"
		g.kw(name)
		p = &command.Logout{}
	case kind == 3:
		name = "STARTTLS"
		g.kw(name)
		p = &command.StartTLS{}
	case kind == 4:
		name = "CHECK"
		g.kw(name)
		p = &command.Check{}
	case kind == 5:
		name = "CLOSE"
		g.kw(name)
		p = &command.Close{}
	case kind == 6:
		name = "EXPUNGE"
		g.kw(name)
		p = &command.Expunge{}
	case kind == 7:
		name = "UNSELECT"
		g.kw(name)
		p = &command.Unselect{}
	case kind == 8:
		name = "IDLE"
		g.kw(name)
		p = &command.Idle{}
	case kind == 9 || kind == 10:
		name = "LOGIN"
		g.kw(name)
		g.sp()

		u := g.randString()
		g.astring(u)
		g.sp()

		pw := g.randString()
		g.astring(pw)
		p = &command.Login{UserID: u, Password: pw}
	case kind == 11:
		name = "SELECT"
		g.kw(name)
		g.sp()
		p = &command.Select{Mailbox: mb()}
	case kind == 12:
		name = "EXAMINE"
		g.kw(name)
		g.sp()
		p = &command.Examine{Mailbox: mb()}
	case kind == 13:
		name = "CREATE"
		g.kw(name)
		g.sp()
		p = &command.Create{Mailbox: mb()}
	case kind == 14:
		name = "DELETE"
		g.kw(name)
		g.sp()
		p = &command.Delete{Mailbox: mb()}
	case kind == 15:
		name = "RENAME"
		g.kw(name)
		g.sp()

		a := mb()
		g.sp()
		b := mb()
		p = &command.Rename{From: a, To: b}
	case kind == 16:
		name = "SUBSCRIBE"
		g.kw(name)
		g.sp()
		p = &command.Subscribe{Mailbox: mb()}
	case kind == 17:
		name = "UNSUBSCRIBE"
		g.kw(name)
		g.sp()
		p = &command.Unsubscribe{Mailbox: mb()}
	case kind == 18 || kind == 19:
		lsub := kind == 19
		name = "LIST"

		if lsub {
			name = "LSUB"
		}

		g.kw(name)
		g.sp()

		ref := mb()
		g.sp()

		var pat string

		if g.rng.Intn(2) == 0 {
			// 1*list-char
			pool := atomChars + "%*]"
			n := 1 + g.rng.Intn(10)
			b := make([]byte, n)

			for i := range b {
				b[i] = pool[g.rng.Intn(len(pool))]
			}

			pat = string(b)
			g.mark("list-chars")
			g.buf.WriteString(pat)
		} else {
			pat = g.randString()
			g.str(pat)
		}

		if lsub {
			p = &command.LSub{Mailbox: ref, LSubMailbox: pat}
		} else {
			p = &command.List{Mailbox: ref, ListMailbox: pat}
		}
	case kind == 20:
		name = "STATUS"
		g.kw(name)
		g.sp()

		st := &command.Status{Mailbox: mb()}
		g.sp()
		g.buf.WriteByte('(')

		atts := []string{"MESSAGES", "RECENT", "UIDNEXT", "UIDVALIDITY", "UNSEEN"}
		vals := []command.StatusAttribute{command.StatusAttributeMessages, command.StatusAttributeRecent, command.StatusAttributeUIDNext, command.StatusAttributeUIDValidity, command.StatusAttributeUnseen}
		n := 1 + g.rng.Intn(5)

		for i := 0; i < n; i++ {
			if i > 0 {
				g.sp()
			}

			k := g.rng.Intn(5)
			g.kw(atts[k])
			st.Attributes = append(st.Attributes, vals[k])
		}

		g.buf.WriteByte(')')
		p = st
	case kind == 21 || kind == 22:
		name = "APPEND"
		g.kw(name)
		g.sp()

		a := &command.Append{Mailbox: mb()}
		g.sp()

		if g.rng.Intn(2) == 0 {
			a.Flags = g.flagList(true)
			g.sp()
		}

		if g.rng.Intn(2) == 0 {
			a.DateTime = g.dateTime()
			g.sp()
		}

		n := 1 + g.rng.Intn(300)
		lit := make([]byte, n)

		for i := range lit {
			lit[i] = byte(1 + g.rng.Intn(255))
		}

		if g.rng.Intn(3) == 0 {
			copy(lit, "From: a@b\r\nSubject: {3}\r\n\r\nbody) \"\r\n")
		}

		g.literal(string(lit))
		a.Literal = lit
		p = a
	case kind >= 23 && kind <= 25:
		name = "SEARCH"
		g.kw(name)
		g.sp()
		p = g.search()
	case kind >= 26 && kind <= 28:
		name = "FETCH"
		g.kw(name)
		g.sp()
		p = g.fetch()
	case kind == 29 || kind == 30:
		name = "STORE"
		g.kw(name)
		g.sp()
		p = g.store()
	case kind == 31:
		name = "COPY"
		g.kw(name)
		g.sp()

		c := &command.Copy{SeqSet: g.seqSet()}
		g.sp()
		c.Mailbox = mb()
		p = c
	case kind == 32:
		name = "MOVE"
		g.kw(name)
		g.sp()

		c := &command.Move{SeqSet: g.seqSet()}
		g.sp()
		c.Mailbox = mb()
		p = c
	case kind >= 33 && kind <= 36:
		g.kw("UID")
		g.sp()

		switch g.rng.Intn(6) {
		case 0:
			name = "UID COPY"
			g.kw("COPY")
			g.sp()

			c := &command.Copy{SeqSet: g.seqSet()}
			g.sp()
			c.Mailbox = mb()
			p = &command.UID{Command: c}
		case 1:
			name = "UID MOVE"
			g.kw("MOVE")
			g.sp()

			c := &command.Move{SeqSet: g.seqSet()}
			g.sp()
			c.Mailbox = mb()
			p = &command.UID{Command: c}
		case 2:
			name = "UID FETCH"
			g.kw("FETCH")
			g.sp()
			p = &command.UID{Command: g.fetch()}
		case 3:
			name = "UID SEARCH"
			g.kw("SEARCH")
			g.sp()
			p = &command.UID{Command: g.search()}
		case 4:
			name = "UID STORE"
			g.kw("STORE")
			g.sp()
			p = &command.UID{Command: g.store()}
		default:
			name = "UID EXPUNGE"
			g.kw("EXPUNGE")
			g.sp()
			p = &command.UIDExpunge{SeqSet: g.seqSet()}
		}
	default:
		name = "ID"
		g.kw(name)
		g.sp()

		if g.rng.Intn(4) == 0 {
			g.kw("NIL")
			p = &command.IDGet{}
		} else {
			g.buf.WriteByte('(')

			n := g.rng.Intn(4)
			vals := map[string]string{}

			for i := 0; i < n; i++ {
				if i > 0 {
					g.sp()
				}

				k := fmt.Sprintf("%s%d", []string{"name", "version", "os", "vendor key"}[g.rng.Intn(4)], i)
				g.str(k)
				g.sp()

				if g.rng.Intn(4) == 0 {
					g.kw("NIL")
					vals[k] = ""
				} else {
					v := g.randString()
					g.str(v)
					vals[k] = v
				}
			}

			g.buf.WriteByte(')')
			p = &command.IDSet{Values: vals}
		}
	}

	g.buf.WriteString("\r\n")

	return tag, p, name
}

// chunkReader hands the stream out in PRNG-sized pieces.
type chunkReader struct {
	data []byte
	rng  *rand.Rand
	mode int
}

func (c *chunkReader) Read(p []byte) (int, error) {
	if len(c.data) == 0 {
		return 0, io.EOF
	}

	n := len(p)

	switch c.mode {
	case 0:
		n = 1
	case 1:
		n = 1 + c.rng.Intn(7)
	case 2:
		n = 1 + c.rng.Intn(200)
	}

	if n > len(p) {
		n = len(p)
	}

	if n > len(c.data) {
		n = len(c.data)
	}

	copy(p, c.data[:n])
	c.data = c.data[n:]

	return n, nil
}

func runC10(r *ev.Run) {
	r.SetRule("commands generated from the RFC 3501/2971/4315/6851/2177/3691 grammar subset gluon supports (all commands, UID forms, sequence sets, flag lists, fetch attributes/sections/partials, recursive search keys, dates, ID lists), each string argument rendered as atom / quoted / literal (incl. {0}) where the grammar allows, keywords in random letter case, 1-5 commands per stream, the stream handed to the parser in 1-byte / small / medium / whole chunks through the same reader stack the server uses; the parse result must equal the generated command. distinct = distinct (command, feature set, chunk mode) tuples")
	r.Assume("only syntactically valid commands are generated (what the parser accepts beyond the grammar is not judged here)")

	streams := r.Pick(120000, 3000000)
	workers := 16

	type result struct {
		evals int
	}

	ev.Parallel(workers, workers, func(w int) {
		for i := w; i < streams; i += workers {
			label := fmt.Sprintf("stream-%d", i)
			if r.OnlyCase != "" && r.OnlyCase != label {
				continue
			}

			c10Stream(r, label)
		}
	})
}

func c10Stream(r *ev.Run, label string) {
	rng := r.Rand(label)
	g := &cmdGen{rng: rng}

	type exp struct {
		tag, name, dump string
		feats           []string
		start, end      int
	}

	n := 1 + rng.Intn(5)

	var exps []exp

	for i := 0; i < n; i++ {
		start := g.buf.Len()
		tag, p, name := g.command()

		var feats []string
		for f := range g.feat {
			feats = append(feats, f)
		}

		sort.Strings(feats)
		exps = append(exps, exp{tag: tag, name: name, dump: dumpPayload(p), feats: feats, start: start, end: g.buf.Len()})
	}

	stream := append([]byte{}, g.buf.Bytes()...)
	mode := rng.Intn(4)

	conts := 0
	src := &chunkReader{data: append([]byte{}, stream...), rng: rng, mode: mode}
	collector := command.NewInputCollector(bufio.NewReader(src))
	scanner := rfcparser.NewScannerWithReader(collector)
	parser := command.NewParserWithLiteralContinuationCb(scanner, func() error { conts++; return nil })

	for i, e := range exps {
		r.Eval(1)
		r.Distinct(fmt.Sprintf("%s %v chunk=%d", e.name, e.feats, mode))

		var (
			cmd command.Command
			err error
		)

		func() {
			defer func() {
				if v := recover(); v != nil {
					err = fmt.Errorf("panic: %v", v)
				}
			}()

			collector.Reset()
			cmd, err = parser.Parse()
		}()

		text := string(stream[e.start:e.end])

		witness := map[string]any{"stream": fmt.Sprintf("%q", stream), "command_index": i, "command": fmt.Sprintf("%q", text), "chunk_mode": mode, "expected": e.dump}

		if err != nil {
			r.Violate(fmt.Sprintf("C10 valid-command-rejected %s %v", e.name, errFeature(err, e.feats)), fmt.Sprintf("valid command %q rejected: %v", shorten(text, 300), err), label, witness)
			return
		}

		got := dumpPayload(cmd.Payload)
		if cmd.Tag != e.tag {
			r.Violate("C10 wrong-tag "+e.name, fmt.Sprintf("command %q parsed with tag %q, written %q", shorten(text, 200), cmd.Tag, e.tag), label, witness)
			return
		}

		if got != e.dump {
			witness["got"] = got
			r.Violate("C10 wrong-parse "+e.name, fmt.Sprintf("command %q parsed as %s, written %s", shorten(text, 300), shorten(got, 400), shorten(e.dump, 400)), label, witness)

			return
		}

		if r.WantSample() && len(e.feats) >= 3 {
			r.Sample(map[string]any{"command": fmt.Sprintf("%q", text), "chunk_mode": mode, "parsed": shorten(got, 500)})
		}
	}
}

// errFeature narrows the signature of a rejection to the encoding feature most likely involved.
func errFeature(err error, feats []string) string {
	msg := err.Error()

	switch {
	case strings.Contains(msg, "invalid literal size"):
		return "literal{0}"
	case strings.Contains(msg, "panic"):
		return "panic"
	}

	if i := strings.Index(msg, "]: "); i >= 0 {
		msg = msg[i+3:]
	}

	return fmt.Sprintf("%q", shorten(msg, 60))
}

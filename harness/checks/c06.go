package checks

import (
	"bytes"
	"context"
	"fmt"
	"math/rand"
	"sort"
	"strings"
	"sync"
	"time"

	"github.com/ProtonMail/gluon/imap"
	"github.com/ProtonMail/gluon/verifhooks"

	"verifharness/ev"
	"verifharness/hconn"
	"verifharness/imapc"
	"verifharness/srv"
)

func init() { register("C06", "exploration", runC06) }

func runC06(r *ev.Run) {
	r.SetRule("the harness connector is the remote truth. Histories mix (a) valid updates of every kind (MessagesCreated incl. several mailboxes and already-known messages, MessageFlagsUpdated, MessageMailboxesUpdated, MessageDeleted, MessageUpdated with the same and with new bytes and with AllowCreate, MessageIDChanged, MailboxCreated/Deleted/Updated, Noop), (b) invalid ones (unknown message/mailbox IDs, the protected recovery mailbox, duplicate mailbox names), (c) restatements of the current state and duplicate deliveries, (d) client commands whose remote echoes are delivered afterwards. Oracles: every update is acknowledged (watchdog = inconclusive) and never twice (a second Done panics and is recorded); valid ones with success; after every step and a barrier every mailbox seen by a fresh session equals the remote truth (membership, flags, bytes), untouched messages keep their UIDs and LIST equals the remote mailbox names; after (b) and (c) and after echoes the fresh views (UIDs, UIDNEXT, flags, bytes) are unchanged and a selected observer's NOOP carries no EXISTS/EXPUNGE/FETCH/RECENT. A further part delivers MessagesCreated batches of more than 1000 messages for one mailbox, delivers them again and then again with one new message (each acknowledged with success, same UIDs, the new message present). A second part submits bursts of mixed valid/invalid updates from several goroutines and checks one acknowledgement each and convergence. A third part keeps submitting updates while the server is closed or the user removed: every update the server took from the connector must have been acknowledged once Close has returned. distinct = distinct (update kind, variant, ack outcome) triples")
	r.Assume("client STORE commands in (d) use only flags the connector is told about (\\Seen, \\Flagged) plus the per-mailbox \\Deleted: flags gluon keeps locally are by design overwritten by the next remote flag update; MailboxIDChanged is not exercised as a valid update (a connector has no way to learn internal mailbox IDs), only with unknown IDs")

	hist := r.Pick(300, 3000)

	ev.Parallel(hist, 10, func(i int) {
		label := fmt.Sprintf("hist-%d", i)
		if r.OnlyCase != "" && r.OnlyCase != label {
			return
		}

		c06History(r, label, r.Pick(40, 60))
	})

	shutdowns := r.Pick(40, 400)

	ev.Parallel(shutdowns, 8, func(i int) {
		label := fmt.Sprintf("shutdown-%d", i)
		if r.OnlyCase != "" && r.OnlyCase != label {
			return
		}

		c06Shutdown(r, label)
	})

	// batches beyond the index's statement-batching limit (1000), delivered, delivered again, and again with news
	ev.Parallel(r.Pick(2, 12), 4, func(i int) {
		label := fmt.Sprintf("large-%d", i)
		if r.OnlyCase != "" && r.OnlyCase != label {
			return
		}

		c06LargeBatch(r, label)
	})

	bursts := r.Pick(30, 300)

	ev.Parallel(bursts, 6, func(i int) {
		label := fmt.Sprintf("burst-%d", i)
		if r.OnlyCase != "" && r.OnlyCase != label {
			return
		}

		c06Burst(r, label)
	})
}

type c06Case struct {
	r     *ev.Run
	w     *world
	obs   *vsess
	act   *vsess
	rng   *rand.Rand
	conn  *hconn.Connector
	snap  map[string]*BoxView
	gone  []imap.MessageID // remote message ids that were deleted
	goneB []imap.MailboxID // remote mailbox ids that were deleted
	nBox  int

	// a constructor of the last valid update, for duplicate delivery
	lastValid     func() imap.Update
	lastValidKind string
}

const c06Delim = "/"

func markerOfLiteral(lit []byte) string {
	key := []byte(markerHeader + ": ")

	i := bytes.Index(lit, key)
	if i < 0 {
		return ""
	}

	rest := lit[i+len(key):]
	if j := bytes.Index(rest, []byte("\r\n")); j >= 0 {
		rest = rest[:j]
	}

	return string(rest)
}

func gluonIDOfBody(body []byte) string {
	key := []byte(verifhooks.InternalIDKey + ": ")

	i := bytes.Index(body, key)
	if i < 0 {
		return ""
	}

	rest := body[i+len(key):]
	if j := bytes.Index(rest, []byte("\r\n")); j >= 0 {
		rest = rest[:j]
	}

	return string(rest)
}

func remoteFlagKey(fs imap.FlagSet) string {
	var out []string

	for _, f := range fs.ToSlice() {
		lf := strings.ToLower(f)
		if lf == `\deleted` || lf == `\recent` {
			continue
		}

		out = append(out, lf)
	}

	sort.Strings(out)

	return strings.Join(out, " ")
}

func viewFlagKeyNoDeleted(m MsgView) string {
	var out []string

	for _, f := range m.Flags {
		if f == `\deleted` {
			continue
		}

		out = append(out, f)
	}

	return strings.Join(out, " ")
}

// boxNames: remote mailbox id -> IMAP name.
func (c *c06Case) boxNames() map[imap.MailboxID]string {
	out := map[imap.MailboxID]string{}
	for id, path := range c.conn.MailboxNames() {
		out[id] = strings.Join(path, c06Delim)
	}

	return out
}

func (c *c06Case) sortedBoxIDs() []imap.MailboxID {
	var ids []imap.MailboxID
	for id := range c.conn.MailboxNames() {
		ids = append(ids, id)
	}

	sort.Slice(ids, func(i, j int) bool { return ids[i] < ids[j] })

	return ids
}

// snapshot takes fresh views of every remote mailbox.
func (c *c06Case) snapshot() (map[string]*BoxView, bool) {
	out := map[string]*BoxView{}

	for _, name := range c.boxNames() {
		v, err := freshView(c.w.s, 0, name, true)
		if err != nil {
			c.w.violate("C06 mailbox-not-viewable", fmt.Sprintf("mailbox %q of the remote cannot be examined: %v", name, err), nil)
			return nil, false
		}

		out[name] = v
	}

	return out, true
}

// checkTruth compares a snapshot (and LIST) with the remote truth. touched: markers whose UIDs may change.
func (c *c06Case) checkTruth(after map[string]*BoxView, what string, touched map[string]bool) bool {
	names := c.boxNames()

	// LIST
	lc, err := c.w.s.Login("list")
	if err == nil {
		got, lerr := listNames(lc, `LIST "" "*"`)
		lc.Close()

		if lerr == nil {
			var want []string
			for _, n := range names {
				want = append(want, n)
			}

			var g2 []string

			for _, n := range got {
				if n != verifhooks.RecoveryMailboxName {
					g2 = append(g2, n)
				}
			}

			if !eqStrings(sortedCopy(want), sortedCopy(g2)) {
				c.w.violate("C06 mailbox-list-differs after "+what, fmt.Sprintf("after %s LIST shows %v, the remote has %v", what, sortedCopy(g2), sortedCopy(want)), nil)
				return false
			}
		}
	}

	for id, name := range names {
		v := after[name]
		if v == nil {
			continue
		}

		want := map[string]hconn.MsgInfo{}

		for _, m := range c.conn.AllMessages() {
			for _, mb := range m.Mailboxes {
				if mb == id {
					want[markerOfLiteral(m.Literal)] = m
				}
			}
		}

		seen := map[string]bool{}

		for _, m := range v.Msgs {
			if seen[m.Marker] {
				c.w.violate("C06 message-twice after "+what, fmt.Sprintf("after %s mailbox %q holds message %s twice", what, name, m.Marker), nil)
				return false
			}

			seen[m.Marker] = true

			rm, ok := want[m.Marker]
			if !ok {
				c.w.violate("C06 extra-message after "+what, fmt.Sprintf("after %s mailbox %q holds message %s which the remote does not have there", what, name, m.Marker), nil)
				return false
			}

			if viewFlagKeyNoDeleted(m) != remoteFlagKey(rm.Flags) {
				c.w.violate("C06 flags-differ after "+what, fmt.Sprintf("after %s message %s in %q has flags (%s), the remote says (%s)", what, m.Marker, name, viewFlagKeyNoDeleted(m), remoteFlagKey(rm.Flags)), nil)
				return false
			}

			gb, _ := stripGluonID(m.Body)
			wb, _ := stripGluonID(rm.Literal)

			if !bytes.Equal(gb, wb) {
				c.w.violate("C06 bytes-differ after "+what, fmt.Sprintf("after %s message %s in %q has %d bytes, the remote's literal has %d", what, m.Marker, name, len(gb), len(wb)), nil)
				return false
			}
		}

		for mk := range want {
			if !seen[mk] {
				c.w.violate("C06 missing-message after "+what, fmt.Sprintf("after %s mailbox %q lacks message %s which the remote has there", what, name, mk), nil)
				return false
			}
		}

		// UID stability of what the update did not touch.
		if before := c.snap[name]; before != nil && before.UIDValidity == v.UIDValidity {
			old := map[string]uint32{}
			for _, m := range before.Msgs {
				old[m.Marker] = m.UID
			}

			for _, m := range v.Msgs {
				if u, ok := old[m.Marker]; ok && u != m.UID && !touched[m.Marker] && !touched["*"] {
					c.w.violate("C06 uid-changed after "+what, fmt.Sprintf("after %s message %s in %q moved from UID %d to UID %d although the update did not remove it from that mailbox", what, m.Marker, name, u, m.UID), nil)
					return false
				}
			}
		}
	}

	return true
}

func c06SameSnapshot(a, b map[string]*BoxView) string {
	for name, va := range a {
		vb := b[name]
		if vb == nil {
			return fmt.Sprintf("mailbox %q disappeared", name)
		}

		if va.UIDValidity != vb.UIDValidity || va.UIDNext != vb.UIDNext {
			return fmt.Sprintf("mailbox %q went from UIDVALIDITY %d UIDNEXT %d to UIDVALIDITY %d UIDNEXT %d", name, va.UIDValidity, va.UIDNext, vb.UIDValidity, vb.UIDNext)
		}

		if len(va.Msgs) != len(vb.Msgs) {
			return fmt.Sprintf("mailbox %q went from %d to %d messages", name, len(va.Msgs), len(vb.Msgs))
		}

		for i := range va.Msgs {
			x, y := va.Msgs[i], vb.Msgs[i]
			if x.UID != y.UID || x.Marker != y.Marker || x.FlagKey() != y.FlagKey() || !bytes.Equal(x.Body, y.Body) {
				return fmt.Sprintf("message %d of %q went from UID %d %s (%s) %d bytes to UID %d %s (%s) %d bytes", i+1, name, x.UID, x.Marker, x.FlagKey(), len(x.Body), y.UID, y.Marker, y.FlagKey(), len(y.Body))
			}
		}
	}

	for name := range b {
		if a[name] == nil {
			return fmt.Sprintf("mailbox %q appeared", name)
		}
	}

	return ""
}

// drain lets the observer (and the actor) collect what is pending for them.
func (c *c06Case) drain() bool {
	for _, s := range []*vsess{c.obs, c.act} {
		if s.dead || s.box == "" {
			continue
		}

		c.w.exec(s, "NOOP")

		if c.w.isFailed() {
			return false
		}
	}

	return true
}

// silent checks that the sessions have nothing to be told.
func (c *c06Case) silent(what string) bool {
	for _, s := range []*vsess{c.obs, c.act} {
		if s.dead || s.box == "" {
			continue
		}

		res := c.w.exec(s, "NOOP")
		if c.w.isFailed() {
			return false
		}

		for _, u := range res.Untagged {
			switch u.Kind {
			case "EXISTS", "EXPUNGE", "FETCH", "RECENT":
				c.w.violate("C06 replay-announced "+u.Kind+" after "+what, fmt.Sprintf("%s, which only restates the current state, made %s (selected on %q) receive %q", what, s.name, s.box, u.String()), nil)
				return false
			}
		}
	}

	return true
}

// apply submits an update and waits for the acknowledgement. A watchdog expiry alone decides nothing:
// updates are processed in order, so the update counts as never acknowledged only when a Noop submitted
// after it has been acknowledged while it still has not; otherwise the run is inconclusive.
func (c *c06Case) apply(kind string, up imap.Update) hconn.Ack {
	ack := c.conn.Apply(up, srv.UpdateTimeout)
	c.w.logf("connector %s: %s -> acked=%v err=%v", kind, shorten(up.String(), 160), ack.Acked, ack.Err)

	if !ack.Acked {
		later := c.conn.Apply(imap.NewNoop(), srv.UpdateTimeout)

		ctx, cancel := context.WithTimeout(context.Background(), 50*time.Millisecond)
		err, ok := up.WaitContext(ctx)
		stillOpen := !ok && ctx.Err() != nil
		cancel()

		switch {
		case !stillOpen:
			ack.Acked, ack.Err = true, err
		case later.Acked:
			c.w.violate("C06 update-not-acknowledged "+kind, fmt.Sprintf("the update %s was never acknowledged although a Noop submitted after it was", kind), nil)
		default:
			c.r.Inconclusive("%s: neither %s nor a later Noop were acknowledged within the watchdog", c.w.label, kind)
			c.w.mu.Lock()
			c.w.failed = true
			c.w.mu.Unlock()
		}
	}

	return ack
}

func (c *c06Case) settle() bool {
	return mustQuiesce(c.r, c.w.s, 0, c.w.label)
}

func (c *c06Case) pickMsg() (hconn.MsgInfo, bool) {
	all := c.conn.AllMessages()
	if len(all) == 0 {
		return hconn.MsgInfo{}, false
	}

	return all[c.rng.Intn(len(all))], true
}

func (c *c06Case) pickBoxes(min, max int) []imap.MailboxID {
	ids := c.sortedBoxIDs()
	n := min + c.rng.Intn(max-min+1)

	if n > len(ids) {
		n = len(ids)
	}

	var out []imap.MailboxID
	for _, p := range c.rng.Perm(len(ids))[:n] {
		out = append(out, ids[p])
	}

	return out
}

var c06RemoteFlagPool = []string{imap.FlagSeen, imap.FlagFlagged, imap.FlagAnswered, imap.FlagDraft, "kwremote"}

func (c *c06Case) pickRemoteFlags() imap.FlagSet {
	fs := imap.NewFlagSet()

	for _, f := range c06RemoteFlagPool {
		if c.rng.Intn(3) == 0 {
			fs = fs.Add(f)
		}
	}

	return fs
}

func (c *c06Case) busyBox(id imap.MailboxID) bool {
	name := c.boxNames()[id]

	return strings.EqualFold(name, "INBOX") || name == c.obs.box || name == c.act.box
}

var c06Date = time.Unix(1136214245, 0).UTC()

// valid builds and applies one valid update. Returns the kind label ("" = nothing done) and the touched markers.
func (c *c06Case) valid() (string, map[string]bool, bool) {
	touched := map[string]bool{}

	var (
		kind string
		mk   func() imap.Update
	)

	switch k := c.rng.Intn(100); {
	case k < 22: // MessagesCreated
		n := c.rng.Intn(4)

		type spec struct {
			lit   []byte
			flags imap.FlagSet
			boxes []imap.MailboxID
			id    imap.MessageID
		}

		var specs []spec

		for i := 0; i < n; i++ {
			mc, err := c.conn.RemoteAddMessage(simpleMessage(c.w.marker(), c.rng), c.pickRemoteFlags(), c06Date, c.pickBoxes(1, 2)...)
			if err != nil {
				continue
			}

			specs = append(specs, spec{lit: mc.Literal, flags: mc.Message.Flags, boxes: mc.MailboxIDs, id: mc.Message.ID})
		}

		variant := "new"

		// sometimes a known message with one more mailbox rides along
		if mi, ok := c.pickMsg(); ok && (n == 0 || c.rng.Intn(3) == 0) {
			extra := c.pickBoxes(1, 1)
			boxes := dedupMailboxIDs(append(append([]imap.MailboxID{}, mi.Mailboxes...), extra...))
			c.conn.RemoteSetMailboxes(mi.ID, boxes)
			specs = append(specs, spec{lit: mi.Literal, flags: mi.Flags, boxes: boxes, id: mi.ID})
			variant = "new+known"

			if n == 0 {
				variant = "known-only"
			}
		}

		if len(specs) == 0 {
			return "", nil, true
		}

		ignore := c.rng.Intn(2) == 0
		withUnknown := ignore && c.rng.Intn(3) == 0

		if withUnknown {
			variant += "+unknown-mailbox-ignored"
		}

		kind = "MessagesCreated " + variant
		mk = func() imap.Update {
			var created []*imap.MessageCreated

			for _, s := range specs {
				parsed, err := imap.NewParsedMessage(s.lit)
				if err != nil {
					continue
				}

				boxes := append([]imap.MailboxID{}, s.boxes...)
				if withUnknown {
					boxes = append(boxes, "no-such-remote-mailbox")
				}

				created = append(created, &imap.MessageCreated{
					Message:       imap.Message{ID: s.id, Flags: s.flags.Clone(), Date: c06Date},
					Literal:       append([]byte{}, s.lit...),
					MailboxIDs:    boxes,
					ParsedMessage: parsed,
				})
			}

			return imap.NewMessagesCreated(ignore, created...)
		}
	case k < 36: // flags
		mi, ok := c.pickMsg()
		if !ok {
			return "", nil, true
		}

		fl := c.pickRemoteFlags()
		c.conn.RemoteSetFlags(mi.ID, fl)
		kind = "MessageFlagsUpdated"
		mk = func() imap.Update { return imap.NewMessageFlagsUpdated(mi.ID, fl.Clone()) }
	case k < 52: // mailboxes
		mi, ok := c.pickMsg()
		if !ok {
			return "", nil, true
		}

		var target []imap.MailboxID

		variant := ""

		switch c.rng.Intn(4) {
		case 0:
			target, variant = c.pickBoxes(1, 1), "move"
		case 1:
			target, variant = dedupMailboxIDs(append(append([]imap.MailboxID{}, mi.Mailboxes...), c.pickBoxes(1, 1)...)), "add"
		case 2:
			if len(mi.Mailboxes) > 0 {
				target = mi.Mailboxes[1:]
			}

			variant = "remove"
		default:
			target, variant = c.pickBoxes(0, 3), "set"
		}

		fl := mi.Flags
		if c.rng.Intn(2) == 0 {
			fl = c.pickRemoteFlags()
			variant += "+flags"
		}

		c.conn.RemoteSetMailboxes(mi.ID, target)
		c.conn.RemoteSetFlags(mi.ID, fl)
		kind = "MessageMailboxesUpdated " + variant
		mk = func() imap.Update {
			return imap.NewMessageMailboxesUpdated(mi.ID, append([]imap.MailboxID{}, target...), fl.Clone())
		}
	case k < 60: // deleted
		mi, ok := c.pickMsg()
		if !ok {
			return "", nil, true
		}

		c.conn.RemoteDeleteMessage(mi.ID)
		c.gone = append(c.gone, mi.ID)
		kind = "MessageDeleted"
		mk = func() imap.Update { return imap.NewMessagesDeleted(mi.ID) }
	case k < 78: // MessageUpdated
		mi, ok := c.pickMsg()
		variant := ""

		var (
			lit    []byte
			id     imap.MessageID
			boxes  []imap.MailboxID
			fl     imap.FlagSet
			create bool
		)

		switch v := c.rng.Intn(4); {
		case v == 0 || !ok: // unknown message
			create = c.rng.Intn(2) == 0
			lit = simpleMessage(c.w.marker(), c.rng)
			fl = c.pickRemoteFlags()
			boxes = c.pickBoxes(1, 2)

			if create {
				mc, err := c.conn.RemoteAddMessage(lit, fl, c06Date, boxes...)
				if err != nil {
					return "", nil, true
				}

				id = mc.Message.ID
				variant = "unknown allow-create"
			} else {
				id = c.conn.NewMessageID()
				variant = "unknown no-create"
			}
		case v == 1: // new bytes
			id, fl, boxes = mi.ID, c.pickRemoteFlags(), c.pickBoxes(0, 2)
			mkr := markerOfLiteral(mi.Literal)
			lit = append(simpleMessage(mkr, c.rng), []byte(fmt.Sprintf("edited at step %d\r\n", c.w.nextID))...)
			touched[mkr] = true
			create = c.rng.Intn(2) == 0
			variant = "new-bytes"

			c.conn.RemoteSetLiteral(id, lit)
			c.conn.RemoteSetFlags(id, fl)
			c.conn.RemoteSetMailboxes(id, boxes)
		default: // same bytes, new flags and/or mailboxes
			id, lit = mi.ID, mi.Literal
			fl, boxes = mi.Flags, mi.Mailboxes
			variant = "same-bytes"

			if c.rng.Intn(2) == 0 {
				fl = c.pickRemoteFlags()
				variant += "+flags"
			}

			if c.rng.Intn(2) == 0 {
				boxes = c.pickBoxes(0, 2)
				variant += "+mailboxes"
			}

			create = c.rng.Intn(2) == 0

			c.conn.RemoteSetFlags(id, fl)
			c.conn.RemoteSetMailboxes(id, boxes)
		}

		kind = "MessageUpdated " + variant
		mk = func() imap.Update {
			parsed, _ := imap.NewParsedMessage(lit)

			return imap.NewMessageUpdated(imap.Message{ID: id, Flags: fl.Clone(), Date: c06Date}, append([]byte{}, lit...), append([]imap.MailboxID{}, boxes...), parsed, create)
		}
	case k < 84: // MessageIDChanged
		mi, ok := c.pickMsg()
		if !ok || len(mi.Mailboxes) == 0 {
			return "", nil, true
		}

		// the internal id is in the header gluon adds to the bytes it serves
		internal := ""
		mkr := markerOfLiteral(mi.Literal)

		for _, v := range c.snap {
			for _, m := range v.Msgs {
				if m.Marker == mkr {
					internal = gluonIDOfBody(m.Body)
				}
			}
		}

		iid, err := imap.InternalMessageIDFromString(internal)
		if internal == "" || err != nil {
			return "", nil, true
		}

		newID := c.conn.NewMessageID()
		c.conn.RemoteChangeMessageID(mi.ID, newID)
		c.gone = append(c.gone, mi.ID)
		kind = "MessageIDChanged"
		mk = func() imap.Update { return imap.NewMessageIDChanged(iid, newID) }
	case k < 89: // MailboxCreated
		c.nBox++
		id := c.conn.NewMailboxID()
		mb := c.conn.RemoteMailbox(id, []string{fmt.Sprintf("Remote%d", c.nBox)})
		kind = "MailboxCreated"
		mk = func() imap.Update { return imap.NewMailboxCreated(mb) }
	case k < 93: // MailboxDeleted
		var cand []imap.MailboxID

		for _, id := range c.sortedBoxIDs() {
			if !c.busyBox(id) {
				cand = append(cand, id)
			}
		}

		if len(cand) == 0 {
			return "", nil, true
		}

		id := cand[c.rng.Intn(len(cand))]
		c.conn.RemoteDeleteMailbox(id)
		c.goneB = append(c.goneB, id)
		kind = "MailboxDeleted"
		mk = func() imap.Update { return imap.NewMailboxDeleted(id) }
	case k < 97: // MailboxUpdated (rename)
		var cand []imap.MailboxID

		for _, id := range c.sortedBoxIDs() {
			if !c.busyBox(id) {
				cand = append(cand, id)
			}
		}

		if len(cand) == 0 {
			return "", nil, true
		}

		id := cand[c.rng.Intn(len(cand))]
		c.nBox++
		name := []string{fmt.Sprintf("Renamed%d", c.nBox)}
		kind = "MailboxUpdated"

		// sometimes the new name differs from the current one only in the case of its letters
		if cur := c.conn.MailboxNames()[id]; c.rng.Intn(3) == 0 && len(cur) == 1 {
			flipped := strings.Map(func(r rune) rune {
				switch {
				case r >= 'a' && r <= 'z':
					return r - 32
				case r >= 'A' && r <= 'Z':
					return r + 32
				}

				return r
			}, cur[0])

			if flipped != cur[0] {
				name = []string{flipped}
				kind = "MailboxUpdated case-only"
			}
		}

		c.conn.RemoteRenameMailbox(id, name)
		mk = func() imap.Update { return imap.NewMailboxUpdated(id, name) }
	default:
		kind = "Noop"
		mk = func() imap.Update { return imap.NewNoop() }
	}

	ack := c.apply(kind, mk())
	if !ack.Acked {
		return kind, touched, false
	}

	c.r.Distinct(fmt.Sprintf("valid %s ok=%v", kind, ack.Err == nil))

	if ack.Err != nil {
		c.w.violate("C06 valid-update-failed "+kind, fmt.Sprintf("the valid update %s was acknowledged with error %v", kind, ack.Err), nil)
		return kind, touched, false
	}

	c.lastValid, c.lastValidKind = mk, kind

	return kind, touched, true
}

// invalid builds and applies an update that cannot be applied (or must be skipped).
func (c *c06Case) invalid() (string, bool) {
	recovery := imap.MailboxID(verifhooks.RecoveryMailboxRemoteID)
	unknownMsg := imap.MessageID("no-such-remote-message")
	unknownBox := imap.MailboxID("no-such-remote-mailbox")

	var (
		kind string
		up   imap.Update
	)

	mi, haveMsg := c.pickMsg()

	switch c.rng.Intn(16) {
	case 0:
		kind, up = "MessageFlagsUpdated unknown-message", imap.NewMessageFlagsUpdated(unknownMsg, c.pickRemoteFlags())
	case 1:
		kind, up = "MessageMailboxesUpdated unknown-message", imap.NewMessageMailboxesUpdated(unknownMsg, c.pickBoxes(1, 2), c.pickRemoteFlags())
	case 2:
		if !haveMsg {
			return "", true
		}

		// current mailboxes plus one the server has never heard of: whether the server skips unknown
		// mailboxes or rejects the update, nothing changes
		kind, up = "MessageMailboxesUpdated unknown-mailbox", imap.NewMessageMailboxesUpdated(mi.ID, append(append([]imap.MailboxID{}, mi.Mailboxes...), unknownBox), mi.Flags)
	case 3:
		if !haveMsg {
			return "", true
		}

		kind, up = "MessageMailboxesUpdated recovery-mailbox", imap.NewMessageMailboxesUpdated(mi.ID, append(append([]imap.MailboxID{}, mi.Mailboxes...), recovery), mi.Flags)
	case 4, 5:
		lit := simpleMessage(c.w.marker(), c.rng)
		parsed, _ := imap.NewParsedMessage(lit)
		boxes := []imap.MailboxID{unknownBox}
		kind = "MessagesCreated unknown-mailbox"
		up = imap.NewMessagesCreated(false, &imap.MessageCreated{Message: imap.Message{ID: c.conn.NewMessageID(), Flags: c.pickRemoteFlags(), Date: c06Date}, Literal: lit, MailboxIDs: boxes, ParsedMessage: parsed})
	case 6:
		lit := simpleMessage(c.w.marker(), c.rng)
		parsed, _ := imap.NewParsedMessage(lit)
		kind = "MessagesCreated recovery-mailbox"
		up = imap.NewMessagesCreated(c.rng.Intn(2) == 0, &imap.MessageCreated{Message: imap.Message{ID: c.conn.NewMessageID(), Flags: c.pickRemoteFlags(), Date: c06Date}, Literal: lit, MailboxIDs: []imap.MailboxID{recovery}, ParsedMessage: parsed})
	case 7:
		kind, up = "MailboxCreated recovery-id", imap.NewMailboxCreated(imap.Mailbox{ID: recovery, Name: []string{"Stolen"}, Flags: imap.NewFlagSet(), PermanentFlags: imap.NewFlagSet(), Attributes: imap.NewFlagSet()})
	case 8:
		kind, up = "MailboxDeleted recovery-id", imap.NewMailboxDeleted(recovery)
	case 9:
		kind, up = "MailboxUpdated recovery-id", imap.NewMailboxUpdated(recovery, []string{"Stolen"})
	case 10:
		// a second remote mailbox with a name that is taken
		names := c.boxNames()
		ids := c.sortedBoxIDs()
		taken := names[ids[c.rng.Intn(len(ids))]]
		kind = "MailboxCreated name-taken"
		up = imap.NewMailboxCreated(imap.Mailbox{ID: c.conn.NewMailboxID(), Name: strings.Split(taken, c06Delim), Flags: imap.NewFlagSet(), PermanentFlags: imap.NewFlagSet(), Attributes: imap.NewFlagSet()})
	case 11:
		kind, up = "MailboxDeleted unknown", imap.NewMailboxDeleted(unknownBox)
	case 12:
		kind, up = "MailboxUpdated unknown", imap.NewMailboxUpdated(unknownBox, []string{"Nothing"})
	case 13:
		kind, up = "MessageDeleted unknown", imap.NewMessagesDeleted(unknownMsg)
	case 14:
		kind, up = "MessageIDChanged unknown", imap.NewMessageIDChanged(imap.NewInternalMessageID(), c.conn.NewMessageID())
	default:
		lit := simpleMessage(c.w.marker(), c.rng)
		parsed, _ := imap.NewParsedMessage(lit)
		kind = "MessageUpdated unknown-mailbox"
		up = imap.NewMessageUpdated(imap.Message{ID: c.conn.NewMessageID(), Flags: c.pickRemoteFlags(), Date: c06Date}, lit, []imap.MailboxID{unknownBox}, parsed, true)
	}

	ack := c.apply(kind, up)
	if !ack.Acked {
		return kind, false
	}

	c.r.Distinct(fmt.Sprintf("invalid %s ok=%v", kind, ack.Err == nil))

	return kind, true
}

// restate builds and applies an update that describes what is already the case.
func (c *c06Case) restate() (string, bool) {
	var (
		kind string
		up   imap.Update
	)

	mi, haveMsg := c.pickMsg()
	names := c.conn.MailboxNames()
	ids := c.sortedBoxIDs()

	switch k := c.rng.Intn(10); {
	case k == 0 && c.lastValid != nil:
		kind, up = "duplicate of "+c.lastValidKind, c.lastValid()
	case k == 1 && haveMsg:
		kind, up = "MessageFlagsUpdated current", imap.NewMessageFlagsUpdated(mi.ID, mi.Flags.Clone())
	case k == 2 && haveMsg:
		kind, up = "MessageMailboxesUpdated current", imap.NewMessageMailboxesUpdated(mi.ID, mi.Mailboxes, mi.Flags.Clone())
	case k == 3 && haveMsg && len(mi.Mailboxes) > 0:
		parsed, _ := imap.NewParsedMessage(mi.Literal)
		kind = "MessagesCreated known-message"
		up = imap.NewMessagesCreated(c.rng.Intn(2) == 0, &imap.MessageCreated{Message: imap.Message{ID: mi.ID, Flags: mi.Flags.Clone(), Date: c06Date}, Literal: mi.Literal, MailboxIDs: mi.Mailboxes, ParsedMessage: parsed})
	case k == 4 && haveMsg:
		parsed, _ := imap.NewParsedMessage(mi.Literal)
		kind = "MessageUpdated current"
		up = imap.NewMessageUpdated(imap.Message{ID: mi.ID, Flags: mi.Flags.Clone(), Date: c06Date}, mi.Literal, mi.Mailboxes, parsed, c.rng.Intn(2) == 0)
	case k == 5 && len(c.gone) > 0:
		kind, up = "MessageDeleted again", imap.NewMessagesDeleted(c.gone[c.rng.Intn(len(c.gone))])
	case k == 6 && len(c.goneB) > 0:
		kind, up = "MailboxDeleted again", imap.NewMailboxDeleted(c.goneB[c.rng.Intn(len(c.goneB))])
	case k == 7:
		id := ids[c.rng.Intn(len(ids))]
		kind, up = "MailboxCreated existing", imap.NewMailboxCreated(c.conn.RemoteMailbox(id, names[id]))
	case k == 8:
		id := ids[c.rng.Intn(len(ids))]
		kind, up = "MailboxUpdated same-name", imap.NewMailboxUpdated(id, names[id])
	default:
		kind, up = "Noop", imap.NewNoop()
	}

	ack := c.apply("restate "+kind, up)
	if !ack.Acked {
		return kind, false
	}

	c.r.Distinct(fmt.Sprintf("restate %s ok=%v", kind, ack.Err == nil))

	return kind, true
}

// client lets the acting session do something whose remote echo comes back later.
func (c *c06Case) client() (string, bool) {
	a := c.act
	n := len(a.mir.Entries)
	names := c.boxNames()
	ids := c.sortedBoxIDs()
	other := names[ids[c.rng.Intn(len(ids))]]

	var (
		kind string
		res  *imapc.Result
	)

	seq := func() string {
		x := 1 + c.rng.Intn(n)
		y := x + c.rng.Intn(n-x+1)

		if x == y {
			return fmt.Sprint(x)
		}

		return fmt.Sprintf("%d:%d", x, y)
	}

	switch k := c.rng.Intn(100); {
	case k < 30 || n == 0:
		var fl []string

		for _, f := range []string{`\Seen`, `\Flagged`, `\Answered`, `\Draft`, `\Deleted`} {
			if c.rng.Intn(4) == 0 {
				fl = append(fl, f)
			}
		}

		kind = "APPEND"
		res = c.w.exec(a, fmt.Sprintf("APPEND %s (%s) ", imapc.Quote(other), strings.Join(fl, " ")), imapc.Lit(simpleMessage(c.w.marker(), c.rng)))
	case k < 55:
		fl := []string{`\Seen`, `\Flagged`, `\Deleted`, `\Seen \Flagged`}[c.rng.Intn(4)]
		op := []string{"+FLAGS", "-FLAGS"}[c.rng.Intn(2)]
		kind = "STORE"
		res = c.w.exec(a, fmt.Sprintf("STORE %s %s (%s)", seq(), op, fl))
	case k < 70:
		kind = "COPY"
		res = c.w.exec(a, fmt.Sprintf("COPY %s %s", seq(), imapc.Quote(other)))
	case k < 85:
		kind = "MOVE"
		res = c.w.exec(a, fmt.Sprintf("MOVE %s %s", seq(), imapc.Quote(other)))
	case k < 93:
		kind = "EXPUNGE"
		c.w.exec(a, fmt.Sprintf(`STORE %s +FLAGS (\Deleted)`, seq()))
		res = c.w.exec(a, "EXPUNGE")
	default:
		c.nBox++
		kind = "CREATE"
		res = c.w.exec(a, fmt.Sprintf("CREATE Client%d", c.nBox))
	}

	if c.w.isFailed() {
		return kind, false
	}

	// the state moved on: the last connector update is no longer a restatement
	c.lastValid = nil

	c.r.Distinct("client " + kind + " " + res.Status)

	return kind, true
}

func sameMailboxSet(a, b []imap.MailboxID) bool {
	if len(a) != len(b) {
		return false
	}

	m := map[imap.MailboxID]bool{}
	for _, x := range a {
		m[x] = true
	}

	for _, x := range b {
		if !m[x] {
			return false
		}
	}

	return len(m) == len(a)
}

// restatesCurrent tells whether an echo describes the remote's current state.
func (c *c06Case) restatesCurrent(e imap.Update) bool {
	switch u := e.(type) {
	case *imap.MessagesCreated:
		for _, m := range u.Messages {
			mi, ok := c.conn.Message(m.Message.ID)
			if !ok || !sameMailboxSet(mi.Mailboxes, m.MailboxIDs) {
				return false
			}
		}

		return true
	case *imap.MessageMailboxesUpdated:
		mi, ok := c.conn.Message(u.MessageID)

		return ok && sameMailboxSet(mi.Mailboxes, u.MailboxIDs) && remoteFlagKey(mi.Flags) == remoteFlagKey(u.Flags)
	case *imap.MessageFlagsUpdated:
		mi, ok := c.conn.Message(u.MessageID)

		return ok && remoteFlagKey(mi.Flags) == remoteFlagKey(u.Flags)
	default:
		return true
	}
}

func c06History(r *ev.Run, label string, steps int) {
	rng := r.Rand(label)

	w, err := newWorld(r, "C06", label, 2, []string{"INBOX", "Side", "Third"}, func(o *srv.Options) { o.CollectEchoes = true })
	if err != nil {
		r.Inconclusive("%s: %v", label, err)
		return
	}

	defer w.close()

	c := &c06Case{r: r, w: w, obs: w.sess[0], act: w.sess[1], rng: rng, conn: w.s.Users[0].Conn}

	if !w.selectBox(c.obs, []string{"INBOX", "Side"}[rng.Intn(2)], false) || !w.selectBox(c.act, []string{"INBOX", "Side"}[rng.Intn(2)], false) {
		return
	}

	c.conn.TakeEchoes()

	var ok bool

	if c.snap, ok = c.snapshot(); !ok {
		return
	}

	r.Eval(1)

	for step := 0; step < steps && !w.isFailed(); step++ {
		k := rng.Intn(100)

		switch {
		case k < 38:
			kind, touched, ok := c.valid()
			if !ok || kind == "" {
				if !ok {
					return
				}

				continue
			}

			if !c.settle() || !c.drain() {
				return
			}

			after, ok := c.snapshot()
			if !ok || !c.checkTruth(after, kind, touched) {
				return
			}

			c.snap = after
		case k < 58:
			kind, ok := c.invalid()
			if !ok || kind == "" {
				if !ok {
					return
				}

				continue
			}

			if !c.settle() || !c.silent(kind) {
				return
			}

			after, ok := c.snapshot()
			if !ok {
				return
			}

			if d := c06SameSnapshot(c.snap, after); d != "" {
				w.violate("C06 rejected-update-changed-state "+kind, fmt.Sprintf("after the update %s: %s", kind, d), nil)
				return
			}

			c.snap = after
		case k < 80:
			kind, ok := c.restate()
			if !ok {
				return
			}

			if !c.settle() || !c.silent(kind) {
				return
			}

			after, ok := c.snapshot()
			if !ok {
				return
			}

			if d := c06SameSnapshot(c.snap, after); d != "" {
				w.violate("C06 restatement-changed-state "+kind, fmt.Sprintf("after the update %s, which only restates the current state: %s", kind, d), nil)
				return
			}

			c.snap = after
		default:
			kind, ok := c.client()
			if !ok {
				return
			}

			if !c.settle() || !c.drain() {
				return
			}

			before, ok := c.snapshot()
			if !ok || !c.checkTruth(before, "client "+kind, map[string]bool{"*": true}) {
				return
			}

			c.snap = before

			echoes := c.conn.TakeEchoes()
			if len(echoes) == 0 {
				continue
			}

			delivered := 0

			for _, e := range echoes {
				// A command that makes several remote calls produces echoes of intermediate states;
				// only the ones that describe what is the case now are restatements.
				if !c.restatesCurrent(e) {
					w.logf("echo %s describes an intermediate state: not delivered", shorten(e.String(), 120))
					r.Count("echoes_of_intermediate_states_skipped", 1)

					continue
				}

				delivered++

				ack := c.apply("echo", e)
				if !ack.Acked {
					return
				}

				r.Distinct(fmt.Sprintf("echo of %s: %T ok=%v", kind, e, ack.Err == nil))
			}

			if delivered == 0 {
				continue
			}

			r.Count("echoes_delivered", delivered)

			what := "the echo of the client's " + kind

			if !c.settle() || !c.silent(what) {
				return
			}

			after, ok := c.snapshot()
			if !ok {
				return
			}

			if d := c06SameSnapshot(before, after); d != "" {
				w.violate("C06 echo-changed-state "+kind, fmt.Sprintf("after %s: %s", what, d), nil)
				return
			}

			c.snap = after
		}
	}

	if !w.isFailed() && r.WantSample() {
		l := w.getLog()
		if len(l) > 40 {
			l = l[:40]
		}

		r.Sample(map[string]any{"case": label, "first_events": l})
	}
}

// c06Burst submits many updates from several goroutines at once: every one is acknowledged once,
// the pipeline keeps going after the failing ones, and the commutative valid ones all took effect.
// c06LargeBatch delivers one MessagesCreated with more than 1000 messages for one mailbox, delivers it again (a
// re-sync restates what is known) and once more with one new message added.
func c06LargeBatch(r *ev.Run, label string) {
	rng := r.Rand(label)

	w, err := newWorld(r, "C06", label, 1, []string{"INBOX", "Side"}, nil)
	if err != nil {
		r.Inconclusive("%s: %v", label, err)
		return
	}

	defer w.close()

	conn := w.s.Users[0].Conn
	inbox, _ := conn.MailboxID("INBOX")
	side, _ := conn.MailboxID("Side")
	n := 1001 + rng.Intn(120)

	r.Eval(1)

	var batch []*imap.MessageCreated

	add := func() bool {
		boxes := []imap.MailboxID{inbox}
		if rng.Intn(10) == 0 {
			boxes = append(boxes, side)
		}

		mc, err := conn.RemoteAddMessage(simpleMessage(w.marker(), nil), imap.NewFlagSet(), c06Date, boxes...)
		if err != nil {
			r.Inconclusive("%s: %v", label, err)
			return false
		}

		batch = append(batch, mc)

		return true
	}

	for i := 0; i < n; i++ {
		if !add() {
			return
		}
	}

	clone := func() imap.Update {
		out := make([]*imap.MessageCreated, len(batch))
		for i, m := range batch {
			cp := *m
			cp.Message.Flags = m.Message.Flags.Clone()
			out[i] = &cp
		}

		return imap.NewMessagesCreated(false, out...)
	}

	var before *BoxView

	for round, what := range []string{"first delivery", "second delivery of the same batch", "third delivery with one new message"} {
		if round == 2 && !add() {
			return
		}

		ack := conn.Apply(clone(), srv.UpdateTimeout)
		r.Distinct(fmt.Sprintf("large batch %s n=%s acked=%v err=%v", what, lenClass(len(batch)), ack.Acked, ack.Err != nil))

		if !ack.Acked {
			r.Inconclusive("%s: %s of %d messages not acknowledged within the watchdog", label, what, len(batch))
			return
		}

		if ack.Err != nil {
			r.Violate("C06 valid-update-rejected MessagesCreated large-batch", fmt.Sprintf("the %s of a MessagesCreated with %d messages for one mailbox was acknowledged with an error: %v", what, len(batch), ack.Err), label, nil)
			return
		}

		v, err := freshView(w.s, 0, "INBOX", false)
		if err != nil {
			r.Violate("C06 mailbox-not-viewable", err.Error(), label, nil)
			return
		}

		if len(v.Msgs) != len(batch) {
			r.Violate("C06 truth-differs large-batch", fmt.Sprintf("after the %s INBOX holds %d messages, the remote has %d there", what, len(v.Msgs), len(batch)), label, nil)
			return
		}

		if before != nil {
			for i, m := range before.Msgs {
				if v.Msgs[i].UID != m.UID || v.Msgs[i].Marker != m.Marker {
					r.Violate("C06 restatement-changed-uids large-batch", fmt.Sprintf("after the %s message %d of INBOX went from UID %d (%s) to UID %d (%s)", what, i+1, m.UID, m.Marker, v.Msgs[i].UID, v.Msgs[i].Marker), label, nil)
					return
				}
			}
		}

		before = v
	}
}

func c06Burst(r *ev.Run, label string) {
	rng := r.Rand(label)

	w, err := newWorld(r, "C06", label, 1, []string{"INBOX", "Side"}, nil)
	if err != nil {
		r.Inconclusive("%s: %v", label, err)
		return
	}

	defer w.close()

	conn := w.s.Users[0].Conn
	c := &c06Case{r: r, w: w, obs: w.sess[0], act: w.sess[0], rng: rng, conn: conn}

	if !w.selectBox(c.obs, "INBOX", false) {
		return
	}

	r.Eval(1)

	workers := 2 + rng.Intn(5)
	per := 6 + rng.Intn(10)

	type job struct {
		kind  string
		up    imap.Update
		valid bool
	}

	jobs := make([][]job, workers)
	boxes := c.sortedBoxIDs()

	for wk := 0; wk < workers; wk++ {
		for i := 0; i < per; i++ {
			switch rng.Intn(6) {
			case 0:
				jobs[wk] = append(jobs[wk], job{"MessageFlagsUpdated unknown-message", imap.NewMessageFlagsUpdated("no-such-remote-message", imap.NewFlagSet(imap.FlagSeen)), false})
			case 1:
				lit := simpleMessage(w.marker(), rng)
				parsed, _ := imap.NewParsedMessage(lit)
				jobs[wk] = append(jobs[wk], job{"MessagesCreated unknown-mailbox", imap.NewMessagesCreated(false, &imap.MessageCreated{Message: imap.Message{ID: conn.NewMessageID(), Flags: imap.NewFlagSet(), Date: c06Date}, Literal: lit, MailboxIDs: []imap.MailboxID{"no-such-remote-mailbox"}, ParsedMessage: parsed}), false})
			case 2:
				jobs[wk] = append(jobs[wk], job{"MailboxDeleted recovery-id", imap.NewMailboxDeleted(imap.MailboxID(verifhooks.RecoveryMailboxRemoteID)), false})
			default:
				mc, err := conn.RemoteAddMessage(simpleMessage(w.marker(), rng), c.pickRemoteFlags(), c06Date, boxes[rng.Intn(len(boxes))])
				if err != nil {
					continue
				}

				jobs[wk] = append(jobs[wk], job{"MessagesCreated", imap.NewMessagesCreated(false, mc), true})
			}
		}
	}

	var (
		wg      sync.WaitGroup
		mu      sync.Mutex
		unacked []string
		failed  []string
		total   int
	)

	for wk := 0; wk < workers; wk++ {
		wg.Add(1)

		go func(list []job) {
			defer wg.Done()

			for _, j := range list {
				ack := conn.Apply(j.up, srv.UpdateTimeout)

				mu.Lock()
				total++

				if !ack.Acked {
					unacked = append(unacked, j.kind+": "+fmt.Sprint(ack.Err))
				} else if j.valid && ack.Err != nil {
					failed = append(failed, j.kind+": "+ack.Err.Error())
				}

				r.Distinct(fmt.Sprintf("burst %s ok=%v", j.kind, ack.Err == nil))
				mu.Unlock()
			}
		}(jobs[wk])
	}

	wg.Wait()
	w.logf("burst of %d updates from %d goroutines: unacknowledged=%d valid-but-failed=%d", total, workers, len(unacked), len(failed))

	if len(unacked) > 0 {
		w.violate("C06 update-not-acknowledged in-burst", fmt.Sprintf("%d of %d concurrently submitted updates were not acknowledged, e.g. %s", len(unacked), total, unacked[0]), nil)
		return
	}

	if len(failed) > 0 {
		w.violate("C06 valid-update-failed in-burst", fmt.Sprintf("%d valid updates submitted next to failing ones were acknowledged with an error, e.g. %s", len(failed), failed[0]), nil)
		return
	}

	if !c.settle() || !c.drain() {
		return
	}

	after, ok := c.snapshot()
	if !ok {
		return
	}

	c.snap = nil
	c.checkTruth(after, "a burst of concurrent updates", nil)
}

// c06Shutdown: updates are submitted from several goroutines while the server is being closed (or the user
// removed). An update that gluon took from the connector has been "submitted"; once Close has returned nothing
// will ever touch it again, so it must have been acknowledged by then (with success or an error).
func c06Shutdown(r *ev.Run, label string) {
	rng := r.Rand(label)

	s, err := startServer(r, label, nil)
	if err != nil {
		r.Inconclusive("%s: %v", label, err)
		return
	}

	conn := s.Users[0].Conn
	boxes := conn.MailboxNames()

	var inbox imap.MailboxID
	for id := range boxes {
		inbox = id
	}

	r.Eval(1)

	type sub struct {
		up   imap.Update
		kind string
	}

	var (
		mu        sync.Mutex
		submitted []sub
		wg        sync.WaitGroup
	)

	stop := make(chan struct{})
	workers := 2 + rng.Intn(4)

	for wk := 0; wk < workers; wk++ {
		wg.Add(1)

		go func(wk int) {
			defer wg.Done()

			wrng := r.Rand(label, "w", wk)

			for n := 0; ; n++ {
				select {
				case <-stop:
					return
				default:
				}

				var (
					up   imap.Update
					kind string
				)

				switch wrng.Intn(3) {
				case 0:
					up, kind = imap.NewNoop(), "Noop"
				case 1:
					up, kind = imap.NewMessageFlagsUpdated("no-such-remote-message", imap.NewFlagSet()), "MessageFlagsUpdated"
				default:
					mc, err := conn.RemoteAddMessage(simpleMessage(fmt.Sprintf("%s-w%d-%d", label, wk, n), wrng), imap.NewFlagSet(), c06Date, inbox)
					if err != nil {
						continue
					}

					up, kind = imap.NewMessagesCreated(false, mc), "MessagesCreated"
				}

				if err := conn.Submit(up, 5*time.Second); err != nil {
					return // closed (or not taken): not submitted
				}

				mu.Lock()
				submitted = append(submitted, sub{up, kind})
				mu.Unlock()
			}
		}(wk)
	}

	time.Sleep(time.Duration(rng.Intn(40)) * time.Millisecond)

	how := "Close"

	if rng.Intn(2) == 0 {
		how = "RemoveUser"

		ctx, cancel := context.WithTimeout(context.Background(), 2*time.Minute)
		_ = s.G.RemoveUser(ctx, s.Users[0].ID, false)

		cancel()
	}

	_ = s.Close()

	close(stop)
	wg.Wait()

	// Everything gluon took has had its chance: look without waiting.
	unacked := 0
	firstKind := ""

	for _, sb := range submitted {
		ctx, cancel := context.WithTimeout(context.Background(), 20*time.Millisecond)
		_, ok := sb.up.WaitContext(ctx)
		open := !ok && ctx.Err() != nil

		cancel()

		if open {
			unacked++

			if firstKind == "" {
				firstKind = sb.kind
			}
		}
	}

	r.Distinct(fmt.Sprintf("shutdown by %s with updates in flight: unacknowledged=%v", how, unacked > 0))
	r.Count("updates_submitted_around_shutdown", len(submitted))

	if unacked > 0 {
		r.Violate("C06 update-not-acknowledged at-shutdown", fmt.Sprintf("%d of %d updates that the server had taken from the connector were never acknowledged although %s has returned (e.g. a %s): their senders wait for ever", unacked, len(submitted), how, firstKind), label, nil)
	}

	s.Destroy()
}

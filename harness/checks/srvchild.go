package checks

import (
	"bufio"
	"encoding/json"
	"errors"
	"fmt"
	"io"
	"net"
	"os"
	"os/exec"
	"path/filepath"
	"runtime"
	"runtime/debug"
	"runtime/pprof"
	"strconv"
	"strings"
	"sync"
	"sync/atomic"
	"syscall"
	"time"

	"github.com/ProtonMail/gluon/imap"
	"github.com/ProtonMail/gluon/store"
	"github.com/ProtonMail/gluon/verifhooks/fp"

	"verifharness/ev"
	"verifharness/srv"
)

// A gluon server in a child process, so that a crash, a kill or runaway growth ends the child and
// not the harness. The child prints "ADDR host:port" and "CTRL host:port"; the control port speaks
// one-line commands: stats | stacks | close | ping.

func init() { ChildModes["srv"] = srvChildMain }

type srvChildOpts struct {
	Dir        string         `json:"dir"`
	Users      []srv.UserSpec `json:"users,omitempty"`
	JailMillis int            `json:"jail_ms,omitempty"`
	Recorder   bool           `json:"recorder,omitempty"`    // record panics instead of dying
	StoreFault bool           `json:"store_fault,omitempty"` // wrap the store so that calls can be made to fail
	StartFP    string         `json:"start_fp,omitempty"`    // "mode name k": a failpoint armed before the server starts
	Nonce      string         `json:"nonce,omitempty"`       // part of the ids the harness remote hands out (default: the pid)
}

type srvStats struct {
	Goroutines int    `json:"goroutines"`
	HeapAlloc  uint64 `json:"heap_alloc"`
	Sys        uint64 `json:"sys"`
	CPUMillis  int64  `json:"cpu_ms"`
	Panics     int    `json:"panics"`
}

func srvChildMain(args []string) int {
	if len(args) < 1 {
		return 2
	}

	var o srvChildOpts
	if err := json.Unmarshal([]byte(args[0]), &o); err != nil {
		fmt.Fprintln(os.Stderr, "bad options:", err)
		return 2
	}

	if o.Nonce == "" {
		o.Nonce = fmt.Sprintf("p%d", os.Getpid())
	}

	opts := srv.Options{Dir: o.Dir, Users: o.Users, JailTime: time.Duration(o.JailMillis) * time.Millisecond, RemoteNonce: o.Nonce}
	if !o.Recorder {
		opts.PanicHandler = dyingPanicHandler{}
	}

	faults := &storeFaults{}
	if o.StoreFault {
		opts.StoreBuilder = faultStoreBuilder{inner: &store.OnDiskStoreBuilder{}, f: faults}
	}

	if f := strings.Fields(o.StartFP); len(f) == 3 {
		k, _ := strconv.Atoi(f[2])

		if strings.HasPrefix(f[1], "store.") {
			faults.arm(strings.TrimPrefix(f[1], "store."), k, f[0])
		} else {
			armFailpoint(f[0], f[1], k)
		}
	}

	s, err := srv.Start(opts)
	if err != nil {
		fmt.Fprintln(os.Stderr, "start:", err)
		return 3
	}

	ctl, err := net.Listen("tcp", "127.0.0.1:0")
	if err != nil {
		return 3
	}

	os.Stdout.WriteString("ADDR " + s.Addr + "\nCTRL " + ctl.Addr().String() + "\n")

	for {
		c, err := ctl.Accept()
		if err != nil {
			return 0
		}

		rd := bufio.NewReader(c)

		for {
			line, err := rd.ReadString('\n')
			if err != nil {
				break
			}

			if f := strings.Fields(line); len(f) > 0 {
				switch f[0] {
				case "fp": // fp <crash|err> <name> <k>
					if len(f) == 4 {
						k, _ := strconv.Atoi(f[3])
						armFailpoint(f[1], f[2], k)
						fmt.Fprintln(c, "armed")
					} else {
						fp.Reset()
						fmt.Fprintln(c, "cleared")
					}

					continue
				case "hits":
					b, _ := json.Marshal(fp.AllHits())
					fmt.Fprintln(c, string(b))

					continue
				case "storefail": // storefail <set|get|delete> <k> <crash|err>
					if len(f) == 4 {
						k, _ := strconv.Atoi(f[2])
						faults.arm(f[1], k, f[3])
					}

					fmt.Fprintln(c, "armed")

					continue
				case "storecalls":
					b, _ := json.Marshal(faults.counts())
					fmt.Fprintln(c, string(b))

					continue
				case "rejectnext": // rejectnext <n>: the remote rejects the next n CreateMessage calls
					if len(f) == 2 {
						n, _ := strconv.Atoi(f[1])

						var left atomic.Int64

						left.Store(int64(n))

						s.Users[0].Conn.RejectLiteral = func([]byte) error {
							if left.Add(-1) >= 0 {
								return errors.New("verif: the remote rejects the message")
							}

							return nil
						}
					}

					fmt.Fprintln(c, "armed")

					continue
				case "deliver": // deliver <mailbox> <marker>: the remote announces a new message
					if len(f) == 3 {
						fmt.Fprintln(c, childDeliver(s, f[1], f[2]))
					}

					continue
				case "deliver2": // deliver2 <mailbox> <new marker> <known remote id> <its marker>: one new and one known message
					if len(f) == 5 {
						fmt.Fprintln(c, childDeliver2(s, f[1], f[2], f[3], f[4]))
					}

					continue
				case "remotedelete-id": // remotedelete-id <remote message id>
					if len(f) == 2 {
						ack := s.Users[0].Conn.Apply(imap.NewMessagesDeleted(imap.MessageID(f[1])), 60*time.Second)
						fmt.Fprintf(c, "acked=%v err=%v\n", ack.Acked, ack.Err)
					}

					continue
				case "remotedelete": // remotedelete <marker>
					if len(f) == 2 {
						fmt.Fprintln(c, childRemoteDelete(s, f[1]))
					}

					continue
				}
			}

			switch strings.TrimSpace(line) {
			case "ping":
				fmt.Fprintln(c, "pong")
			case "stats":
				var ms runtime.MemStats

				runtime.ReadMemStats(&ms)

				var ru syscall.Rusage

				_ = syscall.Getrusage(syscall.RUSAGE_SELF, &ru)
				cpu := (ru.Utime.Sec+ru.Stime.Sec)*1000 + int64(ru.Utime.Usec+ru.Stime.Usec)/1000
				b, _ := json.Marshal(srvStats{Goroutines: runtime.NumGoroutine(), HeapAlloc: ms.HeapAlloc, Sys: ms.Sys, CPUMillis: cpu, Panics: len(s.Panics())})
				fmt.Fprintln(c, string(b))
			case "gc":
				// collect and hand the freed memory back to the operating system, so that RSS read afterwards is
				// what the process really holds (live heap, stacks, memory of C libraries)
				debug.FreeOSMemory()
				fmt.Fprintln(c, "ok")
			case "stacks":
				var sb strings.Builder

				_ = pprof.Lookup("goroutine").WriteTo(&sb, 1)
				fmt.Fprintln(c, strconv.Quote(sb.String()))
			case "close":
				t0 := time.Now()
				err := s.Close()
				fmt.Fprintf(c, "closed %d %v\n", time.Since(t0).Milliseconds(), err)
			case "exit":
				fmt.Fprintln(c, "bye")
				os.Exit(0)
			}
		}

		c.Close()
	}
}

// armFailpoint: the k-th hit of the named failpoint from now on kills the process (as a power cut of the process
// would) or makes the step fail.
func armFailpoint(mode, name string, k int) {
	var n int64

	fp.Set(name, func(string) error {
		if atomic.AddInt64(&n, 1) != int64(k) {
			return nil
		}

		if mode == "crash" {
			_ = syscall.Kill(os.Getpid(), syscall.SIGKILL)
			select {}
		}

		return errors.New("verif: injected failure at " + name)
	})
}

func childDeliver(s *srv.Server, box, marker string) string {
	conn := s.Users[0].Conn

	id, ok := conn.MailboxID(strings.Split(box, "/")...)
	if !ok {
		// After a restart the harness remote is empty; the remote ids of the base mailboxes are known.
		known := map[string]string{"INBOX": "u1rBinbox", "Work": "u1rBmb1", "Other": "u1rBmb2"}

		rid, has := known[box]
		if !has {
			return "no such mailbox"
		}

		id = imap.MailboxID(rid)
		conn.RemoteMailbox(id, []string{box})
	}

	mc, err := conn.RemoteAddMessage(simpleMessage(marker, nil), imap.NewFlagSet(imap.FlagFlagged), time.Unix(1136214245, 0).UTC(), id)
	if err != nil {
		return "error " + err.Error()
	}

	ack := conn.Apply(imap.NewMessagesCreated(false, mc), 60*time.Second)

	return fmt.Sprintf("acked=%v err=%v", ack.Acked, ack.Err)
}

func childMailboxID(s *srv.Server, box string) (imap.MailboxID, bool) {
	conn := s.Users[0].Conn

	if id, ok := conn.MailboxID(strings.Split(box, "/")...); ok {
		return id, true
	}

	known := map[string]string{"INBOX": "u1rBinbox", "Work": "u1rBmb1", "Other": "u1rBmb2"}

	rid, has := known[box]
	if !has {
		return "", false
	}

	conn.RemoteMailbox(imap.MailboxID(rid), []string{box})

	return imap.MailboxID(rid), true
}

func childDeliver2(s *srv.Server, box, marker, knownID, knownMarker string) string {
	conn := s.Users[0].Conn

	id, ok := childMailboxID(s, box)
	if !ok {
		return "no such mailbox"
	}

	mc, err := conn.RemoteAddMessage(simpleMessage(marker, nil), imap.NewFlagSet(), time.Unix(1136214245, 0).UTC(), id)
	if err != nil {
		return "error " + err.Error()
	}

	lit := simpleMessage(knownMarker, nil)
	parsed, _ := imap.NewParsedMessage(lit)
	known := &imap.MessageCreated{Message: imap.Message{ID: imap.MessageID(knownID), Flags: imap.NewFlagSet(), Date: time.Unix(1136214245, 0).UTC()}, Literal: lit, MailboxIDs: []imap.MailboxID{id}, ParsedMessage: parsed}

	ack := conn.Apply(imap.NewMessagesCreated(false, known, mc), 60*time.Second)

	return fmt.Sprintf("acked=%v err=%v", ack.Acked, ack.Err)
}

func childRemoteDelete(s *srv.Server, marker string) string {
	conn := s.Users[0].Conn

	mi, ok := conn.FindMessage(markerHeader + ": " + marker + "\r\n")
	if !ok {
		return "no such message"
	}

	conn.RemoteDeleteMessage(mi.ID)
	ack := conn.Apply(imap.NewMessagesDeleted(mi.ID), 60*time.Second)

	return fmt.Sprintf("acked=%v err=%v", ack.Acked, ack.Err)
}

// ---- a store whose calls can be made to fail ---------------------------------------------------

type storeFaults struct {
	mu    sync.Mutex
	n     map[string]int
	armed map[string][2]string // op -> {k, mode}
}

func (f *storeFaults) arm(op string, k int, mode string) {
	f.mu.Lock()
	defer f.mu.Unlock()

	if f.armed == nil {
		f.armed = map[string][2]string{}
	}

	f.armed[op] = [2]string{strconv.Itoa(f.n[op] + k), mode}
}

func (f *storeFaults) counts() map[string]int {
	f.mu.Lock()
	defer f.mu.Unlock()

	out := map[string]int{}
	for k, v := range f.n {
		out[k] = v
	}

	return out
}

func (f *storeFaults) check(op string) error {
	f.mu.Lock()

	if f.n == nil {
		f.n = map[string]int{}
	}

	f.n[op]++
	a, ok := f.armed[op]
	hit := ok && a[0] == strconv.Itoa(f.n[op])
	f.mu.Unlock()

	if !hit {
		return nil
	}

	if a[1] == "crash" {
		_ = syscall.Kill(os.Getpid(), syscall.SIGKILL)
		select {}
	}

	return errors.New("verif: injected store failure in " + op)
}

type faultStoreBuilder struct {
	inner store.Builder
	f     *storeFaults
}

func (b faultStoreBuilder) New(dir, userID string, passphrase []byte) (store.Store, error) {
	st, err := b.inner.New(dir, userID, passphrase)
	if err != nil {
		return nil, err
	}

	return &faultStore{Store: st, f: b.f}, nil
}

func (b faultStoreBuilder) Delete(dir, userID string) error { return b.inner.Delete(dir, userID) }

type faultStore struct {
	store.Store
	f *storeFaults
}

func (s *faultStore) Get(id imap.InternalMessageID) ([]byte, error) {
	if err := s.f.check("get"); err != nil {
		return nil, err
	}

	return s.Store.Get(id)
}

func (s *faultStore) Set(id imap.InternalMessageID, r io.Reader) error {
	if err := s.f.check("set"); err != nil {
		return err
	}

	return s.Store.Set(id, r)
}

func (s *faultStore) Delete(ids ...imap.InternalMessageID) error {
	if err := s.f.check("delete"); err != nil {
		return err
	}

	return s.Store.Delete(ids...)
}

// dyingPanicHandler behaves like gluon's default (no handler): the panic takes the process down.
type dyingPanicHandler struct{}

func (dyingPanicHandler) HandlePanic(r interface{}) {
	if r != nil {
		panic(r)
	}
}

// ---- parent side -----------------------------------------------------------------------------

type srvChild struct {
	cmd     *exec.Cmd
	dir     string
	Addr    string
	ctlAddr string
	ctl     net.Conn
	ctlRd   *bufio.Reader
	done    chan struct{}
	waitErr error
}

func startSrvChild(dir string, race bool, o srvChildOpts, env ...string) (*srvChild, error) {
	_ = os.MkdirAll(dir, 0o755)
	o.Dir = filepath.Join(dir, "server")

	blob, _ := json.Marshal(o)
	outPath := filepath.Join(dir, "srv.stdout")

	outF, err := os.Create(outPath)
	if err != nil {
		return nil, err
	}

	errF, _ := os.Create(filepath.Join(dir, "srv.stderr"))

	cmd := exec.Command(childBinary(race), "child", "srv", string(blob))
	cmd.Stdout, cmd.Stderr = outF, errF
	cmd.Env = append(append(os.Environ(), env...), "VERIF_ROOT="+ev.Root(), "GOTRACEBACK=all")

	if race {
		cmd.Env = append(cmd.Env, "GORACE=halt_on_error=0 log_path="+filepath.Join(dir, "race.log"))
	}

	if err := cmd.Start(); err != nil {
		return nil, err
	}

	outF.Close()
	errF.Close()

	sc := &srvChild{cmd: cmd, dir: dir, done: make(chan struct{})}

	go func() {
		sc.waitErr = cmd.Wait()
		close(sc.done)
	}()

	// wait for the addresses (bounded; the child compiles nothing, it only opens a database)
	for i := 0; i < 9000; i++ {
		b, _ := os.ReadFile(outPath)

		for _, l := range strings.Split(string(b), "\n") {
			if strings.HasPrefix(l, "ADDR ") {
				sc.Addr = strings.TrimPrefix(l, "ADDR ")
			}

			if strings.HasPrefix(l, "CTRL ") {
				sc.ctlAddr = strings.TrimPrefix(l, "CTRL ")
			}
		}

		if sc.Addr != "" && sc.ctlAddr != "" {
			break
		}

		select {
		case <-sc.done:
			return nil, fmt.Errorf("server child exited during start: %s", sc.Stderr(20))
		case <-time.After(10 * time.Millisecond):
		}
	}

	if sc.ctlAddr == "" {
		sc.Kill()
		return nil, fmt.Errorf("server child did not report its address")
	}

	c, err := net.Dial("tcp", sc.ctlAddr)
	if err != nil {
		sc.Kill()
		return nil, err
	}

	sc.ctl, sc.ctlRd = c, bufio.NewReader(c)

	return sc, nil
}

func (sc *srvChild) Alive() bool {
	select {
	case <-sc.done:
		return false
	default:
		return true
	}
}

func (sc *srvChild) Ctl(cmd string, timeout time.Duration) (string, error) {
	_ = sc.ctl.SetDeadline(time.Now().Add(timeout))

	if _, err := fmt.Fprintln(sc.ctl, cmd); err != nil {
		return "", err
	}

	line, err := sc.ctlRd.ReadString('\n')

	return strings.TrimSpace(line), err
}

func (sc *srvChild) Stats() (*srvStats, error) {
	l, err := sc.Ctl("stats", 30*time.Second)
	if err != nil {
		return nil, err
	}

	var st srvStats
	if err := json.Unmarshal([]byte(l), &st); err != nil {
		return nil, err
	}

	return &st, nil
}

func (sc *srvChild) Stacks() string {
	l, err := sc.Ctl("stacks", 30*time.Second)
	if err != nil {
		return "stacks: " + err.Error()
	}

	s, err := strconv.Unquote(l)
	if err != nil {
		return l
	}

	return s
}

// RSSKB reads VmRSS of the child.
func (sc *srvChild) RSSKB() int64 {
	b, err := os.ReadFile(fmt.Sprintf("/proc/%d/status", sc.cmd.Process.Pid))
	if err != nil {
		return 0
	}

	for _, l := range strings.Split(string(b), "\n") {
		if strings.HasPrefix(l, "VmRSS:") {
			f := strings.Fields(l)
			if len(f) >= 2 {
				v, _ := strconv.ParseInt(f[1], 10, 64)
				return v
			}
		}
	}

	return 0
}

func (sc *srvChild) Stderr(lines int) string {
	b, _ := os.ReadFile(filepath.Join(sc.dir, "srv.stderr"))
	return lastLines(string(b), lines)
}

func (sc *srvChild) StderrAll() string {
	b, _ := os.ReadFile(filepath.Join(sc.dir, "srv.stderr"))
	return string(b)
}

func (sc *srvChild) ExitInfo() string {
	if sc.Alive() {
		return "running"
	}

	if ps := sc.cmd.ProcessState; ps != nil {
		return ps.String()
	}

	return fmt.Sprint(sc.waitErr)
}

// Kill ends the child at once (SIGKILL).
func (sc *srvChild) Kill() {
	if sc.ctl != nil {
		sc.ctl.Close()
	}

	if sc.Alive() {
		_ = sc.cmd.Process.Kill()
	}

	<-sc.done
}

// Quit asks with SIGQUIT for a goroutine dump and waits.
func (sc *srvChild) Quit() {
	if sc.Alive() {
		_ = sc.cmd.Process.Signal(syscall.SIGQUIT)

		select {
		case <-sc.done:
		case <-time.After(20 * time.Second):
		}
	}

	sc.Kill()
}

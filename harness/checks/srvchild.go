package checks

import (
	"bufio"
	"encoding/json"
	"fmt"
	"net"
	"os"
	"os/exec"
	"path/filepath"
	"runtime"
	"runtime/pprof"
	"strconv"
	"strings"
	"syscall"
	"time"

	"verifharness/ev"
	"verifharness/srv"
)

// A gluon server in a child process, so that a crash, a kill or runaway growth ends the child and
// not the harness. The child prints "ADDR host:port" and "CTRL host:port"; the control port speaks
// one-line commands: stats | stacks | close | ping.

func init() { ChildModes["srv"] = srvChildMain }

type srvChildOpts struct {
	Dir        string         `json:"dir"`
	Users      []srv.UserSpec `json:"users,omitempty"`
	JailMillis int            `json:"jail_ms,omitempty"`
	Recorder   bool           `json:"recorder,omitempty"` // record panics instead of dying
}

type srvStats struct {
	Goroutines int    `json:"goroutines"`
	HeapAlloc  uint64 `json:"heap_alloc"`
	Sys        uint64 `json:"sys"`
	CPUMillis  int64  `json:"cpu_ms"`
	Panics     int    `json:"panics"`
}

func srvChildMain(args []string) int {
	if len(args) < 1 {
		return 2
	}

	var o srvChildOpts
	if err := json.Unmarshal([]byte(args[0]), &o); err != nil {
		fmt.Fprintln(os.Stderr, "bad options:", err)
		return 2
	}

	opts := srv.Options{Dir: o.Dir, Users: o.Users, JailTime: time.Duration(o.JailMillis) * time.Millisecond}
	if !o.Recorder {
		opts.PanicHandler = dyingPanicHandler{}
	}

	s, err := srv.Start(opts)
	if err != nil {
		fmt.Fprintln(os.Stderr, "start:", err)
		return 3
	}

	ctl, err := net.Listen("tcp", "127.0.0.1:0")
	if err != nil {
		return 3
	}

	os.Stdout.WriteString("ADDR " + s.Addr + "\nCTRL " + ctl.Addr().String() + "\n")

	for {
		c, err := ctl.Accept()
		if err != nil {
			return 0
		}

		rd := bufio.NewReader(c)

		for {
			line, err := rd.ReadString('\n')
			if err != nil {
				break
			}

			switch strings.TrimSpace(line) {
			case "ping":
				fmt.Fprintln(c, "pong")
			case "stats":
				var ms runtime.MemStats

				runtime.ReadMemStats(&ms)

				var ru syscall.Rusage

				_ = syscall.Getrusage(syscall.RUSAGE_SELF, &ru)
				cpu := (ru.Utime.Sec+ru.Stime.Sec)*1000 + int64(ru.Utime.Usec+ru.Stime.Usec)/1000
				b, _ := json.Marshal(srvStats{Goroutines: runtime.NumGoroutine(), HeapAlloc: ms.HeapAlloc, Sys: ms.Sys, CPUMillis: cpu, Panics: len(s.Panics())})
				fmt.Fprintln(c, string(b))
			case "gc":
				runtime.GC()
				fmt.Fprintln(c, "ok")
			case "stacks":
				var sb strings.Builder

				_ = pprof.Lookup("goroutine").WriteTo(&sb, 1)
				fmt.Fprintln(c, strconv.Quote(sb.String()))
			case "close":
				t0 := time.Now()
				err := s.Close()
				fmt.Fprintf(c, "closed %d %v\n", time.Since(t0).Milliseconds(), err)
			case "exit":
				fmt.Fprintln(c, "bye")
				os.Exit(0)
			}
		}

		c.Close()
	}
}

// dyingPanicHandler behaves like gluon's default (no handler): the panic takes the process down.
type dyingPanicHandler struct{}

func (dyingPanicHandler) HandlePanic(r interface{}) {
	if r != nil {
		panic(r)
	}
}

// ---- parent side -----------------------------------------------------------------------------

type srvChild struct {
	cmd     *exec.Cmd
	dir     string
	Addr    string
	ctlAddr string
	ctl     net.Conn
	ctlRd   *bufio.Reader
	done    chan struct{}
	waitErr error
}

func startSrvChild(dir string, race bool, o srvChildOpts, env ...string) (*srvChild, error) {
	_ = os.MkdirAll(dir, 0o755)
	o.Dir = filepath.Join(dir, "server")

	blob, _ := json.Marshal(o)
	outPath := filepath.Join(dir, "srv.stdout")

	outF, err := os.Create(outPath)
	if err != nil {
		return nil, err
	}

	errF, _ := os.Create(filepath.Join(dir, "srv.stderr"))

	cmd := exec.Command(childBinary(race), "child", "srv", string(blob))
	cmd.Stdout, cmd.Stderr = outF, errF
	cmd.Env = append(append(os.Environ(), env...), "VERIF_ROOT="+ev.Root(), "GOTRACEBACK=all")

	if race {
		cmd.Env = append(cmd.Env, "GORACE=halt_on_error=0 log_path="+filepath.Join(dir, "race.log"))
	}

	if err := cmd.Start(); err != nil {
		return nil, err
	}

	outF.Close()
	errF.Close()

	sc := &srvChild{cmd: cmd, dir: dir, done: make(chan struct{})}

	go func() {
		sc.waitErr = cmd.Wait()
		close(sc.done)
	}()

	// wait for the addresses (bounded; the child compiles nothing, it only opens a database)
	for i := 0; i < 3000; i++ {
		b, _ := os.ReadFile(outPath)

		for _, l := range strings.Split(string(b), "\n") {
			if strings.HasPrefix(l, "ADDR ") {
				sc.Addr = strings.TrimPrefix(l, "ADDR ")
			}

			if strings.HasPrefix(l, "CTRL ") {
				sc.ctlAddr = strings.TrimPrefix(l, "CTRL ")
			}
		}

		if sc.Addr != "" && sc.ctlAddr != "" {
			break
		}

		select {
		case <-sc.done:
			return nil, fmt.Errorf("server child exited during start: %s", sc.Stderr(20))
		case <-time.After(10 * time.Millisecond):
		}
	}

	if sc.ctlAddr == "" {
		sc.Kill()
		return nil, fmt.Errorf("server child did not report its address")
	}

	c, err := net.Dial("tcp", sc.ctlAddr)
	if err != nil {
		sc.Kill()
		return nil, err
	}

	sc.ctl, sc.ctlRd = c, bufio.NewReader(c)

	return sc, nil
}

func (sc *srvChild) Alive() bool {
	select {
	case <-sc.done:
		return false
	default:
		return true
	}
}

func (sc *srvChild) Ctl(cmd string, timeout time.Duration) (string, error) {
	_ = sc.ctl.SetDeadline(time.Now().Add(timeout))

	if _, err := fmt.Fprintln(sc.ctl, cmd); err != nil {
		return "", err
	}

	line, err := sc.ctlRd.ReadString('\n')

	return strings.TrimSpace(line), err
}

func (sc *srvChild) Stats() (*srvStats, error) {
	l, err := sc.Ctl("stats", 30*time.Second)
	if err != nil {
		return nil, err
	}

	var st srvStats
	if err := json.Unmarshal([]byte(l), &st); err != nil {
		return nil, err
	}

	return &st, nil
}

func (sc *srvChild) Stacks() string {
	l, err := sc.Ctl("stacks", 30*time.Second)
	if err != nil {
		return "stacks: " + err.Error()
	}

	s, err := strconv.Unquote(l)
	if err != nil {
		return l
	}

	return s
}

// RSSKB reads VmRSS of the child.
func (sc *srvChild) RSSKB() int64 {
	b, err := os.ReadFile(fmt.Sprintf("/proc/%d/status", sc.cmd.Process.Pid))
	if err != nil {
		return 0
	}

	for _, l := range strings.Split(string(b), "\n") {
		if strings.HasPrefix(l, "VmRSS:") {
			f := strings.Fields(l)
			if len(f) >= 2 {
				v, _ := strconv.ParseInt(f[1], 10, 64)
				return v
			}
		}
	}

	return 0
}

func (sc *srvChild) Stderr(lines int) string {
	b, _ := os.ReadFile(filepath.Join(sc.dir, "srv.stderr"))
	return lastLines(string(b), lines)
}

func (sc *srvChild) StderrAll() string {
	b, _ := os.ReadFile(filepath.Join(sc.dir, "srv.stderr"))
	return string(b)
}

func (sc *srvChild) ExitInfo() string {
	if sc.Alive() {
		return "running"
	}

	if ps := sc.cmd.ProcessState; ps != nil {
		return ps.String()
	}

	return fmt.Sprint(sc.waitErr)
}

// Kill ends the child at once (SIGKILL).
func (sc *srvChild) Kill() {
	if sc.ctl != nil {
		sc.ctl.Close()
	}

	if sc.Alive() {
		_ = sc.cmd.Process.Kill()
	}

	<-sc.done
}

// Quit asks with SIGQUIT for a goroutine dump and waits.
func (sc *srvChild) Quit() {
	if sc.Alive() {
		_ = sc.cmd.Process.Signal(syscall.SIGQUIT)

		select {
		case <-sc.done:
		case <-time.After(20 * time.Second):
		}
	}

	sc.Kill()
}

package checks

import (
	"fmt"
	"math/rand"
	"strings"
	"time"

	"github.com/ProtonMail/gluon/imap"

	"verifharness/ev"
	"verifharness/imapc"
	"verifharness/srv"
)

func init() { register("C03", "exploration", runC03) }

var c03Boxes = []string{"INBOX", "Alpha", "Beta"}

var c03FlagPool = []string{`\Seen`, `\Flagged`, `\Answered`, `\Draft`, `\Deleted`, `kwone`, `KwTwo`, `\SEEN`, `\deleted`, `\flagged`, `kw,comma`}

func pickFlags(rng *rand.Rand, allowEmpty bool) []string {
	n := rng.Intn(4)
	if n == 0 && !allowEmpty {
		n = 1
	}

	seen := map[string]bool{}

	var out []string

	for len(out) < n {
		f := c03FlagPool[rng.Intn(len(c03FlagPool))]
		if seen[strings.ToLower(f)] {
			continue
		}

		seen[strings.ToLower(f)] = true
		out = append(out, f)
	}

	return out
}

// genSeqSet builds a sequence set over a view of n messages (n >= 1) without duplicates and
// returns its text and the selected 0-based positions.
func genSeqSet(rng *rand.Rand, n int) (string, []int) {
	switch rng.Intn(7) {
	case 0:
		k := rng.Intn(n)
		return fmt.Sprint(k + 1), []int{k}
	case 1:
		return "*", []int{n - 1}
	case 2:
		return "1:*", seqRange(0, n-1)
	case 3:
		a, b := rng.Intn(n), rng.Intn(n)
		if a > b {
			// ranges may be written in either order
			return fmt.Sprintf("%d:%d", a+1, b+1), seqRange(b, a)
		}

		return fmt.Sprintf("%d:%d", a+1, b+1), seqRange(a, b)
	case 4:
		a := rng.Intn(n)
		if rng.Intn(2) == 0 {
			return fmt.Sprintf("%d:*", a+1), seqRange(a, n-1)
		}

		return fmt.Sprintf("*:%d", a+1), seqRange(a, n-1)
	default:
		// comma list of distinct singletons / disjoint ranges in random order
		perm := rng.Perm(n)
		k := 1 + rng.Intn(min(n, 4))

		var (
			parts []string
			pos   []int
		)

		for _, p := range perm[:k] {
			parts = append(parts, fmt.Sprint(p+1))
			pos = append(pos, p)
		}

		return strings.Join(parts, ","), pos
	}
}

func seqRange(a, b int) []int {
	out := make([]int, 0, b-a+1)
	for i := a; i <= b; i++ {
		out = append(out, i)
	}

	return out
}

type c03Case struct {
	r      *ev.Run
	label  string
	rng    *rand.Rand
	s      *srv.Server
	model  *mailModel
	conns  []*imapc.Conn
	log    []string
	nextID int
	failed bool
}

func (c *c03Case) logf(format string, a ...any) {
	c.log = append(c.log, fmt.Sprintf(format, a...))
}

func (c *c03Case) violate(sig, what string) {
	c.failed = true
	c.r.Violate(sig, what, c.label, map[string]any{"ops": c.log})
}

// compareAll compares every mailbox against the model through fresh sessions.
func (c *c03Case) compareAll(withBody bool, unordered map[string][][]string, sigPrefix string) bool {
	for _, name := range c03Boxes {
		if c.model.box(name) == nil {
			continue
		}

		v, err := freshView(c.s, 0, name, withBody)
		if err != nil {
			c.violate(sigPrefix+" fresh-view-failed", fmt.Sprintf("fresh view of %s failed: %v", name, err))
			return false
		}

		var strip func([]byte) ([]byte, bool)
		if withBody {
			strip = stripGluonID
		}

		if kind, diff := compareBox(c.model.box(name), v, unordered[name], withBody, strip); diff != "" {
			c.violate(sigPrefix+" "+kind, fmt.Sprintf("mailbox %s differs from the reference model after %q: %s", name, c.log[len(c.log)-1], diff))
			return false
		}
	}

	return true
}

func runC03(r *ev.Run) {
	r.SetRule("sequentialised command histories (APPEND/STORE/EXPUNGE/UID EXPUNGE/CLOSE/COPY/MOVE incl. same-mailbox and already-present destinations, failing commands) from 1-4 sessions against 3 mailboxes, compared with the reference model through fresh EXAMINE sessions; plus bulk commands at batch sizes around the index's statement-batching limit. distinct = distinct (command kind, set shape, flag action, outcome) tuples and (bulk command, size) pairs observed")
	r.Assume("in the first kind of history each command is issued right after a SELECT of its mailbox (one in four preceded by an EXAMINE of some mailbox on the same connection), so the issuing session's view equals the authoritative content; in 'live' histories sessions keep their selection, commands are UID-based over the session's own (possibly lagging) view, and a MOVE / UID EXPUNGE of a message that was already expunged elsewhere is expected to have no effect",
		"relative order of the messages filed by one multi-message COPY/MOVE is not prescribed by the property and is compared as a set")

	histories := r.Pick(48, 1500)
	opsPer := r.Pick(40, 60)

	ev.Parallel(histories, 12, func(i int) {
		label := fmt.Sprintf("hist-%d", i)
		if r.OnlyCase != "" && r.OnlyCase != label {
			return
		}

		c03History(r, label, opsPer)
	})

	live := r.Pick(60, 1500)

	ev.Parallel(live, 10, func(i int) {
		label := fmt.Sprintf("live-%d", i)
		if r.OnlyCase != "" && r.OnlyCase != label {
			return
		}

		c03LiveHistory(r, label, r.Pick(35, 50))
	})

	c03DirectedStaleExpunge(r)
	c03DirectedCrossMailbox(r)
	c03DirectedArrivalDeleted(r)

	sizes := []int{2, 501, 1001}
	if r.Thorough() {
		sizes = []int{1, 2, 499, 500, 501, 999, 1000, 1001, 1500, 2001}
	}

	ev.Parallel(len(sizes), 6, func(i int) {
		label := fmt.Sprintf("bulk-%d", sizes[i])
		if r.OnlyCase != "" && r.OnlyCase != label {
			return
		}

		c03Bulk(r, label, sizes[i])
	})
}

func c03History(r *ev.Run, label string, nOps int) {
	rng := r.Rand(label)

	s, err := startServer(r, label, nil)
	if err != nil {
		r.Inconclusive("%s: server start: %v", label, err)
		return
	}

	c := &c03Case{r: r, label: label, rng: rng, s: s, model: newMailModel(c03Boxes...)}

	defer finishServer(r, s, label, func() []string { return c.log })

	setup := s.MustLogin("setup")
	for _, b := range c03Boxes[1:] {
		if res := setup.Cmdf("CREATE %s", b); !res.OK() {
			r.Inconclusive("%s: CREATE %s: %s", label, b, res)
			return
		}
	}

	setup.Close()

	nConn := 1 + rng.Intn(4)
	for k := 0; k < nConn; k++ {
		c.conns = append(c.conns, s.MustLogin(fmt.Sprintf("s%d", k)))
	}

	defer func() {
		for _, cn := range c.conns {
			cn.Close()
		}
	}()

	r.Eval(1)

	for op := 0; op < nOps && !c.failed; op++ {
		c.step()

		if c.failed {
			return
		}

		if op%5 == 4 || op == nOps-1 {
			if !c.compareAll(op == nOps-1 || rng.Intn(4) == 0, nil, "C03 content-differs") {
				return
			}
		}
	}

	if r.WantSample() {
		r.Sample(map[string]any{"case": label, "sessions": nConn, "ops": c.log})
	}
}

func (c *c03Case) step() {
	rng := c.rng
	conn := c.conns[rng.Intn(len(c.conns))]
	boxName := c03Boxes[rng.Intn(len(c03Boxes))]
	box := c.model.box(boxName)
	n := len(box.Entries)

	kind := rng.Intn(100)

	// Commands on messages need a non-empty mailbox; fall back to APPEND.
	if n == 0 && kind >= 25 && kind < 92 {
		kind = 0
	}

	sel := func() bool {
		// the connection may have looked at a mailbox read-only before: that must not stick to the SELECT
		if rng.Intn(4) == 0 {
			conn.Cmdf("EXAMINE %s", imapc.Quote(c03Boxes[rng.Intn(len(c03Boxes))]))
			c.r.Count("selects_preceded_by_an_EXAMINE_on_the_same_connection", 1)
		}

		res := conn.Cmdf("SELECT %s", imapc.Quote(boxName))
		if !res.OK() {
			c.violate("C03 select-failed", fmt.Sprintf("SELECT %s refused: %s", boxName, res))
			return false
		}

		if ex, _, _ := selectInfo(res); ex != n {
			c.logf("%s SELECT %s -> %d EXISTS", conn.Name, boxName, ex)
			c.violate("C03 select-count", fmt.Sprintf("SELECT %s reports %d messages, reference model has %d %v", boxName, ex, n, box.summary()))

			return false
		}

		return true
	}

	outcome := func(res *imapc.Result) string {
		if res.Err != nil {
			return "ERR"
		}

		return res.Status
	}

	switch {
	case kind < 25: // APPEND
		c.nextID++
		marker := fmt.Sprintf("%s-m%d", c.label, c.nextID)
		body := simpleMessage(marker, rng)
		flags := pickFlags(rng, true)

		// APPEND with \Deleted among the initial flags is a recorded finding (the flag ends up
		// in the shared table); keep it rare so that it does not end most histories early.
		if false && rng.Intn(12) != 0 {
			flags = withoutFlag(flags, `\deleted`)
		}

		// Sometimes append while some other mailbox is selected, sometimes the same one.
		if rng.Intn(3) == 0 {
			conn.Cmdf("SELECT %s", imapc.Quote(c03Boxes[rng.Intn(len(c03Boxes))]))
		}

		fl := ""
		if len(flags) > 0 {
			fl = "(" + strings.Join(flags, " ") + ") "
		}

		res := conn.Cmd(fmt.Sprintf("APPEND %s %s", imapc.Quote(boxName), fl), imapc.Lit(body))
		c.logf("%s APPEND %s %s{%s} -> %s", conn.Name, boxName, fl, marker, outcome(res))
		c.r.Distinct(fmt.Sprintf("APPEND flags=%d %s", len(flags), outcome(res)))

		if res.OK() {
			c.model.appendMsg(boxName, marker, body, flags)
		} else {
			c.violate("C03 refused-valid APPEND", fmt.Sprintf("valid APPEND refused: %s", res))
		}

	case kind < 50: // STORE
		if !sel() {
			return
		}

		set, pos := genSeqSet(rng, n)
		action := []string{"+", "-", ""}[rng.Intn(3)]
		silent := []string{"", ".SILENT"}[rng.Intn(2)]
		flags := pickFlags(rng, action == "")
		uid := rng.Intn(3) == 0

		cmd := fmt.Sprintf("STORE %s %sFLAGS%s (%s)", set, action, silent, strings.Join(flags, " "))
		if uid {
			uids, ok := c.uidsOf(conn, n)
			if !ok {
				return
			}

			cmd = fmt.Sprintf("UID STORE %s %sFLAGS%s (%s)", uidSetFromPositions(uids, pos), action, silent, strings.Join(flags, " "))
		}

		res := conn.Cmd(cmd)
		c.logf("%s [%s] %s -> %s", conn.Name, boxName, cmd, outcome(res))
		c.r.Distinct(fmt.Sprintf("STORE %q uid=%v shape=%s nflags=%d %s", action, uid, setShape(set), len(flags), outcome(res)))

		if res.OK() {
			a := action
			if a == "" {
				a = "="
			}

			c.model.store(boxName, pos, a, flags)
		} else {
			c.violate("C03 refused-valid STORE", fmt.Sprintf("valid %q refused: %s", cmd, res))
		}

	case kind < 62: // EXPUNGE / UID EXPUNGE / CLOSE
		if !sel() {
			return
		}

		switch rng.Intn(3) {
		case 0:
			res := conn.Cmd("EXPUNGE")
			c.logf("%s [%s] EXPUNGE -> %s", conn.Name, boxName, outcome(res))

			if res.OK() {
				k := c.model.expunge(boxName, nil)
				c.r.Distinct(fmt.Sprintf("EXPUNGE removed=%v", k > 0))
			} else {
				c.violate("C03 refused-valid EXPUNGE", fmt.Sprintf("EXPUNGE refused: %s", res))
			}
		case 1:
			uids, ok := c.uidsOf(conn, n)
			if !ok {
				return
			}

			_, pos := genSeqSet(rng, n)
			cmd := "UID EXPUNGE " + uidSetFromPositions(uids, pos)
			res := conn.Cmd(cmd)
			c.logf("%s [%s] %s -> %s", conn.Name, boxName, cmd, outcome(res))

			if res.OK() {
				k := c.model.expunge(boxName, pos)
				c.r.Distinct(fmt.Sprintf("UID EXPUNGE removed=%v", k > 0))
			} else {
				c.violate("C03 refused-valid UID EXPUNGE", fmt.Sprintf("%s refused: %s", cmd, res))
			}
		default:
			res := conn.Cmd("CLOSE")
			c.logf("%s [%s] CLOSE -> %s", conn.Name, boxName, outcome(res))

			if res.OK() {
				k := c.model.expunge(boxName, nil)
				c.r.Distinct(fmt.Sprintf("CLOSE removed=%v", k > 0))
			} else {
				c.violate("C03 refused-valid CLOSE", fmt.Sprintf("CLOSE refused: %s", res))
			}
		}

	case kind < 92: // COPY / MOVE
		if !sel() {
			return
		}

		dst := c03Boxes[rng.Intn(len(c03Boxes))]
		verb := []string{"COPY", "MOVE"}[rng.Intn(2)]
		set, pos := genSeqSet(rng, n)
		uid := rng.Intn(3) == 0

		cmd := fmt.Sprintf("%s %s %s", verb, set, imapc.Quote(dst))
		if uid {
			uids, ok := c.uidsOf(conn, n)
			if !ok {
				return
			}

			cmd = fmt.Sprintf("UID %s %s %s", verb, uidSetFromPositions(uids, pos), imapc.Quote(dst))
		}

		present := false

		for _, p := range pos {
			if c.model.box(dst).index(box.Entries[p].Msg) >= 0 {
				present = true
			}
		}

		res := conn.Cmd(cmd)
		c.logf("%s [%s] %s -> %s", conn.Name, boxName, cmd, outcome(res))
		c.r.Distinct(fmt.Sprintf("%s uid=%v same=%v present=%v shape=%s %s", verb, uid, dst == boxName, present, setShape(set), outcome(res)))

		if res.OK() {
			batch := c.model.copyTo(boxName, pos, dst, verb == "MOVE")
			if len(batch) > 1 {
				if !c.compareAll(false, map[string][][]string{dst: {batch}}, "C03 content-differs") {
					return
				}

				// Adopt the server's order inside the batch (not prescribed by the property).
				c.adoptOrder(dst)
			}
		} else {
			c.violate("C03 refused-valid "+verb, fmt.Sprintf("valid %q refused: %s", cmd, res))
		}

	default: // commands that must fail and change nothing
		if !sel() {
			return
		}

		var cmd string

		switch rng.Intn(4) {
		case 0:
			cmd = fmt.Sprintf("STORE %d +FLAGS (\\Seen)", n+1+rng.Intn(3))
		case 1:
			cmd = fmt.Sprintf("COPY %d %s", n+1+rng.Intn(3), imapc.Quote(c03Boxes[rng.Intn(3)]))
		case 2:
			if n == 0 {
				cmd = "COPY 1 \"NoSuchBox\""
			} else {
				cmd = fmt.Sprintf("COPY 1:* %s", imapc.Quote("NoSuchBox"))
			}
		default:
			if n == 0 {
				cmd = "MOVE 1 \"NoSuchBox\""
			} else {
				cmd = fmt.Sprintf("MOVE 1:* %s", imapc.Quote("NoSuchBox"))
			}
		}

		res := conn.Cmd(cmd)
		c.logf("%s [%s] %s -> %s", conn.Name, boxName, cmd, outcome(res))
		c.r.Distinct(fmt.Sprintf("failing %s %s", strings.Fields(cmd)[0], outcome(res)))

		if res.OK() {
			c.violate("C03 accepted-invalid "+strings.Fields(cmd)[0], fmt.Sprintf("%q must fail (view has %d messages) but was answered OK", cmd, n))
		}
	}
}

// adoptOrder re-orders the model's entries of a mailbox to the server's order (used only
// right after compareAll accepted a batch as a set).
func (c *c03Case) adoptOrder(name string) {
	v, err := freshView(c.s, 0, name, false)
	if err != nil {
		return
	}

	b := c.model.box(name)
	byMarker := map[string]*mEntry{}

	for _, e := range b.Entries {
		byMarker[e.Msg.Marker] = e
	}

	var out []*mEntry

	for _, mv := range v.Msgs {
		if e, ok := byMarker[mv.Marker]; ok {
			out = append(out, e)
		}
	}

	if len(out) == len(b.Entries) {
		b.Entries = out
	}
}

func (c *c03Case) uidsOf(conn *imapc.Conn, n int) ([]uint32, bool) {
	v, err := viewOn(conn, "", false, false)
	if err != nil {
		c.violate("C03 fetch-failed", fmt.Sprintf("FETCH 1:* failed: %v", err))
		return nil, false
	}

	if len(v.Msgs) != n {
		c.violate("C03 view-count", fmt.Sprintf("freshly selected view has %d rows, model %d", len(v.Msgs), n))
		return nil, false
	}

	return v.UIDs(), true
}

func uidSetFromPositions(uids []uint32, pos []int) string {
	parts := make([]string, len(pos))
	for i, p := range pos {
		parts[i] = fmt.Sprint(uids[p])
	}

	return strings.Join(parts, ",")
}

func setShape(set string) string {
	switch {
	case strings.Contains(set, ","):
		return "list"
	case set == "*":
		return "star"
	case strings.HasPrefix(set, "*:") || strings.HasSuffix(set, ":*"):
		return "range-star"
	case strings.Contains(set, ":"):
		return "range"
	default:
		return "single"
	}
}

// c03Bulk drives the bulk commands on a mailbox of the given size.
func c03Bulk(r *ev.Run, label string, size int) {
	rng := r.Rand(label)

	s, err := startServer(r, label, nil)
	if err != nil {
		r.Inconclusive("%s: server start: %v", label, err)
		return
	}

	c := &c03Case{r: r, label: label, rng: rng, s: s, model: newMailModel(c03Boxes...)}

	defer finishServer(r, s, label, func() []string { return c.log })

	conn := s.MustLogin("bulk")
	defer conn.Close()

	for _, b := range c03Boxes[1:] {
		if res := conn.Cmdf("CREATE %s", b); !res.OK() {
			r.Inconclusive("%s: CREATE: %s", label, res)
			return
		}
	}

	// Pre-fill INBOX through one connector batch.
	u := s.Users[0]

	var created []*imap.MessageCreated

	for i := 0; i < size; i++ {
		marker := fmt.Sprintf("%s-b%d", label, i)
		body := simpleMessage(marker, nil)

		parsed, err := imap.NewParsedMessage(body)
		if err != nil {
			r.Inconclusive("%s: parse: %v", label, err)
			return
		}

		id := u.Conn.NewMessageID()
		created = append(created, &imap.MessageCreated{
			Message:       imap.Message{ID: id, Flags: imap.NewFlagSet(), Date: time.Unix(1136214245, 0).UTC()},
			Literal:       body,
			MailboxIDs:    []imap.MailboxID{imap.MailboxID(u.Conn.IDPrefix + "inbox")},
			ParsedMessage: parsed,
		})

		c.model.appendMsg("INBOX", marker, body, nil)
	}

	if ack := u.Conn.Apply(imap.NewMessagesCreated(false, created...), 5*time.Minute); !ack.Acked || ack.Err != nil {
		c.logf("connector MessagesCreated x%d", size)
		c.violate(fmt.Sprintf("C03 bulk-prefill size=%d", size), fmt.Sprintf("connector batch of %d messages not applied: %+v", size, ack))

		return
	}

	c.logf("connector MessagesCreated x%d into INBOX", size)
	r.Eval(1)

	if !c.compareAll(false, nil, fmt.Sprintf("C03 bulk prefill size=%d", size)) {
		return
	}

	type step struct {
		box, cmd string
		apply    func()
	}

	all := func(name string) []int { return seqRange(0, len(c.model.box(name).Entries)-1) }

	steps := []step{
		{"INBOX", `STORE 1:* +FLAGS.SILENT (\Seen)`, func() { c.model.store("INBOX", all("INBOX"), "+", []string{`\Seen`}) }},
		{"INBOX", `STORE 1:* FLAGS.SILENT (\Flagged kwbulk)`, func() { c.model.store("INBOX", all("INBOX"), "=", []string{`\Flagged`, "kwbulk"}) }},
		{"INBOX", `STORE 1:* -FLAGS.SILENT (kwbulk)`, func() { c.model.store("INBOX", all("INBOX"), "-", []string{"kwbulk"}) }},
		{"INBOX", `COPY 1:* "Alpha"`, func() { c.model.copyTo("INBOX", all("INBOX"), "Alpha", false) }},
		{"INBOX", `MOVE 1:* "Beta"`, func() { c.model.copyTo("INBOX", all("INBOX"), "Beta", true) }},
		{"Alpha", `COPY 1:* "Beta"`, func() { c.model.copyTo("Alpha", all("Alpha"), "Beta", false) }},
		{"Beta", `STORE 1:* +FLAGS.SILENT (\Deleted)`, func() { c.model.store("Beta", all("Beta"), "+", []string{`\Deleted`}) }},
		{"Beta", `EXPUNGE`, func() { c.model.expunge("Beta", nil) }},
		{"Alpha", `UID STORE 1:* +FLAGS.SILENT (\Deleted)`, func() { c.model.store("Alpha", all("Alpha"), "+", []string{`\Deleted`}) }},
		{"Alpha", `UID EXPUNGE 1:*`, func() { c.model.expunge("Alpha", nil) }},
	}

	for _, st := range steps {
		if res := conn.Cmdf("SELECT %s", imapc.Quote(st.box)); !res.OK() {
			c.violate("C03 select-failed", fmt.Sprintf("SELECT %s: %s", st.box, res))
			return
		}

		res := conn.Cmd(st.cmd)
		c.logf("[%s, %d msgs] %s -> %s", st.box, size, st.cmd, res.Status)

		verb := strings.Fields(st.cmd)[0]
		if verb == "UID" || verb == "STORE" {
			verb = strings.Join(strings.Fields(st.cmd)[:2], " ")
		}
		r.Distinct(fmt.Sprintf("bulk %s size=%d", verb, size))

		if !res.OK() {
			c.violate(fmt.Sprintf("C03 bulk refused %s size=%d", verb, size), fmt.Sprintf("%q on %d messages refused: %s", st.cmd, size, res))
			return
		}

		st.apply()

		if !c.compareAll(false, nil, fmt.Sprintf("C03 bulk content-differs %s size=%s", verb, sizeClass(size))) {
			return
		}
	}

	if r.WantSample() {
		r.Sample(map[string]any{"case": label, "size": size, "ops": c.log})
	}
}

func sizeClass(n int) string {
	switch {
	case n <= 500:
		return "<=500"
	case n <= 1000:
		return "501..1000"
	default:
		return ">1000"
	}
}

func withoutFlag(flags []string, lower string) []string {
	var out []string

	for _, f := range flags {
		if strings.ToLower(f) != lower {
			out = append(out, f)
		}
	}

	return out
}

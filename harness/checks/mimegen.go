package checks

import (
	"bytes"
	"fmt"
	"math/rand"
	"strings"
)

// mimePart is a node of a generated MIME tree. All byte offsets follow from construction:
// Bytes() = Header + Body, and a multipart body is assembled from its children, so the exact
// bytes of every section are known without parsing anything.
type mimePart struct {
	Header []byte // header block incl. the terminating empty line ("" for the degenerate empty part)
	Body   []byte

	Type, Sub string
	Params    [][2]string // content-type parameters in order
	Fields    []hdrField
	Encoding  string
	ID, Desc  string
	Disp      string
	DispParam [][2]string

	Boundary string
	Children []*mimePart // multipart
	Embedded *mimePart   // message/rfc822
	NL       string
	TopLevel bool
	Marker   string
}

type hdrField struct {
	Name string
	Raw  []byte // complete raw field incl. folding and line ending(s)
}

func (p *mimePart) Bytes() []byte {
	out := make([]byte, 0, len(p.Header)+len(p.Body))
	out = append(out, p.Header...)

	return append(out, p.Body...)
}

func (p *mimePart) IsMultipart() bool { return strings.EqualFold(p.Type, "multipart") }
func (p *mimePart) IsMessage() bool {
	return strings.EqualFold(p.Type, "message") && strings.EqualFold(p.Sub, "rfc822")
}

type mimeGen struct {
	rng      *rand.Rand
	nl       string
	maxDepth int
	bigLeaf  int // size of an occasional large leaf (0 = none)
	nBound   int
	eightBit bool

	emptyFields bool // sometimes add header fields without a value ("X-Empty-1:" CRLF)
	topMessage  bool // the message's own content type may be message/rfc822 (its part numbering is ambiguous: callers must not address parts then)
}

func (g *mimeGen) words(n int) string {
	pool := []string{"alpha", "beta", "gamma", "delta", "verif", "quick", "brown", "fox", "lorem", "ipsum", "needle", "haystack", "Grüße", "naïve", "report", "invoice"}

	var b strings.Builder

	for i := 0; i < n; i++ {
		if i > 0 {
			b.WriteByte(' ')
		}

		w := pool[g.rng.Intn(len(pool))]
		if !g.eightBit {
			w = strings.Map(func(r rune) rune {
				if r > 127 {
					return 'x'
				}

				return r
			}, w)
		}

		b.WriteString(w)
	}

	return b.String()
}

// field renders a header field, sometimes folded over several lines.
func (g *mimeGen) field(name, value string) hdrField {
	var b bytes.Buffer

	b.WriteString(name)
	b.WriteString(":")

	if g.rng.Intn(8) != 0 {
		b.WriteString(" ")
	}

	if strings.Contains(value, " ") && g.rng.Intn(3) == 0 {
		parts := strings.Split(value, " ")
		for i, p := range parts {
			if i > 0 {
				if g.rng.Intn(3) == 0 {
					b.WriteString(g.nl)
					b.WriteString([]string{" ", "\t", "  "}[g.rng.Intn(3)])
				} else {
					b.WriteString(" ")
				}
			}

			b.WriteString(p)
		}
	} else {
		b.WriteString(value)
	}

	b.WriteString(g.nl)

	return hdrField{Name: name, Raw: append([]byte{}, b.Bytes()...)}
}

func caseMix(rng *rand.Rand, s string) string {
	switch rng.Intn(4) {
	case 0:
		return strings.ToLower(s)
	case 1:
		return strings.ToUpper(s)
	default:
		return s
	}
}

func (g *mimeGen) headerBlock(fields []hdrField) []byte {
	var b bytes.Buffer

	for _, f := range fields {
		b.Write(f.Raw)
	}

	b.WriteString(g.nl)

	return b.Bytes()
}

func (g *mimeGen) contentTypeValue(p *mimePart) string {
	v := caseMix(g.rng, p.Type) + "/" + caseMix(g.rng, p.Sub)

	for _, kv := range p.Params {
		val := kv[1]
		if g.rng.Intn(2) == 0 || strings.ContainsAny(val, " ()<>@,;:\\\"/[]?=") {
			val = `"` + strings.ReplaceAll(val, `"`, `\"`) + `"`
		}

		v += "; " + kv[0] + "=" + val
	}

	return v
}

func (g *mimeGen) leafBody(kind string) ([]byte, string) {
	var b bytes.Buffer

	n := g.rng.Intn(6)
	if g.rng.Intn(10) == 0 {
		n = 0
	}

	enc := ""

	switch kind {
	case "binary":
		enc = "base64"

		for i := 0; i < 1+n; i++ {
			line := make([]byte, 76)
			for j := range line {
				line[j] = "ABCDEFGHIJKLMNOPQRSTUVWXYZabcdefghijklmnopqrstuvwxyz0123456789+/"[g.rng.Intn(64)]
			}

			b.Write(line)
			b.WriteString(g.nl)
		}
	default:
		if g.eightBit && g.rng.Intn(3) == 0 {
			enc = "8bit"
		} else if g.rng.Intn(4) == 0 {
			enc = "7bit"
		}

		for i := 0; i < n; i++ {
			b.WriteString(g.words(1 + g.rng.Intn(9)))

			// The last line sometimes has no line ending.
			if i < n-1 || g.rng.Intn(3) != 0 {
				b.WriteString(g.nl)
			}
		}
	}

	return b.Bytes(), enc
}

func (g *mimeGen) part(depth int, top bool, marker string) *mimePart {
	p := &mimePart{NL: g.nl, TopLevel: top, Marker: marker}

	kind := g.rng.Intn(10)
	if depth >= g.maxDepth && kind >= 6 {
		kind = g.rng.Intn(6)
	}

	// A message whose own content type is message/rfc822 has ambiguous part numbering: not generated.
	if top && kind == 9 && !(g.topMessage && depth == 0) {
		kind = 6
	}

	var mimeFields []hdrField

	switch {
	case kind < 4:
		p.Type, p.Sub = "text", []string{"plain", "html", "plain", "calendar"}[g.rng.Intn(4)]
		if g.rng.Intn(3) != 0 {
			p.Params = append(p.Params, [2]string{"charset", []string{"utf-8", "us-ascii", "ISO-8859-1"}[g.rng.Intn(3)]})
		}

		if g.rng.Intn(5) == 0 {
			p.Params = append(p.Params, [2]string{"format", "flowed"})
		}

		p.Body, p.Encoding = g.leafBody("text")
	case kind < 6:
		p.Type, p.Sub = []string{"application", "image", "application"}[g.rng.Intn(3)], []string{"octet-stream", "png", "pdf"}[g.rng.Intn(3)]
		if g.rng.Intn(2) == 0 {
			p.Params = append(p.Params, [2]string{"name", []string{"file.bin", "my report.pdf", "x(1).png"}[g.rng.Intn(3)]})
		}

		p.Body, p.Encoding = g.leafBody("binary")

		if g.rng.Intn(2) == 0 {
			p.Disp = "attachment"
			p.DispParam = append(p.DispParam, [2]string{"filename", "a b.bin"})
		}
	case kind < 9:
		g.nBound++
		p.Type, p.Sub = "multipart", []string{"mixed", "alternative", "related", "signed"}[g.rng.Intn(4)]
		p.Boundary = fmt.Sprintf("=_b%d_%x", g.nBound, g.rng.Int31())
		p.Params = append(p.Params, [2]string{"boundary", p.Boundary})

		n := 1 + g.rng.Intn(4)
		for i := 0; i < n; i++ {
			if g.rng.Intn(25) == 0 {
				// the degenerate, completely empty part
				p.Children = append(p.Children, &mimePart{NL: g.nl, Type: "text", Sub: "plain"})
				continue
			}

			p.Children = append(p.Children, g.part(depth+1, false, ""))
		}

		var b bytes.Buffer

		if g.rng.Intn(3) == 0 {
			b.WriteString("This is a multi-part message in MIME format." + g.nl)
		}

		for _, c := range p.Children {
			if b.Len() > 0 || true {
				// The line break before "--boundary" belongs to the delimiter.
			}

			b.WriteString("--" + p.Boundary + g.nl)
			b.Write(c.Bytes())
			b.WriteString(g.nl)
		}

		b.WriteString("--" + p.Boundary + "--")

		switch g.rng.Intn(3) {
		case 0:
			b.WriteString(g.nl)
		case 1:
			b.WriteString(g.nl + "epilogue text" + g.nl)
		}

		p.Body = b.Bytes()
	default:
		p.Type, p.Sub = "message", "rfc822"
		p.Embedded = g.message(depth+1, fmt.Sprintf("%s-emb%d", marker, depth))
		p.Body = p.Embedded.Bytes()

		// a forwarded message usually is an attachment with a name of its own
		if g.rng.Intn(2) == 0 {
			p.Disp = []string{"attachment", "inline"}[g.rng.Intn(2)]
			p.DispParam = append(p.DispParam, [2]string{"filename", "fwd.eml"})
		}
	}

	if g.bigLeaf > 0 && !p.IsMultipart() && !p.IsMessage() && g.rng.Intn(4) == 0 {
		var b bytes.Buffer

		line := g.words(12) + g.nl
		for b.Len() < g.bigLeaf {
			b.WriteString(line)
		}

		p.Body = b.Bytes()
		g.bigLeaf = 0
	}

	// A leaf text that contains the delimiter text of an enclosing multipart in mid-line is harmless.
	mimeFields = append(mimeFields, g.field(caseMix(g.rng, "Content-Type"), g.contentTypeValue(p)))

	if p.Encoding != "" {
		mimeFields = append(mimeFields, g.field("Content-Transfer-Encoding", p.Encoding))
	}

	if p.Disp != "" {
		v := p.Disp
		for _, kv := range p.DispParam {
			v += `; ` + kv[0] + `="` + kv[1] + `"`
		}

		mimeFields = append(mimeFields, g.field("Content-Disposition", v))
	}

	if g.rng.Intn(6) == 0 {
		p.ID = fmt.Sprintf("<id%d@verif>", g.rng.Intn(1000))
		mimeFields = append(mimeFields, g.field("Content-ID", p.ID))
	}

	if g.rng.Intn(8) == 0 {
		p.Desc = g.words(2)
		mimeFields = append(mimeFields, g.field("Content-Description", p.Desc))
	}

	p.Fields = mimeFields

	if !top {
		// Sub-parts sometimes carry no header at all (just the empty line): defaults apply.
		if !p.IsMultipart() && !p.IsMessage() && len(p.Params) == 0 && p.Encoding == "" && p.Disp == "" && p.ID == "" && p.Desc == "" && p.Sub == "plain" && g.rng.Intn(2) == 0 {
			p.Fields = nil
		}

		p.Header = g.headerBlock(p.Fields)
	}

	return p
}

// message builds a complete RFC 5322 message whose body is a generated MIME entity.
func (g *mimeGen) message(depth int, marker string) *mimePart {
	p := g.part(depth, true, marker)

	fields := []hdrField{
		g.field("From", fmt.Sprintf("Alice %s <alice@example.com>", g.words(1))),
		g.field(caseMix(g.rng, "To"), "bob@example.com, Carol <carol@example.org>"),
		g.field("Subject", "subj "+marker+" "+g.words(1+g.rng.Intn(6))),
		g.field("Date", "Mon, 02 Jan 2006 15:04:05 +0000"),
		g.field("Message-Id", fmt.Sprintf("<%s@verif.example>", marker)),
		g.field(markerHeader, marker),
	}

	if g.rng.Intn(3) == 0 {
		fields = append(fields, g.field("Cc", "dave@example.net"))
	}

	for i := 0; i < g.rng.Intn(4); i++ {
		fields = append(fields, g.field(fmt.Sprintf("X-Custom-%d", g.rng.Intn(3)), g.words(1+g.rng.Intn(8))))
	}

	if g.emptyFields && g.rng.Intn(3) == 0 {
		for i := 0; i < 1+g.rng.Intn(2); i++ {
			name := fmt.Sprintf("X-Empty-%d", g.rng.Intn(3))
			raw := name + ":" + []string{"", "", " ", "\t"}[g.rng.Intn(4)] + g.nl
			fields = append(fields, hdrField{Name: name, Raw: []byte(raw)})
		}
	}

	// Received-like duplicates
	if g.rng.Intn(3) == 0 {
		fields = append(fields, g.field("Received", "from a by b"), g.field("Received", "from c by d"))
	}

	g.rng.Shuffle(len(fields), func(i, j int) { fields[i], fields[j] = fields[j], fields[i] })

	if g.rng.Intn(4) != 0 {
		fields = append(fields, g.field("MIME-Version", "1.0"))
	}

	// Insert the MIME fields at a random position.
	pos := g.rng.Intn(len(fields) + 1)
	all := append([]hdrField{}, fields[:pos]...)
	all = append(all, p.Fields...)
	all = append(all, fields[pos:]...)

	p.Fields = all
	p.Header = g.headerBlock(all)

	return p
}

// walk visits every addressable section with its IMAP part path ("" for the message itself).
type sectionInfo struct {
	Path string
	Part *mimePart
}

// sections lists (path, part) for all MIME parts below msg following RFC 3501 numbering.
func sections(msg *mimePart) []sectionInfo {
	var out []sectionInfo

	var rec func(p *mimePart, prefix string)

	rec = func(p *mimePart, prefix string) {
		join := func(i int) string {
			if prefix == "" {
				return fmt.Sprint(i)
			}

			return fmt.Sprintf("%s.%d", prefix, i)
		}

		switch {
		case p.IsMultipart():
			for i, c := range p.Children {
				out = append(out, sectionInfo{join(i + 1), c})

				if c.IsMultipart() || c.IsMessage() {
					rec(c, join(i+1))
				}
			}
		case p.IsMessage():
			// The parts of the embedded message are numbered below the message/rfc822 part.
			if p.Embedded.IsMultipart() {
				rec(p.Embedded, prefix)
			}
		}
	}

	if msg.IsMultipart() || msg.IsMessage() {
		rec(msg, "")
	}

	return out
}

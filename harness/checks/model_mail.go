package checks

import (
	"fmt"
	"sort"
	"strings"
)

// Reference model of the message commands (C03, reused by C04, C06, C07, C17, C20).
// It is a direct transcription of the property text, not of gluon's code:
//   - a mailbox is an ordered list of messages, each held at most once;
//   - flags are shared per message, except \Deleted which is per mailbox;
//   - flags compare case-insensitively;
//   - COPY/MOVE of a message the destination already holds re-files it at the end;
//   - EXPUNGE / CLOSE remove the messages flagged \Deleted in that mailbox.

type mMsg struct {
	// AppendedDeleted: the message was APPENDed with \Deleted among its initial flags.
	AppendedDeleted bool

	Marker string
	Body   []byte
	Flags  map[string]bool // lower-case, never \deleted / \recent
}

type mEntry struct {
	Msg     *mMsg
	Deleted bool
}

type mBox struct {
	Name    string
	Entries []*mEntry
}

type mailModel struct {
	Boxes map[string]*mBox
	Msgs  map[string]*mMsg
}

func newMailModel(boxes ...string) *mailModel {
	m := &mailModel{Boxes: map[string]*mBox{}, Msgs: map[string]*mMsg{}}
	for _, b := range boxes {
		m.Boxes[b] = &mBox{Name: b}
	}

	return m
}

func (m *mailModel) box(name string) *mBox { return m.Boxes[name] }

func (b *mBox) index(msg *mMsg) int {
	for i, e := range b.Entries {
		if e.Msg == msg {
			return i
		}
	}

	return -1
}

func (b *mBox) remove(msg *mMsg) {
	if i := b.index(msg); i >= 0 {
		b.Entries = append(b.Entries[:i:i], b.Entries[i+1:]...)
	}
}

func splitFlags(flags []string) (shared []string, deleted bool) {
	for _, f := range flags {
		l := strings.ToLower(f)
		if l == `\deleted` {
			deleted = true
		} else if l != `\recent` {
			shared = append(shared, l)
		}
	}

	return
}

func (m *mailModel) appendMsg(box, marker string, body []byte, flags []string) {
	shared, deleted := splitFlags(flags)
	msg := &mMsg{Marker: marker, Body: body, Flags: map[string]bool{}, AppendedDeleted: deleted}

	for _, f := range shared {
		msg.Flags[f] = true
	}

	m.Msgs[marker] = msg
	m.Boxes[box].Entries = append(m.Boxes[box].Entries, &mEntry{Msg: msg, Deleted: deleted})
}

// store applies a STORE to the entries at the given 0-based positions.
func (m *mailModel) store(box string, positions []int, action string, flags []string) {
	shared, deleted := splitFlags(flags)
	b := m.Boxes[box]

	for _, p := range positions {
		e := b.Entries[p]

		switch action {
		case "+":
			for _, f := range shared {
				e.Msg.Flags[f] = true
			}

			if deleted {
				e.Deleted = true
			}
		case "-":
			for _, f := range shared {
				delete(e.Msg.Flags, f)
			}

			if deleted {
				e.Deleted = false
			}
		default:
			e.Msg.Flags = map[string]bool{}
			for _, f := range shared {
				e.Msg.Flags[f] = true
			}

			e.Deleted = deleted
		}
	}
}

// expunge removes \Deleted entries (restricted to positions when not nil).
func (m *mailModel) expunge(box string, positions []int) int {
	b := m.Boxes[box]

	var keep []*mEntry

	only := map[int]bool{}
	for _, p := range positions {
		only[p] = true
	}

	n := 0

	for i, e := range b.Entries {
		if e.Deleted && (positions == nil || only[i]) {
			n++
			continue
		}

		keep = append(keep, e)
	}

	b.Entries = keep

	return n
}

// copyTo files the messages at positions of src at the end of dst. batch returns the
// markers filed by this call (their relative order inside the batch is not prescribed).
func (m *mailModel) copyTo(src string, positions []int, dst string, move bool) (batch []string) {
	s, d := m.Boxes[src], m.Boxes[dst]

	var msgs []*mMsg
	for _, p := range positions {
		msgs = append(msgs, s.Entries[p].Msg)
	}

	for _, msg := range msgs {
		d.remove(msg)
	}

	if move && src != dst {
		for _, msg := range msgs {
			s.remove(msg)
		}
	}

	for _, msg := range msgs {
		d.Entries = append(d.Entries, &mEntry{Msg: msg})
		batch = append(batch, msg.Marker)
	}

	return batch
}

func (e *mEntry) flagKey() string {
	var fl []string
	for f := range e.Msg.Flags {
		fl = append(fl, f)
	}

	if e.Deleted {
		fl = append(fl, `\deleted`)
	}

	sort.Strings(fl)

	return strings.Join(fl, " ")
}

func (b *mBox) summary() []string {
	out := make([]string, len(b.Entries))
	for i, e := range b.Entries {
		out[i] = fmt.Sprintf("%s[%s]", e.Msg.Marker, e.flagKey())
	}

	return out
}

// compareBox checks a fresh view against the model. unordered lists marker groups whose
// internal order the property does not prescribe (one multi-message batch).
func compareBox(b *mBox, v *BoxView, unordered [][]string, withBody bool, gluonIDLine func(body []byte) ([]byte, bool)) (kind, text string) {
	if len(b.Entries) != len(v.Msgs) {
		return "count", fmt.Sprintf("message count: model %d %v, server %d %v", len(b.Entries), b.summary(), len(v.Msgs), v.Summary())
	}

	group := map[string]int{}
	for gi, g := range unordered {
		for _, mk := range g {
			group[mk] = gi + 1
		}
	}

	byMarker := map[string]MsgView{}
	for _, mv := range v.Msgs {
		if _, dup := byMarker[mv.Marker]; dup {
			return "duplicate", fmt.Sprintf("message %q listed twice: %v", mv.Marker, v.Summary())
		}

		byMarker[mv.Marker] = mv
	}

	var last uint32

	for i, mv := range v.Msgs {
		if mv.UID <= last {
			return "uid-order", fmt.Sprintf("UIDs not strictly ascending at row %d: %v", i, v.UIDs())
		}

		last = mv.UID
	}

	for i, e := range b.Entries {
		got := v.Msgs[i]

		if got.Marker != e.Msg.Marker {
			g1, g2 := group[got.Marker], group[e.Msg.Marker]
			if g1 == 0 || g1 != g2 {
				return "order", fmt.Sprintf("order/identity at position %d: model %v, server %v", i+1, b.summary(), v.Summary())
			}
		}

		mv, ok := byMarker[e.Msg.Marker]
		if !ok {
			return "missing", fmt.Sprintf("message %q missing: model %v, server %v", e.Msg.Marker, b.summary(), v.Summary())
		}

		if mv.FlagKey() != e.flagKey() {
			if e.Msg.AppendedDeleted && !e.Deleted && mv.FlagKey() == (&mEntry{Msg: e.Msg, Deleted: true}).flagKey() {
				return "flags sticky-\\Deleted-of-message-APPENDed-with-\\Deleted", fmt.Sprintf("flags of %q: model [%s], server [%s]", e.Msg.Marker, e.flagKey(), mv.FlagKey())
			}

			return "flags", fmt.Sprintf("flags of %q: model [%s], server [%s]", e.Msg.Marker, e.flagKey(), mv.FlagKey())
		}

		if withBody {
			body := mv.Body
			if gluonIDLine != nil {
				stripped, ok := gluonIDLine(body)
				if !ok {
					return "bytes", fmt.Sprintf("body of %q has no single server ID line: %q", e.Msg.Marker, shorten(string(body), 200))
				}

				body = stripped
			}

			if string(body) != string(e.Msg.Body) {
				return "bytes", fmt.Sprintf("bytes of %q differ: model %q, server %q", e.Msg.Marker, shorten(string(e.Msg.Body), 120), shorten(string(body), 120))
			}
		}
	}

	return "", ""
}

// stripGluonID removes exactly one "X-Pm-Gluon-Id: <uuid>\r\n" line from the header.
func stripGluonID(body []byte) ([]byte, bool) {
	s := string(body)
	key := "X-Pm-Gluon-Id: "

	hdrEnd := strings.Index(s, "\r\n\r\n")
	if hdrEnd < 0 {
		hdrEnd = len(s)
	}

	i := strings.Index(s[:hdrEnd+2], key)
	if i < 0 || (i > 0 && s[i-1] != '\n') {
		return body, false
	}

	j := strings.Index(s[i:], "\r\n")
	if j < 0 {
		return body, false
	}

	rest := s[:i] + s[i+j+2:]
	if strings.Contains(headerPart(rest), key) {
		return body, false
	}

	return []byte(rest), true
}

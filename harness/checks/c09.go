package checks

import (
	"bytes"
	"encoding/json"
	"fmt"
	"hash/crc32"
	"math/rand"
	"os"
	"path/filepath"
	"sort"
	"strings"
	"sync"
	"sync/atomic"
	"time"

	"github.com/ProtonMail/gluon/imap"
	"github.com/ProtonMail/gluon/store"
	"github.com/ProtonMail/gluon/verifhooks/fp"
	"github.com/anishathalye/porcupine"
	"github.com/pierrec/lz4/v4"

	"verifharness/ev"
)

func init() {
	register("C09", "exploration", runC09)

	ChildModes["c09conc"] = c09ConcChild
}

const c09Block = 64 * 4096 // store/disk.go blockSize

func c09Content(rng *rand.Rand, kind string, n int) []byte {
	b := make([]byte, n)

	switch kind {
	case "zeros":
	case "text":
		words := []string{"lorem ", "ipsum ", "dolor ", "sit ", "amet\r\n", "Subject: ", "From: ", "\r\n"}
		i := 0

		for i < n {
			w := words[rng.Intn(len(words))]
			i += copy(b[i:], w)
		}
	case "random":
		rng.Read(b)
	default: // mixed
		rng.Read(b)

		for i := 0; i < n; i += 8192 {
			if (i/8192)%2 == 0 {
				end := i + 8192
				if end > n {
					end = n
				}

				for j := i; j < end; j++ {
					b[j] = byte('a' + j%7)
				}
			}
		}
	}

	return b
}

// compressedLen computes the size of the LZ4 frame the store writes for data (same options).
func compressedLen(data []byte) int {
	var buf bytes.Buffer

	w := lz4.NewWriter(&buf)
	_ = w.Apply(lz4.BlockSizeOption(lz4.Block64Kb), lz4.ChecksumOption(false))
	_, _ = w.ReadFrom(bytes.NewReader(data))
	_ = w.Close()

	return buf.Len()
}

// plainLenForCompressed finds a random-content length whose compressed size is exactly target.
func plainLenForCompressed(pool []byte, target int) (int, bool) {
	n := target - 64
	if n < 0 {
		n = 0
	}

	for iter := 0; iter < 60; iter++ {
		if n > len(pool) {
			return 0, false
		}

		got := compressedLen(pool[:n])
		if got == target {
			return n, true
		}

		n += target - got
		if n < 0 {
			n = 0
		}
	}

	return 0, false
}

func runC09(r *ev.Run) {
	r.SetRule("(a) Set/Get/Delete/List on the on-disk store against a map model for sizes at and around the cipher block edges (computed with the same LZ4 options) and four compressibility classes; (b) truncation / bit-flip / block drop-swap-duplicate / wrong-passphrase (an unrelated one, and for a 69-byte passphrase its prefixes, extensions and one-byte changes before and beyond the 32nd byte) sweep over stored files: Get must return an error or exactly the stored bytes; (c) concurrent Get/Set/Delete histories on the WriteControlledStore with unique self-describing values, checked per ID with porcupine against a register-with-delete model, and the same workload under the race detector. distinct = distinct (part, size class, content kind | corruption kind, position class | history) cases")
	r.Assume("corruption sweep positions: every offset for small files; header+nonce region, +-32 bytes around every block boundary and a PRNG sample elsewhere for large files",
		"a porcupine timeout is inconclusive, never a violation")

	c09RoundTrip(r)
	c09Corruption(r)
	c09Concurrent(r)
}

type c09Store struct {
	dir  string
	st   store.Store
	pass []byte
}

func c09Open(r *ev.Run, label string) *c09Store {
	dir := caseDir(r, label)

	st, err := store.NewOnDiskStore(dir, []byte("verif-passphrase"))
	if err != nil {
		panic(err)
	}

	return &c09Store{dir: dir, st: st, pass: []byte("verif-passphrase")}
}

func sizeClassC09(n int) string {
	switch {
	case n == 0:
		return "0"
	case n < 64:
		return "<64"
	case n < c09Block:
		return "<1block"
	case n < 2*c09Block:
		return "1..2blocks"
	case n < 5*c09Block:
		return "2..5blocks"
	default:
		return ">=5blocks"
	}
}

func c09RoundTrip(r *ev.Run) {
	rng := r.Rand("roundtrip")

	pool := make([]byte, 5*c09Block+4096)
	r.Rand("pool").Read(pool)

	type sz struct {
		n    int
		note string
	}

	var sizes []sz

	for _, n := range []int{0, 1, 15, 16, 17, 4095, 4096, 65535, 65536, 65537, c09Block - 1, c09Block, c09Block + 1} {
		sizes = append(sizes, sz{n, "plain"})
	}

	maxK := r.Pick(2, 4)
	for k := 1; k <= maxK; k++ {
		for d := -1; d <= 1; d++ {
			if n, ok := plainLenForCompressed(pool, k*c09Block+d); ok {
				sizes = append(sizes, sz{n, fmt.Sprintf("compressed=%d*256KiB%+d", k, d)})
			} else {
				r.Inconclusive("no plain length found whose compressed size is %d*256KiB%+d", k, d)
			}
		}
	}

	sizes = append(sizes, sz{r.Pick(3, 8) << 20, "multi-MiB"})
	if r.Thorough() {
		sizes = append(sizes, sz{32 << 20, "32MiB"})
	}

	s := c09Open(r, "roundtrip")
	defer os.RemoveAll(s.dir)

	model := map[imap.InternalMessageID][]byte{}

	var ids []imap.InternalMessageID

	check := func(where string) bool {
		for _, id := range ids {
			want, present := model[id]

			got, err := s.st.Get(id)
			if present {
				if err != nil {
					r.Violate("C09 roundtrip get-error "+sizeClassC09(len(want)), fmt.Sprintf("Get of a stored value (%d bytes) failed after %s: %v", len(want), where, err), "roundtrip", nil)
					return false
				}

				if !bytes.Equal(got, want) {
					r.Violate("C09 roundtrip wrong-bytes "+sizeClassC09(len(want)), fmt.Sprintf("Get returned %d bytes that differ from the %d stored (first difference at %d) after %s", len(got), len(want), firstDiffAt(got, want), where), "roundtrip", nil)
					return false
				}
			} else if err == nil {
				r.Violate("C09 roundtrip deleted-still-readable", fmt.Sprintf("Get of a deleted ID returned %d bytes after %s", len(got), where), "roundtrip", nil)
				return false
			}
		}

		listed, err := s.st.List()
		if err != nil {
			r.Violate("C09 roundtrip list-error", fmt.Sprintf("List failed: %v", err), "roundtrip", nil)
			return false
		}

		var g, w []string
		for _, id := range listed {
			g = append(g, id.String())
		}

		for id := range model {
			w = append(w, id.String())
		}

		sort.Strings(g)
		sort.Strings(w)

		if !eqStrings(g, w) {
			r.Violate("C09 roundtrip list-differs", fmt.Sprintf("List returned %d IDs, %d are stored (after %s)", len(g), len(w), where), "roundtrip", nil)
			return false
		}

		return true
	}

	kinds := []string{"zeros", "text", "random", "mixed"}

	for _, size := range sizes {
		for _, kind := range kinds {
			if size.n > 4<<20 && kind != "mixed" && kind != "random" {
				continue
			}

			var data []byte
			if kind == "random" && size.n <= len(pool) {
				data = pool[:size.n] // the lengths were computed for this prefix
			} else {
				data = c09Content(rng, kind, size.n)
			}

			id := imap.NewInternalMessageID()
			ids = append(ids, id)
			r.Eval(1)

			if err := s.st.Set(id, bytes.NewReader(data)); err != nil {
				r.Violate("C09 roundtrip set-error", fmt.Sprintf("Set of %d %s bytes failed: %v", size.n, kind, err), "roundtrip", nil)
				return
			}

			model[id] = data
			r.Distinct(fmt.Sprintf("roundtrip %s %s %s", sizeClassC09(size.n), size.note, kind))

			got, err := s.st.Get(id)
			if err != nil || !bytes.Equal(got, data) {
				r.Violate(fmt.Sprintf("C09 roundtrip wrong-bytes %s", sizeClassC09(size.n)), fmt.Sprintf("Set then Get of %d %s bytes (%s): err=%v, got %d bytes, first difference at %d", size.n, kind, size.note, err, len(got), firstDiffAt(got, data)), "roundtrip", map[string]any{"size": size.n, "kind": kind})
				return
			}

			if r.WantSample() && kind == "random" && strings.HasPrefix(size.note, "compressed") {
				r.Sample(map[string]any{"part": "roundtrip", "plain_len": size.n, "note": size.note, "kind": kind, "file_len": fileLen(filepath.Join(s.dir, id.String()))})
			}

			// Keep memory bounded: big values are deleted again right away (delete is checked too).
			if size.n > 1<<20 {
				if err := s.st.Delete(id); err != nil {
					r.Violate("C09 roundtrip delete-error", fmt.Sprintf("Delete failed: %v", err), "roundtrip", nil)
					return
				}

				delete(model, id)
			}
		}
	}

	if !check("all sets") {
		return
	}

	// Overwrite (bigger->smaller and smaller->bigger), delete, re-create; IDs must not influence each other.
	for i := 0; i < r.Pick(40, 400); i++ {
		id := ids[rng.Intn(len(ids))]

		switch rng.Intn(3) {
		case 0:
			n := []int{0, 1, 17, 70000, c09Block + 5, 2*c09Block + 3}[rng.Intn(6)]
			data := c09Content(rng, kinds[rng.Intn(4)], n)

			if err := s.st.Set(id, bytes.NewReader(data)); err != nil {
				r.Violate("C09 roundtrip set-error", fmt.Sprintf("overwrite failed: %v", err), "roundtrip", nil)
				return
			}

			_, had := model[id]
			model[id] = data
			r.Distinct(fmt.Sprintf("roundtrip overwrite had=%v new=%s", had, sizeClassC09(n)))
		case 1:
			if _, ok := model[id]; ok {
				if err := s.st.Delete(id); err != nil {
					r.Violate("C09 roundtrip delete-error", fmt.Sprintf("Delete failed: %v", err), "roundtrip", nil)
					return
				}

				delete(model, id)
				r.Distinct("roundtrip delete")
			}
		default:
			r.Eval(1)

			if !check(fmt.Sprintf("overwrite/delete step %d", i)) {
				return
			}
		}
	}

	check("overwrite/delete phase")
}

func fileLen(p string) int64 {
	st, err := os.Stat(p)
	if err != nil {
		return -1
	}

	return st.Size()
}

func firstDiffAt(a, b []byte) int {
	n := len(a)
	if len(b) < n {
		n = len(b)
	}

	for i := 0; i < n; i++ {
		if a[i] != b[i] {
			return i
		}
	}

	if len(a) != len(b) {
		return n
	}

	return -1
}

// ---- (b) corruption sweep --------------------------------------------------------------

func c09Corruption(r *ev.Run) {
	rng := r.Rand("corruption")

	s := c09Open(r, "corrupt")
	defer os.RemoveAll(s.dir)

	const headerLen = 15 // "GLUON-CACHE" + 4 version bytes
	const nonceLen = 12

	type subject struct {
		name string
		data []byte
	}

	subjects := []subject{
		{"empty", nil},
		{"tiny", []byte("hello store")},
		{"small-text", c09Content(rng, "text", 3000)},
		{"one-block-random", c09Content(rng, "random", c09Block-100)},
		{"two-blocks-random", c09Content(rng, "random", c09Block+70000)},
		{"three-blocks-mixed", c09Content(rng, "mixed", 3*c09Block+12345)},
		{"compressible-big", c09Content(rng, "text", 2<<20)},
	}

	if r.Quick() {
		subjects = append(subjects[:5], subjects[6])
	}

	for _, sub := range subjects {
		id := imap.NewInternalMessageID()
		path := filepath.Join(s.dir, id.String())

		if err := s.st.Set(id, bytes.NewReader(sub.data)); err != nil {
			r.Inconclusive("corruption: Set failed: %v", err)
			return
		}

		orig, err := os.ReadFile(path)
		if err != nil {
			r.Inconclusive("corruption: reading the cache file: %v", err)
			return
		}

		encBlock := c09Block + 16
		nBlocks := 0

		if body := len(orig) - headerLen - nonceLen; body > 0 {
			nBlocks = (body + encBlock - 1) / encBlock
		}

		posClass := func(off int) string {
			switch {
			case off < headerLen:
				return "header"
			case off < headerLen+nonceLen:
				return "nonce"
			case off == headerLen+nonceLen:
				return "end-of-nonce"
			case off == len(orig):
				return "eof"
			}

			rel := (off - headerLen - nonceLen) % encBlock
			if rel == 0 {
				return "block-boundary"
			}

			if rel <= 32 || rel >= encBlock-32 {
				return "near-block-boundary"
			}

			return "inside-block"
		}

		// Offsets to probe.
		offsets := map[int]bool{}

		if len(orig) <= 6000 {
			for o := 0; o <= len(orig); o++ {
				offsets[o] = true
			}
		} else {
			for o := 0; o <= headerLen+nonceLen+40; o++ {
				offsets[o] = true
			}

			for b := 0; b <= nBlocks; b++ {
				base := headerLen + nonceLen + b*encBlock
				for d := -32; d <= 32; d++ {
					if o := base + d; o >= 0 && o <= len(orig) {
						offsets[o] = true
					}
				}
			}

			for i := 0; i < r.Pick(60, 600); i++ {
				offsets[rng.Intn(len(orig)+1)] = true
			}

			for d := 0; d <= 40; d++ {
				offsets[len(orig)-d] = true
			}
		}

		var offs []int
		for o := range offsets {
			offs = append(offs, o)
		}

		sort.Ints(offs)

		judge := func(kind string, off int, mutated []byte) bool {
			if err := os.WriteFile(path, mutated, 0o600); err != nil {
				r.Inconclusive("corruption: write: %v", err)
				return false
			}

			r.Eval(1)
			r.Distinct(fmt.Sprintf("corrupt %s %s %s", sub.name, kind, posClass(off)))

			got, err := s.st.Get(id)
			if err == nil && !bytes.Equal(got, sub.data) {
				sig := fmt.Sprintf("C09 corrupt %s at %s returns-different-bytes", kind, posClass(off))
				r.Violate(sig, fmt.Sprintf("cache file of %q (%d plain bytes, %d file bytes) %s at offset %d: Get returned %d bytes without error instead of the %d stored (first difference at %d)",
					sub.name, len(sub.data), len(orig), kind, off, len(got), len(sub.data), firstDiffAt(got, sub.data)), "corruption",
					map[string]any{"subject": sub.name, "kind": kind, "offset": off, "file_len": len(orig), "got_len": len(got)})

				return true // keep sweeping: other classes have other signatures
			}

			return true
		}

		for _, off := range offs {
			if off < len(orig) {
				judge("truncated", off, orig[:off])
			}

			if off < len(orig) {
				m := append([]byte{}, orig...)
				m[off] ^= 1 << uint(rng.Intn(8))
				judge("bit-flipped", off, m)
			}
		}

		// Whole-block manipulations.
		if nBlocks >= 2 {
			start := headerLen + nonceLen
			blk := func(i int) []byte {
				end := start + (i+1)*encBlock
				if end > len(orig) {
					end = len(orig)
				}

				return orig[start+i*encBlock : end]
			}

			head := orig[:start]

			var dropFirst, swapped, dupFirst []byte

			dropFirst = append(append([]byte{}, head...), orig[start+encBlock:]...)
			judge("first-block-dropped", start, dropFirst)

			dupFirst = append(append(append([]byte{}, head...), blk(0)...), orig[start:]...)
			judge("first-block-duplicated", start, dupFirst)

			if nBlocks >= 3 {
				swapped = append([]byte{}, head...)
				swapped = append(swapped, blk(1)...)
				swapped = append(swapped, blk(0)...)
				swapped = append(swapped, orig[start+2*encBlock:]...)
				judge("blocks-swapped", start, swapped)
			}

			lastDropped := orig[:start+(nBlocks-1)*encBlock]
			judge("last-block-dropped", len(lastDropped), lastDropped)
		}

		// A different passphrase must not decrypt the file.
		_ = os.WriteFile(path, orig, 0o600)

		other, err := store.NewOnDiskStore(s.dir, []byte("another-passphrase"))
		if err == nil {
			r.Eval(1)
			r.Distinct("corrupt wrong-passphrase " + sub.name)

			if got, err := other.Get(id); err == nil && !bytes.Equal(got, sub.data) {
				r.Violate("C09 wrong-passphrase returns-different-bytes", fmt.Sprintf("Get with another passphrase returned %d bytes without error", len(got)), "corruption", nil)
			} else if err == nil && len(sub.data) > 0 {
				r.Violate("C09 wrong-passphrase returns-the-bytes", "Get with another passphrase returned the stored bytes", "corruption", nil)
			}
		}

		// Passphrases related to the right one (a long one: prefixes, extensions, one byte changed at either end
		// or beyond the 32nd byte) are different passphrases too.
		longPass := []byte("verif-long-passphrase/0123456789abcdefghijklmnopqrstuvwxyz/ABCDEFGHIJ")
		longDir := filepath.Join(s.dir, "..", "c09-long-passphrase")

		if ls, err := store.NewOnDiskStore(longDir, longPass); err == nil && ls.Set(id, bytes.NewReader(sub.data)) == nil {
			flip := func(i int) []byte {
				p := append([]byte{}, longPass...)
				p[i] ^= 1

				return p
			}

			related := map[string][]byte{
				"one-byte-shorter": longPass[:len(longPass)-1], "one-byte-longer": append(append([]byte{}, longPass...), 'x'), "first-32-bytes": longPass[:32], "first-33-bytes": longPass[:33],
				"same-first-32-bytes-other-tail": append(append([]byte{}, longPass[:32]...), []byte("something else entirely")...), "last-byte-changed": flip(len(longPass) - 1), "first-byte-changed": flip(0),
				"byte-33-changed": flip(32), "byte-32-changed": flip(31), "doubled": append(append([]byte{}, longPass...), longPass...), "empty": {},
			}

			for name, pass := range related {
				other, err := store.NewOnDiskStore(longDir, pass)
				if err != nil {
					continue
				}

				r.Eval(1)
				r.Distinct("corrupt related-passphrase " + name + " " + sub.name)

				if got, err := other.Get(id); err == nil && (len(sub.data) > 0 || len(got) > 0) {
					r.Violate("C09 wrong-passphrase related "+name, fmt.Sprintf("a file written with a %d-byte passphrase was read without error (%d bytes, equal to the stored ones: %v) by a store opened with a different passphrase (%s)", len(longPass), len(got), bytes.Equal(got, sub.data), name), "corruption", nil)
				}
			}

			if got, err := ls.Get(id); err != nil || !bytes.Equal(got, sub.data) {
				r.Violate("C09 corrupt restore-failed", fmt.Sprintf("Get with the right long passphrase fails: %v", err), "corruption", nil)
			}

			_ = ls.Delete(id)
		}

		if got, err := s.st.Get(id); err != nil || !bytes.Equal(got, sub.data) {
			r.Violate("C09 corrupt restore-failed", fmt.Sprintf("after restoring the original file Get fails: %v", err), "corruption", nil)
		}

		if r.WantSample() {
			r.Sample(map[string]any{"part": "corruption", "subject": sub.name, "plain_len": len(sub.data), "file_len": len(orig), "encrypted_blocks": nBlocks, "offsets_probed": len(offs)})
		}
	}
}

// ---- (c) concurrency -------------------------------------------------------------------

type c09Op struct {
	Client int    `json:"c"`
	ID     int    `json:"id"`
	Kind   string `json:"k"` // set, get, del
	Arg    string `json:"a,omitempty"`
	Out    string `json:"o"`
	Call   int64  `json:"t0"`
	Ret    int64  `json:"t1"`
}

func c09Value(writer, counter int, rng *rand.Rand) []byte {
	n := []int{0, 10, 500, 70000, c09Block + 100}[rng.Intn(5)]
	payload := make([]byte, n)

	for i := range payload {
		payload[i] = byte('a' + (i+counter)%23)
	}

	head := fmt.Sprintf("w%d-c%d-n%d-crc%08x|", writer, counter, n, crc32.ChecksumIEEE(payload))

	return append([]byte(head), payload...)
}

// c09Describe validates a self-describing value and returns its short name.
func c09Describe(v []byte) (string, bool) {
	i := bytes.IndexByte(v, '|')
	if i < 0 {
		return "", false
	}

	head := string(v[:i])

	var w, c, n int

	var crc uint32

	if _, err := fmt.Sscanf(head, "w%d-c%d-n%d-crc%08x", &w, &c, &n, &crc); err != nil {
		return "", false
	}

	payload := v[i+1:]
	if len(payload) != n || crc32.ChecksumIEEE(payload) != crc {
		return "", false
	}

	return fmt.Sprintf("w%d-c%d", w, c), true
}

// c09RunHistory runs one concurrent history and returns the recorded operations.
func c09RunHistory(dir string, seed int64, clients, nIDs, opsPer int, widen bool) ([]c09Op, error) {
	inner, err := store.NewOnDiskStore(dir, []byte("verif-passphrase"))
	if err != nil {
		return nil, err
	}

	st := store.NewWriteControlledStore(inner)

	ids := make([]imap.InternalMessageID, nIDs)
	for i := range ids {
		ids[i] = imap.NewInternalMessageID()
	}

	if widen {
		var n atomic.Int64

		fp.Set("store.set.mid", func(string) error {
			if n.Add(1)%3 == 0 {
				time.Sleep(300 * time.Microsecond)
			}

			return nil
		})

		defer fp.Set("store.set.mid", nil)
	}

	start := time.Now()
	now := func() int64 { return int64(time.Since(start)) }

	var (
		mu  sync.Mutex
		ops []c09Op
		wg  sync.WaitGroup
	)

	for cl := 0; cl < clients; cl++ {
		wg.Add(1)

		go func(cl int) {
			defer wg.Done()

			rng := rand.New(rand.NewSource(seed*1000 + int64(cl)))

			for k := 0; k < opsPer; k++ {
				idx := rng.Intn(nIDs)
				op := c09Op{Client: cl, ID: idx}

				switch x := rng.Intn(10); {
				case x < 4:
					val := c09Value(cl, k, rng)
					op.Kind = "set"
					op.Arg, _ = c09Describe(val)
					op.Call = now()
					err := st.Set(ids[idx], bytes.NewReader(val))
					op.Ret = now()

					if err != nil {
						op.Out = "ERR:" + err.Error()
					} else {
						op.Out = "ok"
					}
				case x < 9:
					op.Kind = "get"
					op.Call = now()
					v, err := st.Get(ids[idx])
					op.Ret = now()

					if err != nil {
						op.Out = "ERR"
					} else if name, ok := c09Describe(v); ok {
						op.Out = name
					} else {
						op.Out = fmt.Sprintf("TORN(%d bytes)", len(v))
					}
				default:
					op.Kind = "del"
					op.Call = now()
					err := st.Delete(ids[idx])
					op.Ret = now()

					if err != nil {
						op.Out = "ERR"
					} else {
						op.Out = "ok"
					}
				}

				mu.Lock()
				ops = append(ops, op)
				mu.Unlock()
			}
		}(cl)
	}

	wg.Wait()

	return ops, nil
}

var c09Model = porcupine.Model{
	Partition: func(history []porcupine.Operation) [][]porcupine.Operation {
		by := map[int][]porcupine.Operation{}
		for _, o := range history {
			by[o.Input.(c09Op).ID] = append(by[o.Input.(c09Op).ID], o)
		}

		var out [][]porcupine.Operation
		for _, v := range by {
			out = append(out, v)
		}

		return out
	},
	Init: func() any { return "" }, // "" = absent
	Step: func(state, input, output any) (bool, any) {
		in := input.(c09Op)
		out := output.(string)
		st := state.(string)

		switch in.Kind {
		case "set":
			if out != "ok" {
				return false, st
			}

			return true, in.Arg
		case "del":
			// Deleting an absent ID reports an error and changes nothing.
			if st == "" {
				return out == "ERR", ""
			}

			return out == "ok", ""
		default:
			if st == "" {
				return out == "ERR", st
			}

			return out == st, st
		}
	},
	DescribeOperation: func(input, output any) string {
		in := input.(c09Op)
		return fmt.Sprintf("%s(id%d %s) -> %s", in.Kind, in.ID, in.Arg, output)
	},
}

func c09CheckHistory(r *ev.Run, label string, ops []c09Op) {
	for _, o := range ops {
		if strings.HasPrefix(o.Out, "TORN") {
			r.Violate("C09 concurrent torn-value", fmt.Sprintf("a concurrent Get returned bytes that are not a complete written value: %s", o.Out), label, map[string]any{"op": o})
			return
		}
	}

	var hist []porcupine.Operation
	for _, o := range ops {
		hist = append(hist, porcupine.Operation{ClientId: o.Client, Input: o, Call: o.Call, Output: o.Out, Return: o.Ret})
	}

	res, _ := porcupine.CheckOperationsVerbose(c09Model, hist, 60*time.Second)

	switch res {
	case porcupine.Ok:
	case porcupine.Unknown:
		r.Inconclusive("%s: porcupine timed out on %d operations", label, len(ops))
	default:
		sort.Slice(ops, func(i, j int) bool { return ops[i].Call < ops[j].Call })

		w := ops
		if len(w) > 200 {
			w = w[:200]
		}

		r.Violate("C09 concurrent not-linearizable", fmt.Sprintf("history of %d Get/Set/Delete operations on the write-controlled store is not linearizable w.r.t. a register-with-delete per ID", len(ops)), label, map[string]any{"history": w})
	}
}

func interleavingSig(ops []c09Op) string {
	sorted := append([]c09Op{}, ops...)
	sort.Slice(sorted, func(i, j int) bool { return sorted[i].Call < sorted[j].Call })

	var b strings.Builder
	for _, o := range sorted {
		fmt.Fprintf(&b, "%d%s%d,", o.Client, o.Kind[:1], o.ID)
	}

	return fmt.Sprintf("%08x", crc32.ChecksumIEEE([]byte(b.String())))
}

func c09Concurrent(r *ev.Run) {
	histories := r.Pick(60, 1500)
	overlaps := 0

	for h := 0; h < histories; h++ {
		label := fmt.Sprintf("conc-%d", h)
		if r.OnlyCase != "" && r.OnlyCase != label {
			continue
		}

		rng := r.Rand(label)
		clients := 4 + rng.Intn(9)
		nIDs := 1 + rng.Intn(3)
		dir := caseDir(r, label)

		ops, err := c09RunHistory(dir, rng.Int63(), clients, nIDs, 12, h%2 == 0)
		_ = os.RemoveAll(dir)

		if err != nil {
			r.Inconclusive("%s: %v", label, err)
			continue
		}

		r.Eval(1)
		r.Count("concurrent_operations", len(ops))
		r.Distinct("interleaving " + interleavingSig(ops))

		// How concurrent was it really? Count operation pairs on the same ID that overlap in time.
		for i := range ops {
			for j := i + 1; j < len(ops); j++ {
				if ops[i].ID == ops[j].ID && ops[i].Call < ops[j].Ret && ops[j].Call < ops[i].Ret {
					overlaps++
				}
			}
		}

		c09CheckHistory(r, label, ops)

		if r.WantSample() && h == 0 {
			w := ops
			if len(w) > 25 {
				w = w[:25]
			}

			r.Sample(map[string]any{"part": "concurrent", "clients": clients, "ids": nIDs, "first_ops": w})
		}
	}

	r.Count("overlapping_same_id_operation_pairs", overlaps)

	if overlaps == 0 && r.OnlyCase == "" {
		r.Inconclusive("concurrent part: no two operations on the same ID ever overlapped in time")
	}

	if r.OnlyCase != "" {
		return
	}

	// The same workload under the race detector (child process, reports de-duplicated).
	dir := caseDir(r, "race")
	defer os.RemoveAll(dir)

	res := runChild(dir, true, 10*time.Minute, nil, "c09conc", dir, fmt.Sprint(r.Seed), fmt.Sprint(r.Pick(40, 600)))
	r.Count("race_detector_histories", r.Pick(40, 600))
	r.Count("race_reports_raw", res.RaceRaw)

	if res.TimedOut {
		r.Inconclusive("race-detector child timed out")
	} else if res.ExitCode != 0 && res.RaceRaw == 0 {
		if strings.Contains(res.Stdout, "CHILD-VIOLATION") {
			r.Violate("C09 concurrent (race build) "+firstLine(res.Stdout[strings.Index(res.Stdout, "CHILD-VIOLATION"):]), "the race-detector build of the concurrent workload saw a torn or non-linearizable result", "race", map[string]any{"stdout": tailLines(res.Stdout, 30)})
		} else {
			r.Inconclusive("race-detector child failed: %s", childFailureSummary(res))
		}
	}

	for _, blk := range res.RaceBlocks {
		key := firstLine(blk)
		r.Violate("C09 "+key, "data race in the store under concurrent Get/Set/Delete: "+key, "race", map[string]any{"report": firstLines(blk, 60)})
	}
}

func firstLine(s string) string {
	if i := strings.IndexByte(s, '\n'); i >= 0 {
		return s[:i]
	}

	return s
}

// c09ConcChild: args = dir seed histories. Runs histories (for the race detector) and also
// applies the torn-value / linearizability oracle.
func c09ConcChild(args []string) int {
	if len(args) < 3 {
		return 2
	}

	dir := args[0]

	var seed, n int64

	fmt.Sscan(args[1], &seed)
	fmt.Sscan(args[2], &n)

	r := ev.NewRun("C09child", "quick", "exploration")
	r.Seed = seed

	bad := 0

	for h := int64(0); h < n; h++ {
		rng := r.Rand("race", h)
		sub := filepath.Join(dir, fmt.Sprintf("h%d", h))
		ops, err := c09RunHistory(sub, rng.Int63(), 4+rng.Intn(9), 1+rng.Intn(3), 12, h%2 == 0)
		_ = os.RemoveAll(sub)

		if err != nil {
			fmt.Println("history error:", err)
			continue
		}

		for _, o := range ops {
			if strings.HasPrefix(o.Out, "TORN") {
				blob, _ := json.Marshal(o)
				fmt.Printf("CHILD-VIOLATION torn-value %s\n", blob)

				bad++
			}
		}
	}

	if bad > 0 {
		return 3
	}

	return 0
}

package checks

import (
	"fmt"
	"math/rand"
	"strings"

	"github.com/ProtonMail/gluon/imap"

	"verifharness/ev"
	"verifharness/imapc"
	"verifharness/srv"
)

func init() { register("C05", "exploration", runC05) }

var c05NoExpungeKinds = map[string]bool{"FETCH": true, "UID FETCH": true, "STORE": true, "UID STORE": true, "SEARCH": true, "UID SEARCH": true}

func runC05(r *ev.Run) {
	r.SetRule("an observer keeps a mailbox selected while other sessions and the connector remove messages from it (EXPUNGE, MOVE away, remote un-label, remote delete) and put them back (move back, copy back, remote re-label); the observer's next commands are drawn from all kinds. Trace monitor: (a) no untagged EXPUNGE while FETCH/STORE/SEARCH (incl. UID forms, incl. failing ones) is in flight; (b) once a removal is committed and applied to the observer (barrier), the first OK command out of NOOP, CHECK, EXPUNGE, MOVE, STATUS of the selected mailbox, APPEND to it, IDLE announces it; (c) the observer's mirror never holds the same message twice; (d) an OK FETCH/STORE/SEARCH executed while a removal is unannounced carries [EXPUNGEISSUED]. Random histories plus the table (removal kind x re-add kind x next command x command after). distinct = distinct (removal, re-add, next, after) tuples and (pending?, command kind, outcome) triples")
	r.Assume("'applied to the observer' is the verif quiescence barrier; pending removals are the UIDs the observer has been told about that a fresh session no longer finds")

	hist := r.Pick(300, 4000)

	ev.Parallel(hist, 10, func(i int) {
		label := fmt.Sprintf("hist-%d", i)
		if r.OnlyCase != "" && r.OnlyCase != label {
			return
		}

		c05History(r, label, r.Pick(30, 40))
	})

	c05Table(r)
}

type c05Obs struct {
	w   *world
	obs *vsess
}

// install hooks the trace monitor (a) into the world.
func c05Install(w *world) {
	w.onResp = func(s *vsess, kind string, resp *imapc.Resp) {
		if resp.Kind == "EXPUNGE" && c05NoExpungeKinds[kind] {
			w.violate("C05 expunge-during "+kind, fmt.Sprintf("%s received %q while its %s command was in flight", s.name, resp.String(), kind), nil)
		}
	}
}

// pendingRemovals: UIDs the observer knows that the mailbox no longer holds.
func c05Pending(w *world, obs *vsess) (map[uint32]bool, bool) {
	fv, err := freshView(w.s, 0, obs.box, false)
	if err != nil {
		w.r.Inconclusive("%s: fresh view: %v", w.label, err)
		return nil, false
	}

	have := map[uint32]bool{}
	for _, m := range fv.Msgs {
		have[m.UID] = true
	}

	pending := map[uint32]bool{}

	for _, e := range obs.mir.Entries {
		if e.UID != 0 && !have[e.UID] {
			pending[e.UID] = true
		}
	}

	return pending, true
}

// c05Next lets the observer issue a command of the given kind and judges (b) and (d).
func c05Next(w *world, obs *vsess, rng *rand.Rand, kind string, pending map[uint32]bool) {
	n := len(obs.mir.Entries)

	var res *imapc.Result

	firstSeq := func() string {
		if n == 0 {
			return "1"
		}

		return fmt.Sprint(1 + rng.Intn(n))
	}

	switch kind {
	case "FETCH":
		res = w.exec(obs, fmt.Sprintf("FETCH %s (FLAGS)", firstSeq()))
	case "FETCH-BODY":
		res = w.exec(obs, fmt.Sprintf("FETCH %s (BODY[])", firstSeq()))
		kind = "FETCH"
	case "UID FETCH":
		res = w.exec(obs, "UID FETCH 1:* (FLAGS)")
	case "STORE":
		res = w.exec(obs, fmt.Sprintf("STORE %s +FLAGS (kwc05)", firstSeq()))
	case "STORE-SILENT":
		res = w.exec(obs, fmt.Sprintf("STORE %s -FLAGS.SILENT (kwc05)", firstSeq()))
		applySilentStore(&obs.mir, seqRange(0, n-1), "", nil)
		kind = "STORE"
	case "UID STORE":
		res = w.exec(obs, "UID STORE 1:* +FLAGS.SILENT (kwc05b)")
		applySilentStore(&obs.mir, seqRange(0, n-1), "", nil)
	case "SEARCH":
		res = w.exec(obs, "SEARCH ALL")
	case "UID SEARCH":
		res = w.exec(obs, "UID SEARCH UNSEEN")
	case "SEARCH-FAILING":
		res = w.exec(obs, "SEARCH CHARSET x-no-such-charset ALL")
		kind = "SEARCH"
	case "FETCH-FAILING":
		res = w.exec(obs, fmt.Sprintf("FETCH %d (FLAGS)", n+5))
		kind = "FETCH"
	case "NOOP":
		res = w.exec(obs, "NOOP")
	case "CHECK":
		res = w.exec(obs, "CHECK")
	case "EXPUNGE":
		res = w.exec(obs, "EXPUNGE")
	case "MOVE":
		if n == 0 {
			res = w.exec(obs, "NOOP")
			kind = "NOOP"
		} else {
			res = w.exec(obs, fmt.Sprintf("MOVE %s Side", firstSeq()))
		}
	case "STATUS":
		res = w.exec(obs, fmt.Sprintf("STATUS %s (MESSAGES)", imapc.Quote(obs.box)))
	case "APPEND":
		res = w.exec(obs, fmt.Sprintf("APPEND %s ", imapc.Quote(obs.box)), imapc.Lit(simpleMessage(w.marker(), nil)))
	case "IDLE":
		ir := obs.c.IdleStart()
		if ir.Err == nil && ir.Status == "" {
			ir = obs.c.IdleDone(ir)
		}

		w.absorb(obs, "IDLE", ir)
		res = ir
	default:
		res = w.exec(obs, "NOOP")
		kind = "NOOP"
	}

	if w.isFailed() || res == nil {
		return
	}

	w.r.Distinct(fmt.Sprintf("next pending=%v %s %s", len(pending) > 0, kind, res.Status))

	if c05NoExpungeKinds[kind] {
		// (d) a successful FETCH/STORE/SEARCH that held removals back says so.
		if res.OK() && len(pending) > 0 && !strings.Contains(strings.ToUpper(res.Code), "EXPUNGEISSUED") {
			w.violate("C05 missing-EXPUNGEISSUED "+kind, fmt.Sprintf("%s was answered OK without [EXPUNGEISSUED] although %d removal(s) (UIDs %v) are held back for this session", res.Cmd, len(pending), keysU32(pending)), map[string]any{"tagged": res.Tagged.String()})
		}

		return
	}

	// (b) a successful expunge-permitting command announces every applied removal.
	if !res.OK() {
		return
	}

	for _, e := range obs.mir.Entries {
		if e.UID != 0 && pending[e.UID] {
			w.violate("C05 removal-not-announced-by "+kind, fmt.Sprintf("the removal of UID %d was committed and applied to the observer before its %s, which was answered OK without announcing it (mirror after: %v)", e.UID, kind, obs.mir.summary()), nil)
			return
		}
	}
}

func keysU32(m map[uint32]bool) []uint32 {
	var out []uint32
	for k := range m {
		out = append(out, k)
	}

	return out
}

// c05CheckDuplicates: (c) the same message must never be in the mirror twice.
func c05CheckDuplicates(w *world, obs *vsess) bool {
	seen := map[string]int{}

	for i, e := range obs.mir.Entries {
		if e.Marker == "" {
			continue
		}

		if j, dup := seen[e.Marker]; dup {
			w.violate("C05 re-added-before-removal-announced", fmt.Sprintf("the observer has been told about message %q twice (sequence numbers %d and %d): its re-addition was announced before its removal", e.Marker, j+1, i+1), map[string]any{"mirror": obs.mir.summary()})
			return false
		}

		seen[e.Marker] = i
	}

	return true
}

var c05NextKinds = []string{"FETCH", "FETCH-BODY", "UID FETCH", "STORE", "STORE-SILENT", "UID STORE", "SEARCH", "UID SEARCH", "SEARCH-FAILING", "FETCH-FAILING", "NOOP", "CHECK", "EXPUNGE", "MOVE", "STATUS", "APPEND", "IDLE"}

func c05History(r *ev.Run, label string, steps int) {
	rng := r.Rand(label)
	nSess := 2 + rng.Intn(3)

	w, err := newWorld(r, "C05", label, nSess, []string{"INBOX", "Side"}, func(o *srv.Options) { o.IdleBulk = 0 })
	if err != nil {
		r.Inconclusive("%s: %v", label, err)
		return
	}

	defer w.close()

	c05Install(w)
	w.noRefile = false

	obs := w.sess[0]
	if !w.selectBox(obs, "INBOX", false) {
		return
	}

	for _, s := range w.sess[1:] {
		w.selectBox(s, []string{"INBOX", "Side"}[rng.Intn(2)], false)
	}

	r.Eval(1)

	for i := 0; i < steps && !w.isFailed(); i++ {
		// Others act (biased towards removals and re-additions).
		for k := 0; k < 1+rng.Intn(2) && !w.isFailed(); k++ {
			if rng.Intn(4) == 0 {
				w.stepConnector(rng)
			} else {
				w.stepClient(w.sess[1+rng.Intn(len(w.sess)-1)], rng, true)
			}
		}

		if w.isFailed() {
			return
		}

		if !mustQuiesce(r, w.s, 0, label) {
			return
		}

		// Learn UIDs and message identities (a FETCH: announces nothing that is a removal).
		if !w.probe(obs, true) || !c05CheckDuplicates(w, obs) {
			return
		}

		pending, ok := c05Pending(w, obs)
		if !ok {
			return
		}

		kind := c05NextKinds[rng.Intn(len(c05NextKinds))]
		c05Next(w, obs, rng, kind, pending)

		if w.isFailed() {
			return
		}

		if obs.box == "" || obs.dead {
			return
		}
	}

	if !w.isFailed() && r.WantSample() {
		l := w.getLog()
		if len(l) > 40 {
			l = l[:40]
		}

		r.Sample(map[string]any{"case": label, "first_events": l})
	}
}

// ---- table ---------------------------------------------------------------------------------

func c05Table(r *ev.Run) {
	removals := []string{"session-expunge", "session-move-away", "connector-unlabel", "connector-deleted"}
	readds := []string{"none", "move-back", "copy-back", "connector-relabel"}
	afters := []string{"NOOP", "FETCH"}

	nexts := c05NextKinds
	if r.Quick() {
		nexts = []string{"FETCH", "STORE", "UID SEARCH", "SEARCH-FAILING", "NOOP", "CHECK", "EXPUNGE", "MOVE", "STATUS", "APPEND", "IDLE"}
	}

	type scen struct{ rm, ra, next, after string }

	var all []scen

	for _, rm := range removals {
		for _, ra := range readds {
			if rm == "connector-deleted" && ra != "none" {
				continue
			}

			for _, nx := range nexts {
				for _, af := range afters {
					all = append(all, scen{rm, ra, nx, af})
				}
			}
		}
	}

	r.Count("table_scenarios", len(all))

	groups := 8

	ev.Parallel(groups, groups, func(g int) {
		label := fmt.Sprintf("table-%d", g)

		w, err := newWorld(r, "C05", label, 2, []string{"INBOX", "Side"}, func(o *srv.Options) { o.IdleBulk = 0 })
		if err != nil {
			r.Inconclusive("%s: %v", label, err)
			return
		}

		defer w.close()

		c05Install(w)

		rng := r.Rand(label)

		for i := g; i < len(all); i += groups {
			sc := all[i]
			name := fmt.Sprintf("%s/%s/%s/%s", sc.rm, sc.ra, sc.next, sc.after)

			if r.OnlyCase != "" && r.OnlyCase != label+" "+name {
				continue
			}

			if len(w.s.Panics()) > 0 {
				return
			}

			w.mu.Lock()
			w.failed = false
			w.log = nil
			w.label = label + " " + name
			w.mu.Unlock()

			r.Eval(1)
			r.Distinct("table " + name)
			c05Scenario(w, rng, i, sc.rm, sc.ra, sc.next, sc.after)
		}
	})
}

func c05Scenario(w *world, rng *rand.Rand, idx int, removal, readd, next, after string) {
	obs, act := w.sess[0], w.sess[1]
	u := w.s.Users[0]
	box := fmt.Sprintf("T%d", idx)

	if res := w.exec(act, "CREATE "+box); !res.OK() {
		w.r.Inconclusive("%s: CREATE: %s", w.label, res.Text)
		return
	}

	boxID, _ := u.Conn.MailboxID(box)
	sideID, _ := u.Conn.MailboxID("Side")

	// Two bystanders and the target message m (also filed in Side, for copy-back).
	w.exec(act, fmt.Sprintf("APPEND %s ", box), imapc.Lit(simpleMessage(w.marker(), nil)))

	mk := w.marker()
	w.exec(act, fmt.Sprintf("APPEND %s ", box), imapc.Lit(simpleMessage(mk, nil)))
	w.exec(act, fmt.Sprintf("APPEND %s ", box), imapc.Lit(simpleMessage(w.marker(), nil)))

	if !w.selectBox(act, box, false) || !w.selectBox(obs, box, false) {
		return
	}

	if readd == "copy-back" {
		w.exec(act, "COPY 2 Side")
	}

	if !w.probe(obs, true) {
		return
	}

	mi, found := u.Conn.FindMessage(markerHeader + ": " + mk + "\r\n")

	// Removal of m (message 2 of the acting session's view).
	switch removal {
	case "session-expunge":
		w.exec(act, `STORE 2 +FLAGS.SILENT (\Deleted)`)
		w.exec(act, "EXPUNGE")
	case "session-move-away":
		w.exec(act, "MOVE 2 Side")
	case "connector-unlabel":
		if !found {
			return
		}

		ack := u.Conn.Apply(imap.NewMessageMailboxesUpdated(mi.ID, []imap.MailboxID{sideID}, mi.Flags), srv.UpdateTimeout)
		w.logf("connector un-label %s: %v", mk, ack.Err)
	case "connector-deleted":
		if !found {
			return
		}

		ack := u.Conn.Apply(imap.NewMessagesDeleted(mi.ID), srv.UpdateTimeout)
		w.logf("connector deleted %s: %v", mk, ack.Err)
	}

	// Re-addition.
	switch readd {
	case "move-back", "copy-back":
		w.selectBox(act, "Side", false)

		pos := 0

		if v, err := viewOn(act.c, "", false, false); err == nil {
			for i, m := range v.Msgs {
				if m.Marker == mk {
					pos = i + 1
				}
			}
		}

		if pos > 0 {
			verb := "MOVE"
			if readd == "copy-back" {
				verb = "COPY"
			}

			w.exec(act, fmt.Sprintf("%s %d %s", verb, pos, box))
		}

		w.selectBox(act, box, false)
	case "connector-relabel":
		if found {
			ack := u.Conn.Apply(imap.NewMessageMailboxesUpdated(mi.ID, []imap.MailboxID{sideID, boxID}, mi.Flags), srv.UpdateTimeout)
			w.logf("connector re-label %s: %v", mk, ack.Err)
		}
	}

	if w.isFailed() || !mustQuiesce(w.r, w.s, 0, w.label) {
		return
	}

	pending, ok := c05Pending(w, obs)
	if !ok {
		return
	}

	c05Next(w, obs, rng, next, pending)

	if w.isFailed() || obs.box == "" {
		return
	}

	if !w.probe(obs, true) || !c05CheckDuplicates(w, obs) {
		return
	}

	pending, ok = c05Pending(w, obs)
	if !ok {
		return
	}

	c05Next(w, obs, rng, after, pending)

	if w.isFailed() {
		return
	}

	if w.probe(obs, true) {
		c05CheckDuplicates(w, obs)
	}
}

package checks

import (
	"bytes"
	"fmt"
	"os"
	"os/exec"
	"path/filepath"
	"regexp"
	"sort"
	"strings"
	"syscall"
	"time"

	"verifharness/ev"
)

// ChildResult is what the parent learns from a child process.
type ChildResult struct {
	ExitCode   int
	Signal     string
	TimedOut   bool
	Stdout     string
	Stderr     string
	RaceBlocks []string // de-duplicated race reports
	RaceRaw    int
	UserCPU    time.Duration
	SysCPU     time.Duration
	MaxRSSKB   int64
}

// childBinary returns the path of the vcheck binary (race variant when asked).
func childBinary(race bool) string {
	name := "vcheck"
	if race {
		name = "vcheck-race"
	}

	return filepath.Join(ev.Root(), "bin", name)
}

// runChild runs `vcheck child <mode> args...` with a watchdog. stdout/stderr go to files in
// dir (pipes would lose the goroutine dump of a killed child).
func runChild(dir string, race bool, timeout time.Duration, env []string, mode string, args ...string) *ChildResult {
	_ = os.MkdirAll(dir, 0o755)

	outPath := filepath.Join(dir, "child.stdout")
	errPath := filepath.Join(dir, "child.stderr")
	racePrefix := filepath.Join(dir, "race.log")

	outF, _ := os.Create(outPath)
	errF, _ := os.Create(errPath)

	defer outF.Close()
	defer errF.Close()

	cmd := exec.Command(childBinary(race), append([]string{"child", mode}, args...)...)
	cmd.Stdout = outF
	cmd.Stderr = errF
	cmd.Env = append(os.Environ(), env...)
	cmd.Env = append(cmd.Env, "VERIF_ROOT="+ev.Root(), "GOTRACEBACK=all")

	if race {
		cmd.Env = append(cmd.Env, "GORACE=halt_on_error=0 log_path="+racePrefix)
	}

	res := &ChildResult{}

	if err := cmd.Start(); err != nil {
		res.ExitCode = -1
		res.Stderr = "start: " + err.Error()

		return res
	}

	done := make(chan error, 1)

	go func() { done <- cmd.Wait() }()

	select {
	case <-done:
	case <-time.After(timeout):
		res.TimedOut = true
		_ = cmd.Process.Signal(syscall.SIGQUIT) // goroutine dump

		select {
		case <-done:
		case <-time.After(20 * time.Second):
			_ = cmd.Process.Kill()
			<-done
		}
	}

	if ps := cmd.ProcessState; ps != nil {
		res.ExitCode = ps.ExitCode()
		res.UserCPU = ps.UserTime()
		res.SysCPU = ps.SystemTime()

		if ws, ok := ps.Sys().(syscall.WaitStatus); ok && ws.Signaled() {
			res.Signal = ws.Signal().String()
		}

		if ru, ok := ps.SysUsage().(*syscall.Rusage); ok {
			res.MaxRSSKB = ru.Maxrss
		}
	}

	if b, err := os.ReadFile(outPath); err == nil {
		res.Stdout = string(b)
	}

	if b, err := os.ReadFile(errPath); err == nil {
		res.Stderr = string(b)
	}

	if race {
		logs, _ := filepath.Glob(racePrefix + ".*")

		var all []byte
		for _, l := range logs {
			if b, err := os.ReadFile(l); err == nil {
				all = append(all, b...)
			}
		}

		// Race reports may also land on stderr if log_path could not be opened.
		all = append(all, []byte(res.Stderr)...)
		res.RaceBlocks, res.RaceRaw = dedupRaces(string(all))
	}

	return res
}

var (
	raceSplit  = regexp.MustCompile(`(?m)^={18}\n`)
	frameRe    = regexp.MustCompile(`(?m)^\s+(\S+)\(\)\s*$`)
	lineNumRe  = regexp.MustCompile(`:\d+( \+0x[0-9a-f]+)?`)
	hexRe      = regexp.MustCompile(`0x[0-9a-f]+`)
	goroutineN = regexp.MustCompile(`[Gg]oroutine \d+`)
)

// dedupRaces splits a race log into report blocks and de-duplicates them by the pair of
// outermost gluon frames of the two conflicting accesses, then by line-stripped stacks.
func dedupRaces(log string) ([]string, int) {
	parts := raceSplit.Split(log, -1)
	seen := map[string]string{}
	raw := 0

	for _, p := range parts {
		if !strings.Contains(p, "WARNING: DATA RACE") {
			continue
		}

		raw++

		key := raceKey(p)
		if _, ok := seen[key]; !ok {
			seen[key] = strings.TrimSpace(p)
		}
	}

	var keys []string
	for k := range seen {
		keys = append(keys, k)
	}

	sort.Strings(keys)

	var out []string
	for _, k := range keys {
		out = append(out, k+"\n"+seen[k])
	}

	return out, raw
}

// raceKey: innermost gluon function of each of the two accesses.
func raceKey(block string) string {
	sections := regexp.MustCompile(`(?m)^(Read at|Write at|Previous read at|Previous write at|Previous atomic|Atomic)`).Split(block, -1)

	var fns []string

	for _, s := range sections[1:] {
		// stop at "Goroutine ... created at"
		if i := strings.Index(s, "\nGoroutine "); i >= 0 {
			s = s[:i]
		}

		fn := "?"

		for _, m := range frameRe.FindAllStringSubmatch(s, -1) {
			if strings.Contains(m[1], "ProtonMail/gluon") {
				fn = m[1]
				break
			}
		}

		fns = append(fns, fn)
		if len(fns) == 2 {
			break
		}
	}

	sort.Strings(fns)

	return "race " + strings.Join(fns, " <-> ")
}

func normalizeStack(s string) string {
	s = lineNumRe.ReplaceAllString(s, "")
	s = hexRe.ReplaceAllString(s, "0x")
	s = goroutineN.ReplaceAllString(s, "goroutine N")

	return s
}

func tailLines(s string, n int) string {
	lines := strings.Split(strings.TrimRight(s, "\n"), "\n")
	if len(lines) > n {
		lines = lines[len(lines)-n:]
	}

	return strings.Join(lines, "\n")
}

func firstLines(s string, n int) string {
	lines := strings.Split(s, "\n")
	if len(lines) > n {
		lines = lines[:n]
	}

	return strings.Join(lines, "\n")
}

func childFailureSummary(res *ChildResult) string {
	var b bytes.Buffer

	fmt.Fprintf(&b, "exit=%d signal=%q timedOut=%v\n", res.ExitCode, res.Signal, res.TimedOut)

	for _, marker := range []string{"fatal error:", "panic:", "WARNING: DATA RACE"} {
		if i := strings.Index(res.Stderr, marker); i >= 0 {
			fmt.Fprintf(&b, "%s\n", firstLines(res.Stderr[i:], 25))
			break
		}
	}

	return b.String()
}

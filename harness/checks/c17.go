package checks

import (
	"fmt"
	"math/rand"
	"sort"
	"strings"
	"sync"

	"github.com/ProtonMail/gluon/imap"
	"github.com/ProtonMail/gluon/limits"
	"github.com/ProtonMail/gluon/verifhooks"

	"verifharness/ev"
	"verifharness/imapc"
	"verifharness/srv"
)

func init() { register("C17", "exploration", runC17) }

func runC17(r *ev.Run) {
	r.SetRule("servers with small limits (4-8 mailboxes, 2-6 messages per mailbox, highest UID 6-16) run histories of CREATE (depth 1-3, i.e. with implicit parents), RENAME onto deep names (also of INBOX, which creates the target and keeps INBOX), DELETE, APPEND, COPY / MOVE of 1-4 messages, EXPUNGE, and connector MessagesCreated (1-4 messages into 1-2 mailboxes), MessageMailboxesUpdated and MailboxCreated, followed by a concurrent phase (3-8 sessions APPEND / COPY into a nearly full mailbox and CREATE at the mailbox limit at the same time). After every step fresh views and LIST are taken and the monitor checks: mailboxes <= max, messages per mailbox <= max, every UID <= max; an operation answered NO / acknowledged with an error leaves every mailbox (UIDs, UIDNEXT, flags) and the mailbox list unchanged, and - when it was refused because of the limits - the remote's mailboxes as they were before the command; an operation that fits by the counts before it is accepted. distinct = distinct (operation, fits?, outcome) triples")
	r.Assume("the recovery mailbox, which exists from the start and is listed only while it holds something, counts as one mailbox both for the 'fits' rule and for the upper bound (selectable mailboxes in LIST other than it, plus one); COPY/MOVE are only required to be accepted when the destination holds none of the messages yet; the UID maximum is exclusive for the 'fits' rule (gluon's own suite asserts that), inclusive for the upper-bound check")

	hist := r.Pick(250, 2500)

	ev.Parallel(hist, 10, func(i int) {
		label := fmt.Sprintf("hist-%d", i)
		if r.OnlyCase != "" && r.OnlyCase != label {
			return
		}

		c17History(r, label, r.Pick(40, 60))
	})
}

type c17Case struct {
	r       *ev.Run
	label   string
	rng     *rand.Rand
	s       *srv.Server
	c       *imapc.Conn
	maxBox  int
	maxMsg  int
	maxUID  uint32
	log     []string
	fail    bool
	n       int
	snap    map[string]*BoxView
	listing []string
}

func (c *c17Case) logf(f string, a ...any) {
	c.log = append(c.log, fmt.Sprintf(f, a...))
	if len(c.log) > 300 {
		c.log = c.log[len(c.log)-300:]
	}
}

func (c *c17Case) violate(sig, what string) {
	if c.fail {
		return
	}

	c.fail = true
	c.r.Violate(sig, what, c.label, map[string]any{"history": c.log, "max_mailboxes": c.maxBox, "max_messages": c.maxMsg, "max_uid": c.maxUID})
}

// observe takes fresh views of everything and checks the upper bounds.
func (c *c17Case) observe(after string) (map[string]*BoxView, []string, bool) {
	lc, err := c.s.Login("list")
	if err != nil {
		c.r.Inconclusive("%s: %v", c.label, err)
		c.fail = true

		return nil, nil, false
	}

	res := lc.Cmd(`LIST "" "*"`)
	lc.Close()

	var names []string

	for _, u := range res.Untagged {
		if u.Kind != "LIST" || len(u.Items) < 3 {
			continue
		}

		nosel := false

		for _, a := range u.Items[0].List {
			if strings.EqualFold(a.Str, `\Noselect`) {
				nosel = true
			}
		}

		// The recovery mailbox (listed while it holds something, e.g. a message whose APPEND was
		// refused) is the server's own and not what the limits are about.
		if !nosel && u.Items[2].Str != verifhooks.RecoveryMailboxName {
			names = append(names, u.Items[2].Str)
		}
	}

	sort.Strings(names)

	// the recovery mailbox exists from the start (LIST shows it only while it holds something): it is one of
	// the user's mailboxes, and the server's own accounting counts it
	if len(names)+1 > c.maxBox {
		c.violate("C17 too-many-mailboxes after "+after, fmt.Sprintf("after %s there are %d mailboxes: %v and the recovery mailbox; the configured maximum is %d", after, len(names)+1, names, c.maxBox))
		return nil, nil, false
	}

	snap := map[string]*BoxView{}

	for _, n := range names {
		v, err := freshView(c.s, 0, n, false)
		if err != nil {
			c.violate("C17 mailbox-not-viewable", fmt.Sprintf("after %s: %v", after, err))
			return nil, nil, false
		}

		snap[n] = v

		if len(v.Msgs) > c.maxMsg {
			c.violate("C17 too-many-messages after "+after, fmt.Sprintf("after %s mailbox %q holds %d messages; the configured maximum is %d", after, n, len(v.Msgs), c.maxMsg))
			return nil, nil, false
		}

		for _, m := range v.Msgs {
			if m.UID > c.maxUID {
				c.violate("C17 uid-above-maximum after "+after, fmt.Sprintf("after %s message %s in %q has UID %d; the configured maximum is %d", after, m.Marker, n, m.UID, c.maxUID))
				return nil, nil, false
			}
		}
	}

	return snap, names, true
}

func c17Same(a, b map[string]*BoxView) string {
	for n, va := range a {
		vb := b[n]
		if vb == nil {
			return fmt.Sprintf("mailbox %q disappeared", n)
		}

		if va.UIDNext != vb.UIDNext || va.UIDValidity != vb.UIDValidity || len(va.Msgs) != len(vb.Msgs) {
			return fmt.Sprintf("mailbox %q went from %d messages / UIDNEXT %d to %d messages / UIDNEXT %d", n, len(va.Msgs), va.UIDNext, len(vb.Msgs), vb.UIDNext)
		}

		for i := range va.Msgs {
			if va.Msgs[i].UID != vb.Msgs[i].UID || va.Msgs[i].Marker != vb.Msgs[i].Marker || va.Msgs[i].FlagKey() != vb.Msgs[i].FlagKey() {
				return fmt.Sprintf("message %d of %q changed (UID %d %s (%s) -> UID %d %s (%s))", i+1, n, va.Msgs[i].UID, va.Msgs[i].Marker, va.Msgs[i].FlagKey(), vb.Msgs[i].UID, vb.Msgs[i].Marker, vb.Msgs[i].FlagKey())
			}
		}
	}

	for n := range b {
		if a[n] == nil {
			return fmt.Sprintf("mailbox %q appeared", n)
		}
	}

	return ""
}

// judge applies the refusal / acceptance rules and stores the new observation.
func (c *c17Case) judge(op string, accepted bool, fits, judgeFits bool) bool {
	after, names, ok := c.observe(op)
	if !ok {
		return false
	}

	c.r.Distinct(fmt.Sprintf("%s fits=%v(judged=%v) accepted=%v", strings.Fields(op)[0]+" "+opKind(op), fits, judgeFits, accepted))

	if !accepted {
		if d := c17Same(c.snap, after); d != "" {
			c.violate("C17 refused-operation-had-effect "+strings.Fields(op)[0], fmt.Sprintf("%s was refused, yet %s", op, d))
			return false
		}

		if fmt.Sprint(names) != fmt.Sprint(c.listing) {
			c.violate("C17 refused-operation-had-effect "+strings.Fields(op)[0], fmt.Sprintf("%s was refused, yet the mailbox list went from %v to %v", op, c.listing, names))
			return false
		}

		if fits && judgeFits {
			c.violate("C17 refused-although-it-fits "+strings.Fields(op)[0], fmt.Sprintf("%s was refused although it fits the limits (mailboxes %v of max %d; max %d messages, max UID %d)", op, c.listing, c.maxBox, c.maxMsg, c.maxUID))
			return false
		}
	}

	c.snap, c.listing = after, names

	return true
}

// remoteAfterRefusal records whether the remote had been told something by a command the server then refused.
// refusedByLimits tells a refusal because of the limits (in the server's own words) from one for another reason,
// e.g. a RENAME blocked by an inferior whose new name exists already.
func refusedByLimits(res *imapc.Result) bool {
	for _, e := range []error{limits.ErrMaxMailboxCountReached, limits.ErrMaxMailboxMessageCountReached, limits.ErrMaxUIDReached, limits.ErrMaxUIDValidityReached} {
		if strings.Contains(res.Text, e.Error()) {
			return true
		}
	}

	return false
}

// A command refused because of the limits must not have changed the user's mailboxes on the remote either: what the remote was told
// comes back as updates (or simply stays there) although the client was answered NO.
func (c *c17Case) remoteAfterRefusal(op string, changed bool, detail ...string) {
	c.r.Count(fmt.Sprintf("refused %s: remote changed=%v", op, changed), 1)

	if !changed {
		return
	}

	sig := "C17 refused-operation-changed-the-remote " + op
	what := fmt.Sprintf("%s %s was refused because of the limits, but the remote had already been told to carry it out (its mailboxes differ from before the command)", op, strings.Join(detail, " "))

	if c.r.IsKnown(sig) {
		// recorded finding: report it and carry on (the harness puts the remote back)
		c.r.Violate(sig, what, c.label, map[string]any{"history": c.log})
		return
	}

	c.violate(sig, what)
}

func opKind(op string) string {
	f := strings.Fields(op)
	if len(f) > 1 && (f[0] == "connector" || f[0] == "UID") {
		return f[1]
	}

	return ""
}

func (c *c17Case) boxNames() []string {
	return append([]string{}, c.listing...)
}

func (c *c17Case) fitsMsgs(box string, n int) bool {
	v := c.snap[box]
	if v == nil {
		return false
	}

	// gluon treats the UID maximum as exclusive (its own suite asserts that with maximum 2 the UID 2
	// is refused), so "fits" is judged one below the bound the invariant is checked against
	return len(v.Msgs)+n <= c.maxMsg && uint64(v.UIDNext)+uint64(n) <= uint64(c.maxUID)
}

func c17History(r *ev.Run, label string, steps int) {
	rng := r.Rand(label)
	c := &c17Case{r: r, label: label, rng: rng}
	c.maxBox = 4 + rng.Intn(5)
	c.maxMsg = 2 + rng.Intn(5)
	c.maxUID = uint32(c.maxMsg + 4 + rng.Intn(7))

	lim := limits.NewIMAPLimits(uint32(c.maxBox), uint32(c.maxMsg), imap.UID(c.maxUID), imap.UID(1<<31))

	s, err := startServer(r, label, func(o *srv.Options) { o.Limits = &lim })
	if err != nil {
		r.Inconclusive("%s: %v", label, err)
		return
	}

	c.s = s

	defer func() {
		if c.c != nil {
			c.c.Close()
		}

		finishServer(r, s, label, func() []string { return c.log })
	}()

	if c.c, err = s.Login("actor"); err != nil {
		r.Inconclusive("%s: %v", label, err)
		return
	}

	conn := s.Users[0].Conn
	c.logf("limits: %d mailboxes, %d messages per mailbox, UID <= %d", c.maxBox, c.maxMsg, c.maxUID)

	var ok bool

	if c.snap, c.listing, ok = c.observe("start"); !ok {
		return
	}

	r.Eval(1)

	comps := []string{"a", "b", "c", "d"}

	randName := func() string {
		d := 1 + rng.Intn(3)
		p := make([]string, d)

		for i := range p {
			p[i] = comps[rng.Intn(len(comps))]
		}

		return strings.Join(p, "/")
	}

	missing := func(name string) (int, bool) {
		have := map[string]bool{}
		for _, n := range c.listing {
			have[n] = true
		}

		if have[name] {
			return 0, false
		}

		parts := strings.Split(name, "/")
		miss := 1

		for i := 1; i < len(parts); i++ {
			if !have[strings.Join(parts[:i], "/")] {
				miss++
			}
		}

		return miss, true
	}

	for step := 0; step < steps && !c.fail; step++ {
		boxes := c.boxNames()
		box := boxes[rng.Intn(len(boxes))]

		switch k := rng.Intn(100); {
		case k < 14: // CREATE
			name := randName()
			miss, fresh := missing(name)

			if !fresh {
				continue
			}

			fits := len(c.listing)+1+miss <= c.maxBox // +1: the hidden recovery mailbox
			remoteBefore := conn.SnapshotMailboxes()
			res := c.c.Cmdf("CREATE %s", imapc.Quote(name))
			c.logf("CREATE %s (creates %d) -> %s %s", name, miss, res.Status, res.Text)

			if !res.OK() {
				c.remoteAfterRefusal("CREATE", refusedByLimits(res) && fmt.Sprint(remoteBefore) != fmt.Sprint(conn.SnapshotMailboxes()))
				conn.RestoreMailboxes(remoteBefore) // the remote may have been told before the refusal
			}

			if !c.judge("CREATE "+name, res.OK(), fits, true) {
				return
			}
		case k < 20: // DELETE
			if box == "INBOX" {
				continue
			}

			res := c.c.Cmdf("DELETE %s", imapc.Quote(box))
			c.logf("DELETE %s -> %s", box, res.Status)

			if !c.judge("DELETE "+box, res.OK(), true, false) {
				return
			}
		case k < 26: // RENAME onto a deep name; RENAME INBOX creates the new mailbox and keeps INBOX
			if rng.Intn(4) == 0 {
				box = "INBOX"
			}

			name := randName()
			miss, fresh := missing(name)

			if !fresh || strings.HasPrefix(name, box+"/") {
				continue
			}

			// the renamed mailbox itself is not new - unless it is INBOX, which stays
			fits := len(c.listing)+1+miss-1 <= c.maxBox
			if box == "INBOX" {
				fits = len(c.listing)+1+miss <= c.maxBox
			}

			// inferiors that would collide make the rename fail for another reason
			remoteBefore := conn.SnapshotMailboxes()
			res := c.c.Cmdf("RENAME %s %s", imapc.Quote(box), imapc.Quote(name))
			c.logf("RENAME %s %s (creates %d parents) -> %s %s", box, name, miss-1, res.Status, res.Text)

			if !res.OK() {
				c.remoteAfterRefusal("RENAME", refusedByLimits(res) && fmt.Sprint(remoteBefore) != fmt.Sprint(conn.SnapshotMailboxes()), fmt.Sprintf("(RENAME %s %s: %s %s)", box, name, res.Status, res.Text))
				conn.RestoreMailboxes(remoteBefore)
			}

			if !c.judge("RENAME "+box+" "+name, res.OK(), fits, false) {
				return
			}
		case k < 48: // APPEND
			c.n++
			mk := fmt.Sprintf("%s-m%d", label, c.n)
			fits := c.fitsMsgs(box, 1)
			remoteBefore := conn.SnapshotAll()
			res := c.c.Cmd(fmt.Sprintf("APPEND %s ", imapc.Quote(box)), imapc.Lit(simpleMessage(mk, rng)))
			c.logf("APPEND %s %s -> %s %s", box, mk, res.Status, res.Text)

			if !res.OK() {
				c.remoteAfterRefusal("APPEND", refusedByLimits(res) && remoteBefore.Summary() != conn.SnapshotAll().Summary())
				conn.RestoreAll(remoteBefore)
			}

			if !c.judge("APPEND "+box, res.OK(), fits, true) {
				return
			}
		case k < 70: // COPY / MOVE
			src := c.snap[box]
			if src == nil || len(src.Msgs) == 0 {
				continue
			}

			dst := boxes[rng.Intn(len(boxes))]
			n := len(src.Msgs)
			a := 1 + rng.Intn(n)
			b := a + rng.Intn(n-a+1)

			if b-a > 3 {
				b = a + 3
			}

			verb := []string{"COPY", "MOVE", "UID COPY", "UID MOVE"}[rng.Intn(4)]
			set := fmt.Sprintf("%d:%d", a, b)

			if strings.HasPrefix(verb, "UID") {
				set = fmt.Sprintf("%d:%d", src.Msgs[a-1].UID, src.Msgs[b-1].UID)
			}

			// judged only when the destination holds none of the messages
			held := map[string]bool{}
			if dv := c.snap[dst]; dv != nil {
				for _, m := range dv.Msgs {
					held[m.Marker] = true
				}
			}

			clean := dst != box

			for _, m := range src.Msgs[a-1 : b] {
				if held[m.Marker] {
					clean = false
				}
			}

			fits := c.fitsMsgs(dst, b-a+1)

			if sel := c.c.Cmdf("SELECT %s", imapc.Quote(box)); !sel.OK() {
				continue
			}

			remoteBefore := conn.SnapshotAll()
			res := c.c.Cmdf("%s %s %s", verb, set, imapc.Quote(dst))
			c.c.Cmd("UNSELECT")

			if !res.OK() {
				// gluon tells the remote before its own limit check refuses the command
				c.remoteAfterRefusal(strings.TrimPrefix(verb, "UID "), refusedByLimits(res) && remoteBefore.Summary() != conn.SnapshotAll().Summary(), fmt.Sprintf("(%s %s from %s to %s: %s %s)", verb, set, box, dst, res.Status, res.Text))
				conn.RestoreAll(remoteBefore)
			}
			c.logf("[%s] %s %s %s -> %s %s", box, verb, set, dst, res.Status, res.Text)

			if !c.judge(verb+" "+set+" "+dst, res.OK(), fits, clean) {
				return
			}
		case k < 78: // EXPUNGE something
			src := c.snap[box]
			if src == nil || len(src.Msgs) == 0 {
				continue
			}

			c.c.Cmdf("SELECT %s", imapc.Quote(box))
			c.c.Cmdf(`STORE %d +FLAGS.SILENT (\Deleted)`, 1+rng.Intn(len(src.Msgs)))

			// half of the time the message stays, flagged \Deleted: it still counts
			res := &imapc.Result{Status: "skipped"}
			if rng.Intn(2) == 0 {
				res = c.c.Cmd("EXPUNGE")
			}

			c.c.Cmd("UNSELECT")
			c.logf("[%s] flag \\Deleted, expunge -> %s", box, res.Status)

			if !c.judge("EXPUNGE "+box, true, true, false) {
				return
			}
		case k < 92: // connector MessagesCreated
			nMsg := 1 + rng.Intn(4)
			targets := []string{box}

			if rng.Intn(2) == 0 {
				if o := boxes[rng.Intn(len(boxes))]; o != box {
					targets = append(targets, o)
				}
			}

			var (
				ids     []imap.MailboxID
				created []*imap.MessageCreated
			)

			okIDs := true

			for _, t := range targets {
				id, ok := conn.MailboxID(strings.Split(t, "/")...)
				if !ok {
					okIDs = false
				}

				ids = append(ids, id)
			}

			if !okIDs {
				continue
			}

			for i := 0; i < nMsg; i++ {
				c.n++

				mc, err := conn.RemoteAddMessage(simpleMessage(fmt.Sprintf("%s-m%d", label, c.n), rng), imap.NewFlagSet(), c06Date, ids...)
				if err != nil {
					continue
				}

				created = append(created, mc)
			}

			fits := true
			for _, t := range targets {
				fits = fits && c.fitsMsgs(t, len(created))
			}

			ack := conn.Apply(imap.NewMessagesCreated(false, created...), srv.UpdateTimeout)
			c.logf("connector MessagesCreated x%d into %v -> acked=%v err=%v", len(created), targets, ack.Acked, ack.Err)

			if !ack.Acked {
				r.Inconclusive("%s: update not acknowledged", label)
				c.fail = true

				return
			}

			if !mustQuiesce(r, s, 0, label) {
				return
			}

			if !c.judge(fmt.Sprintf("connector MessagesCreated x%d into %v", len(created), targets), ack.Err == nil, fits, true) {
				return
			}
		case k < 96: // connector MessageMailboxesUpdated: one more mailbox for a message
			src := c.snap[box]
			if src == nil || len(src.Msgs) == 0 {
				continue
			}

			mk := src.Msgs[rng.Intn(len(src.Msgs))].Marker

			mi, ok := conn.FindMessage(markerHeader + ": " + mk + "\r\n")
			if !ok {
				continue
			}

			dst := boxes[rng.Intn(len(boxes))]

			did, ok := conn.MailboxID(strings.Split(dst, "/")...)
			if !ok {
				continue
			}

			already := false

			for _, id := range mi.Mailboxes {
				if id == did {
					already = true
				}
			}

			if already {
				continue
			}

			target := append(append([]imap.MailboxID{}, mi.Mailboxes...), did)
			fits := c.fitsMsgs(dst, 1)
			ack := conn.Apply(imap.NewMessageMailboxesUpdated(mi.ID, target, mi.Flags), srv.UpdateTimeout)
			c.logf("connector MessageMailboxesUpdated %s + %s -> acked=%v err=%v (remote: message in %v, target %v, remote mailboxes %v)", mk, dst, ack.Acked, ack.Err, mi.Mailboxes, target, conn.MailboxNames())

			if !ack.Acked {
				r.Inconclusive("%s: update not acknowledged", label)
				c.fail = true

				return
			}

			if ack.Err == nil {
				conn.RemoteSetMailboxes(mi.ID, target)
			}

			if !mustQuiesce(r, s, 0, label) {
				return
			}

			if !c.judge("connector MessageMailboxesUpdated + "+dst, ack.Err == nil, fits, true) {
				return
			}
		default: // connector MailboxCreated
			c.n++
			name := fmt.Sprintf("remote%d", c.n)
			fits := len(c.listing)+1+1 <= c.maxBox
			id := conn.NewMailboxID()
			ack := conn.Apply(imap.NewMailboxCreated(conn.RemoteMailbox(id, []string{name})), srv.UpdateTimeout)
			c.logf("connector MailboxCreated %s -> acked=%v err=%v", name, ack.Acked, ack.Err)

			if !ack.Acked {
				r.Inconclusive("%s: update not acknowledged", label)
				c.fail = true

				return
			}

			if ack.Err != nil {
				conn.RemoteDeleteMailbox(id)
			}

			if !c.judge("connector MailboxCreated "+name, ack.Err == nil, fits, true) {
				return
			}
		}
	}

	if c.fail {
		return
	}

	// ---- concurrent phase: several sessions push against the same limit at once ----
	workers := 3 + rng.Intn(6)

	var sess []*imapc.Conn

	for i := 0; i < workers; i++ {
		cn, err := s.Login(fmt.Sprintf("w%d", i))
		if err != nil {
			break
		}

		sess = append(sess, cn)
	}

	defer func() {
		for _, cn := range sess {
			cn.Close()
		}
	}()

	// the fullest mailbox that still has room
	target := ""

	for _, n := range c.listing {
		v := c.snap[n]
		if v != nil && len(v.Msgs) < c.maxMsg && (target == "" || len(v.Msgs) > len(c.snap[target].Msgs)) {
			target = n
		}
	}

	if target == "" || len(sess) < 2 {
		return
	}

	var srcBox string

	for _, n := range c.listing {
		if v := c.snap[n]; v != nil && len(v.Msgs) > 0 && n != target {
			srcBox = n
		}
	}

	var (
		wg      sync.WaitGroup
		mu      sync.Mutex
		okCount int
	)

	start := make(chan struct{})

	for i, cn := range sess {
		wg.Add(1)

		go func(i int, cn *imapc.Conn) {
			defer wg.Done()

			wrng := r.Rand(label, "worker", i)
			mk := fmt.Sprintf("%s-w%d", label, i)
			mode := wrng.Intn(3)

			if mode == 1 && srcBox != "" {
				cn.Cmdf("SELECT %s", imapc.Quote(srcBox))
			}

			<-start

			var res *imapc.Result

			switch {
			case mode == 1 && srcBox != "":
				res = cn.Cmdf("COPY 1 %s", imapc.Quote(target))
			case mode == 2:
				res = cn.Cmdf("CREATE conc%d/x/y", i)
			default:
				res = cn.Cmd(fmt.Sprintf("APPEND %s ", imapc.Quote(target)), imapc.Lit(simpleMessage(mk, wrng)))
			}

			mu.Lock()
			if res.OK() {
				okCount++
			}
			mu.Unlock()
		}(i, cn)
	}

	close(start)
	wg.Wait()

	c.logf("concurrent phase: %d sessions against %q (%d of %d messages) and the mailbox limit: %d accepted", len(sess), target, len(c.snap[target].Msgs), c.maxMsg, okCount)
	r.Distinct(fmt.Sprintf("concurrent workers=%d", len(sess)))
	r.Count("concurrent_phases", 1)

	if !mustQuiesce(r, s, 0, label) {
		return
	}

	c.observe(fmt.Sprintf("%d concurrent APPEND/COPY/CREATE", len(sess)))

	if !c.fail && r.WantSample() {
		l := c.log
		if len(l) > 40 {
			l = l[:40]
		}

		r.Sample(map[string]any{"case": label, "first_events": l})
	}
}

package checks

import (
	"fmt"
	"hash/crc32"
	"sort"
	"strings"
	"sync"
	"sync/atomic"
	"time"

	"github.com/ProtonMail/gluon/verifhooks/fp"

	"verifharness/ev"
	"verifharness/imapc"
	"verifharness/srv"
)

func init() { register("C01", "exploration", runC01) }

func runC01(r *ev.Run) {
	r.SetRule("2-6 sessions of one user on 1-2 shared mailboxes plus connector updates; every untagged EXISTS/EXPUNGE/FETCH of every command feeds a client-side mirror; at PRNG-chosen points between two commands a session is probed with UID FETCH 1:* (UID FLAGS) and the rows must agree with what the mirror already knows (count, dense sequence numbers, ascending UIDs, learned UIDs and flag sets). Sequential mode: one global PRNG schedule; concurrent mode: one goroutine per session plus a connector goroutine, with failpoint delays between commit and update broadcast. Plus a table of all 3-step windows over {flag change on message 1-4, removal of message 1-4, arrival} performed by another session between two commands of an observer and delivered in one flush (NOOP, IDLE, CHECK, FETCH then NOOP). distinct = distinct command-kind bigrams per session, distinct cross-session interleaving signatures and distinct (window, flush) pairs")
	r.Assume("after its own STORE ... .SILENT the flag sets of the targeted messages count as unknown until the next FETCH (the property is about what is learned from untagged responses)",
		"sequential histories wait for the quiescence barrier after every command; concurrent histories cannot exclude the listed late-arrival renumbering, so there only counts, density, UID order and range rules are judged and position/flag disagreements are counted",
		"a probe is a FETCH and can therefore never cause an EXPUNGE; what the probe's own flush announces is applied after the comparison")

	seqN := r.Pick(40, 1500)
	conN := r.Pick(10, 300)

	ev.Parallel(seqN, 10, func(i int) {
		label := fmt.Sprintf("seq-%d", i)
		if r.OnlyCase != "" && r.OnlyCase != label {
			return
		}

		c01Sequential(r, label, r.Pick(80, 100))
	})

	// Concurrent histories use process-global failpoints: one at a time.
	for i := 0; i < conN; i++ {
		label := fmt.Sprintf("conc-%d", i)
		if r.OnlyCase != "" && r.OnlyCase != label {
			continue
		}

		c01Concurrent(r, label, r.Pick(40, 60))
	}

	c01Window(r)

	r.Set("failpoint_hits", fp.AllHits())
}

func c01Options(w **world) func(o *srv.Options) {
	return func(o *srv.Options) {}
}

func c01Sequential(r *ev.Run, label string, steps int) {
	rng := r.Rand(label)
	nSess := 2 + rng.Intn(5)
	boxes := []string{"INBOX", "Other"}[:1+rng.Intn(2)]
	idleBulk := []time.Duration{0, 0, 20 * time.Millisecond}[rng.Intn(3)]

	w, err := newWorld(r, "C01", label, nSess, boxes, func(o *srv.Options) { o.IdleBulk = idleBulk })
	if err != nil {
		r.Inconclusive("%s: %v", label, err)
		return
	}

	defer w.close()

	for _, s := range w.sess {
		w.selectBox(s, boxes[rng.Intn(len(boxes))], false)
	}

	r.Eval(1)

	last := map[string]string{}

	for i := 0; i < steps && !w.isFailed(); i++ {
		if rng.Intn(7) == 0 {
			k := w.stepConnector(rng)
			if k != "" {
				r.Distinct("connector " + k)
			}
		} else {
			s := w.sess[rng.Intn(len(w.sess))]
			k := w.stepClient(s, rng, true)

			if k != "" {
				r.Distinct(fmt.Sprintf("bigram %s>%s", last[s.name], k))
				last[s.name] = k
			}
		}

		if w.isFailed() {
			return
		}

		// Let every session apply what the step queued to it before the next command is issued:
		// commands are then strictly sequential, which excludes the known late-arrival renumbering
		// (listed finding) and makes the mirror's positions exact. What varies is where each
		// session's own flushes fall.
		if err := w.s.Quiesce(0, 20*time.Second); err != nil {
			r.Inconclusive("%s: barrier: %v", label, err)
			return
		}

		if rng.Intn(2) == 0 {
			s := w.sess[rng.Intn(len(w.sess))]
			if !w.probe(s, false) {
				return
			}
		}
	}

	// Final probe of everyone after the barrier and a NOOP.
	_ = w.s.Quiesce(0, 10*time.Second)

	for _, s := range w.sess {
		if s.idle != nil {
			w.stepClient(s, rng, false)
		}

		if s.box != "" && !s.dead && !w.isFailed() {
			w.exec(s, "NOOP")
			w.probe(s, false)
		}
	}

	if !w.isFailed() && r.WantSample() {
		l := w.getLog()
		if len(l) > 45 {
			l = l[:45]
		}

		r.Sample(map[string]any{"case": label, "mode": "sequential", "sessions": nSess, "mailboxes": boxes, "first_events": l})
	}
}

func c01Concurrent(r *ev.Run, label string, stepsPer int) {
	rng := r.Rand(label)
	nSess := 2 + rng.Intn(5)
	boxes := []string{"INBOX", "Other"}[:1+rng.Intn(2)]

	w, err := newWorld(r, "C01", label, nSess, boxes, func(o *srv.Options) { o.IdleBulk = 0 })
	if err != nil {
		r.Inconclusive("%s: %v", label, err)
		return
	}

	defer w.close()

	w.lenientPositions = true

	// Widen the window between a commit and the broadcast of its updates, and before a session
	// applies a queued update - at existing suspension points, never inside a lock.
	var fpN atomic.Int64

	delay := func(string) error {
		if n := fpN.Add(1); n%3 == 0 {
			time.Sleep(time.Duration(200+(n%7)*150) * time.Microsecond)
		}

		return nil
	}

	fp.Set("state.afterCommit", delay)
	fp.Set("user.afterCommit", delay)
	fp.Set("session.beforeApplyUpdate", delay)

	defer func() {
		fp.Set("state.afterCommit", nil)
		fp.Set("user.afterCommit", nil)
		fp.Set("session.beforeApplyUpdate", nil)
	}()

	for _, s := range w.sess {
		w.selectBox(s, boxes[rng.Intn(len(boxes))], false)
	}

	r.Eval(1)

	var (
		wg    sync.WaitGroup
		order []string
		omu   sync.Mutex
	)

	note := func(who, what string) {
		omu.Lock()
		order = append(order, who+":"+what)
		omu.Unlock()
	}

	for _, s := range w.sess {
		wg.Add(1)

		go func(s *vsess) {
			defer wg.Done()

			for i := 0; i < stepsPer && !w.isFailed() && !s.dead; i++ {
				k := w.stepClient(s, s.rng, true)
				note(s.name, k)

				if !w.isFailed() {
					w.probe(s, false)
				}
			}

			if s.idle != nil && !w.isFailed() {
				w.stepClient(s, s.rng, false)
			}
		}(s)
	}

	wg.Add(1)

	go func() {
		defer wg.Done()

		crng := r.Rand(label, "connector")

		for i := 0; i < stepsPer/3 && !w.isFailed(); i++ {
			note("conn", w.stepConnector(crng))
			time.Sleep(time.Duration(crng.Intn(800)) * time.Microsecond)
		}
	}()

	wg.Wait()

	if w.isFailed() {
		return
	}

	_ = w.s.Quiesce(0, 10*time.Second)

	for _, s := range w.sess {
		if s.box != "" && !s.dead && !w.isFailed() {
			w.exec(s, "NOOP")
			w.probe(s, false)
		}
	}

	r.Distinct(fmt.Sprintf("interleaving %08x", crc32.ChecksumIEEE([]byte(strings.Join(order, ",")))))
	r.Count("concurrent_commands", len(order))

	if !w.isFailed() && r.WantSample() && len(order) > 20 {
		r.Sample(map[string]any{"case": label, "mode": "concurrent", "sessions": nSess, "completion_order_prefix": order[:20]})
	}
}

// c01Window: several changes by another session pile up for an observer between two of its commands and are
// delivered in one flush: a flag change on message i, the removal of message j, a flag change on what is then
// message k, an arrival ... in every order. What the observer is told must replay, in the order it is told, into
// exactly the view the server then reports to it.
func c01Window(r *ev.Run) {
	type op struct {
		kind string // F (flag change), X (expunge), A (append)
		pos  int
	}

	var alphabet []op
	for i := 1; i <= 4; i++ {
		alphabet = append(alphabet, op{"F", i}, op{"X", i})
	}

	alphabet = append(alphabet, op{"A", 0})

	var seqs [][]op

	for _, a := range alphabet {
		for _, b := range alphabet {
			for _, c := range alphabet {
				seqs = append(seqs, []op{a, b, c})
			}
		}
	}

	// flag change / removal / flag change comes first (always part of the quick tier), the rest in PRNG order
	rng := r.Rand("c01-window")
	rng.Shuffle(len(seqs), func(i, j int) { seqs[i], seqs[j] = seqs[j], seqs[i] })

	sort.SliceStable(seqs, func(i, j int) bool {
		fxf := func(q []op) bool { return q[0].kind == "F" && q[1].kind == "X" && q[2].kind == "F" }
		return fxf(seqs[i]) && !fxf(seqs[j])
	})

	n := r.Pick(160, len(seqs))
	if n > len(seqs) {
		n = len(seqs)
	}

	flushes := []string{"NOOP", "IDLE", "CHECK", "FETCH"}

	ev.Parallel(n, 10, func(i int) {
		seq := seqs[i]

		label := fmt.Sprintf("window-%d", i)
		if r.OnlyCase != "" && r.OnlyCase != label {
			return
		}

		crng := r.Rand(label)
		flush := flushes[crng.Intn(len(flushes))]

		w, err := newWorld(r, "C01", label, 2, []string{"INBOX"}, func(o *srv.Options) { o.IdleBulk = []time.Duration{0, 30 * time.Millisecond}[crng.Intn(2)] })
		if err != nil {
			r.Inconclusive("%s: %v", label, err)
			return
		}

		defer w.close()

		obs, act := w.sess[0], w.sess[1]

		for k := 0; k < 4; k++ {
			w.exec(act, fmt.Sprintf("APPEND INBOX (%s) ", []string{``, `\Seen`, `\Answered`, `\Draft`}[k]), imapc.Lit(simpleMessage(w.marker(), nil)))
		}

		if !w.selectBox(obs, "INBOX", false) || !w.selectBox(act, "INBOX", false) || !w.probe(obs, false) {
			return
		}

		var desc []string

		nFlag := 0

		for _, o := range seq {
			count := len(act.mir.Entries)

			switch o.kind {
			case "F":
				if o.pos > count {
					continue
				}

				// every flag change really changes something: a keyword that is new for this step
				nFlag++
				w.exec(act, fmt.Sprintf("STORE %d %s (kw%d%s)", o.pos, []string{"+FLAGS", "+FLAGS", "FLAGS"}[crng.Intn(3)], nFlag, []string{"", ` \Flagged`}[crng.Intn(2)]))
			case "X":
				if o.pos > count {
					continue
				}

				w.exec(act, fmt.Sprintf(`STORE %d +FLAGS.SILENT (\Deleted)`, o.pos))
				applySilentStore(&act.mir, []int{o.pos - 1}, "", nil)
				w.exec(act, "EXPUNGE")
			default:
				w.exec(act, "APPEND INBOX (\\Flagged) ", imapc.Lit(simpleMessage(w.marker(), nil)))
			}

			desc = append(desc, fmt.Sprintf("%s%d", o.kind, o.pos))
		}

		if w.isFailed() || !mustQuiesce(r, w.s, 0, label) {
			return
		}

		r.Eval(1)
		r.Distinct(fmt.Sprintf("window %s flushed by %s", strings.Join(desc, " "), flush))

		switch flush {
		case "IDLE":
			ir := obs.c.IdleStart()
			if ir.Err == nil && ir.Status == "" {
				time.Sleep(time.Duration(crng.Intn(60)) * time.Millisecond)
				ir = obs.c.IdleDone(ir)
			}

			w.absorb(obs, "IDLE", ir)
		case "FETCH":
			// a FETCH delivers the flag changes and holds the removals back; the NOOP after it delivers those
			w.exec(obs, "FETCH 1:* (FLAGS)")
			w.exec(obs, "NOOP")
		default:
			w.exec(obs, flush)
		}

		if w.isFailed() {
			return
		}

		w.probe(obs, false)
	})
}

package checks

import (
	"fmt"
	"hash/crc32"
	"strings"
	"sync"
	"sync/atomic"
	"time"

	"github.com/ProtonMail/gluon/verifhooks/fp"

	"verifharness/ev"
	"verifharness/srv"
)

func init() { register("C01", "exploration", runC01) }

func runC01(r *ev.Run) {
	r.SetRule("2-6 sessions of one user on 1-2 shared mailboxes plus connector updates; every untagged EXISTS/EXPUNGE/FETCH of every command feeds a client-side mirror; at PRNG-chosen points between two commands a session is probed with UID FETCH 1:* (UID FLAGS) and the rows must agree with what the mirror already knows (count, dense sequence numbers, ascending UIDs, learned UIDs and flag sets). Sequential mode: one global PRNG schedule; concurrent mode: one goroutine per session plus a connector goroutine, with failpoint delays between commit and update broadcast. distinct = distinct command-kind bigrams per session plus distinct cross-session interleaving signatures")
	r.Assume("after its own STORE ... .SILENT the flag sets of the targeted messages count as unknown until the next FETCH (the property is about what is learned from untagged responses)",
		"sequential histories wait for the quiescence barrier after every command; concurrent histories cannot exclude the listed late-arrival renumbering, so there only counts, density, UID order and range rules are judged and position/flag disagreements are counted",
		"a probe is a FETCH and can therefore never cause an EXPUNGE; what the probe's own flush announces is applied after the comparison")

	seqN := r.Pick(40, 1500)
	conN := r.Pick(10, 300)

	ev.Parallel(seqN, 10, func(i int) {
		label := fmt.Sprintf("seq-%d", i)
		if r.OnlyCase != "" && r.OnlyCase != label {
			return
		}

		c01Sequential(r, label, r.Pick(80, 100))
	})

	// Concurrent histories use process-global failpoints: one at a time.
	for i := 0; i < conN; i++ {
		label := fmt.Sprintf("conc-%d", i)
		if r.OnlyCase != "" && r.OnlyCase != label {
			continue
		}

		c01Concurrent(r, label, r.Pick(40, 60))
	}

	r.Set("failpoint_hits", fp.AllHits())
}

func c01Options(w **world) func(o *srv.Options) {
	return func(o *srv.Options) {}
}

func c01Sequential(r *ev.Run, label string, steps int) {
	rng := r.Rand(label)
	nSess := 2 + rng.Intn(5)
	boxes := []string{"INBOX", "Other"}[:1+rng.Intn(2)]
	idleBulk := []time.Duration{0, 0, 20 * time.Millisecond}[rng.Intn(3)]

	w, err := newWorld(r, "C01", label, nSess, boxes, func(o *srv.Options) { o.IdleBulk = idleBulk })
	if err != nil {
		r.Inconclusive("%s: %v", label, err)
		return
	}

	defer w.close()

	for _, s := range w.sess {
		w.selectBox(s, boxes[rng.Intn(len(boxes))], false)
	}

	r.Eval(1)

	last := map[string]string{}

	for i := 0; i < steps && !w.isFailed(); i++ {
		if rng.Intn(7) == 0 {
			k := w.stepConnector(rng)
			if k != "" {
				r.Distinct("connector " + k)
			}
		} else {
			s := w.sess[rng.Intn(len(w.sess))]
			k := w.stepClient(s, rng, true)

			if k != "" {
				r.Distinct(fmt.Sprintf("bigram %s>%s", last[s.name], k))
				last[s.name] = k
			}
		}

		if w.isFailed() {
			return
		}

		// Let every session apply what the step queued to it before the next command is issued:
		// commands are then strictly sequential, which excludes the known late-arrival renumbering
		// (listed finding) and makes the mirror's positions exact. What varies is where each
		// session's own flushes fall.
		if err := w.s.Quiesce(0, 20*time.Second); err != nil {
			r.Inconclusive("%s: barrier: %v", label, err)
			return
		}

		if rng.Intn(2) == 0 {
			s := w.sess[rng.Intn(len(w.sess))]
			if !w.probe(s, false) {
				return
			}
		}
	}

	// Final probe of everyone after the barrier and a NOOP.
	_ = w.s.Quiesce(0, 10*time.Second)

	for _, s := range w.sess {
		if s.idle != nil {
			w.stepClient(s, rng, false)
		}

		if s.box != "" && !s.dead && !w.isFailed() {
			w.exec(s, "NOOP")
			w.probe(s, false)
		}
	}

	if !w.isFailed() && r.WantSample() {
		l := w.getLog()
		if len(l) > 45 {
			l = l[:45]
		}

		r.Sample(map[string]any{"case": label, "mode": "sequential", "sessions": nSess, "mailboxes": boxes, "first_events": l})
	}
}

func c01Concurrent(r *ev.Run, label string, stepsPer int) {
	rng := r.Rand(label)
	nSess := 2 + rng.Intn(5)
	boxes := []string{"INBOX", "Other"}[:1+rng.Intn(2)]

	w, err := newWorld(r, "C01", label, nSess, boxes, func(o *srv.Options) { o.IdleBulk = 0 })
	if err != nil {
		r.Inconclusive("%s: %v", label, err)
		return
	}

	defer w.close()

	w.lenientPositions = true

	// Widen the window between a commit and the broadcast of its updates, and before a session
	// applies a queued update - at existing suspension points, never inside a lock.
	var fpN atomic.Int64

	delay := func(string) error {
		if n := fpN.Add(1); n%3 == 0 {
			time.Sleep(time.Duration(200+(n%7)*150) * time.Microsecond)
		}

		return nil
	}

	fp.Set("state.afterCommit", delay)
	fp.Set("user.afterCommit", delay)
	fp.Set("session.beforeApplyUpdate", delay)

	defer func() {
		fp.Set("state.afterCommit", nil)
		fp.Set("user.afterCommit", nil)
		fp.Set("session.beforeApplyUpdate", nil)
	}()

	for _, s := range w.sess {
		w.selectBox(s, boxes[rng.Intn(len(boxes))], false)
	}

	r.Eval(1)

	var (
		wg    sync.WaitGroup
		order []string
		omu   sync.Mutex
	)

	note := func(who, what string) {
		omu.Lock()
		order = append(order, who+":"+what)
		omu.Unlock()
	}

	for _, s := range w.sess {
		wg.Add(1)

		go func(s *vsess) {
			defer wg.Done()

			for i := 0; i < stepsPer && !w.isFailed() && !s.dead; i++ {
				k := w.stepClient(s, s.rng, true)
				note(s.name, k)

				if !w.isFailed() {
					w.probe(s, false)
				}
			}

			if s.idle != nil && !w.isFailed() {
				w.stepClient(s, s.rng, false)
			}
		}(s)
	}

	wg.Add(1)

	go func() {
		defer wg.Done()

		crng := r.Rand(label, "connector")

		for i := 0; i < stepsPer/3 && !w.isFailed(); i++ {
			note("conn", w.stepConnector(crng))
			time.Sleep(time.Duration(crng.Intn(800)) * time.Microsecond)
		}
	}()

	wg.Wait()

	if w.isFailed() {
		return
	}

	_ = w.s.Quiesce(0, 10*time.Second)

	for _, s := range w.sess {
		if s.box != "" && !s.dead && !w.isFailed() {
			w.exec(s, "NOOP")
			w.probe(s, false)
		}
	}

	r.Distinct(fmt.Sprintf("interleaving %08x", crc32.ChecksumIEEE([]byte(strings.Join(order, ",")))))
	r.Count("concurrent_commands", len(order))

	if !w.isFailed() && r.WantSample() && len(order) > 20 {
		r.Sample(map[string]any{"case": label, "mode": "concurrent", "sessions": nSess, "completion_order_prefix": order[:20]})
	}
}

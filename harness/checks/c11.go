package checks

import (
	"bufio"
	"bytes"
	"fmt"
	"math/rand"
	"net"
	"path/filepath"
	"regexp"
	"strconv"
	"strings"
	"time"

	"verifharness/ev"
	"verifharness/imapc"
	"verifharness/srv"
)

func init() { register("C11", "exploration", runC11) }

func runC11(r *ev.Run) {
	r.SetRule("a gluon server runs in a child process with no panic handler (a panic kills it, as in production). Hostile connections (before LOGIN, logged in, with a mailbox selected) send: grammar-generated valid commands, byte-level mutations of them (flips, cuts, inserted parens/braces/quotes/NUL/8-bit, huge numbers), numbers at the edges of int32/uint32/int64/uint64 in every numeric position, lines sent behind a LOGOUT or behind the 20th consecutive error, complete APPENDs of messages whose address, date and MIME header fields end inside comments, quotes, brackets, groups, encoded words or nest thousands deep, hand-written extremes (10^4-fold nesting, 2^32 and 2^64 numbers in sets, partials and literal sizes, 1 MiB atoms, thousands of empty lines, tag-only lines), literals that are announced and then cut off by a disconnect, and batches of pipelined lines. The client follows the protocol for literals (waits for '+'). Oracles: the child stays alive; every line that was completely sent gets exactly one completion (tagged with its tag when the tag is a plain atom, else '* BAD'), checked with a NOOP probe behind it; the connection then still answers NOOP unless the server said BYE after repeated errors; a sentinel session of another user keeps getting the same FETCH answer; after all hostile connections are gone the goroutine count returns to the start level, the heap that is live after a collection stays under 400 MiB (checked whenever RSS passes 700 MiB; RSS after the freed memory was handed back to the OS must stay under 3 GiB) and ends within 300 MiB of its start and the idle server burns < 1 s CPU in 3 s. distinct = distinct (state, input family, outcome) triples")
	r.Assume("lines carry no CR/LF except their terminator and inside literals; 'hang' means no completion within a 60 s watchdog and is reported as inconclusive unless the child is burning CPU or a second try on a fresh connection hangs too")

	conns := r.Pick(400, 6000)
	rng := r.Rand("c11")

	dir := caseDir(r, "c11")

	// the sentinel is another user: what the hostile sessions legitimately do to their own mailboxes must not count
	sentinelUser := srv.UserSpec{Usernames: []string{"sentinel"}, Password: "sentinel-pass", UserID: "u2"}

	child, err := startSrvChild(dir, false, srvChildOpts{Users: []srv.UserSpec{srv.DefaultUser, sentinelUser}, JailMillis: 1})
	if err != nil {
		r.Inconclusive("cannot start the server child: %v", err)
		return
	}

	defer child.Kill()

	c := &c11Case{r: r, rng: rng, child: child}

	// content and the sentinel
	setup, err := imapc.Dial(child.Addr, "setup")
	if err != nil {
		r.Inconclusive("dial: %v", err)
		return
	}

	setup.Cmdf("LOGIN %s %s", imapc.Quote(srv.DefaultUser.Usernames[0]), imapc.Quote(srv.DefaultUser.Password))
	setup.Cmd("CREATE Work")

	for i := 0; i < 5; i++ {
		setup.Cmd("APPEND INBOX ", imapc.Lit(simpleMessage(fmt.Sprintf("c11-m%d", i), rng)))
	}

	setup.Close()

	if setup, err = imapc.Dial(child.Addr, "sentinel"); err != nil {
		r.Inconclusive("dial: %v", err)
		return
	}

	setup.Cmdf("LOGIN %s %s", imapc.Quote(sentinelUser.Usernames[0]), imapc.Quote(sentinelUser.Password))

	for i := 0; i < 5; i++ {
		setup.Cmd("APPEND INBOX ", imapc.Lit(simpleMessage(fmt.Sprintf("c11-s%d", i), rng)))
	}

	setup.Cmd("SELECT INBOX")

	sentinelWant := c11Sentinel(setup)
	if sentinelWant == "" {
		r.Inconclusive("sentinel cannot fetch")
		return
	}

	base, err := child.Stats()
	if err != nil {
		r.Inconclusive("stats: %v", err)
		return
	}

	c.logf("start: %d goroutines, RSS %d KiB", base.Goroutines, child.RSSKB())

	var maxRSS int64

	for i := 0; i < conns && !c.fail; i++ {
		r.Eval(1)
		c.hostileConn(i)

		if !child.Alive() {
			c.died(fmt.Sprintf("during hostile connection %d", i))
			return
		}

		if i%10 == 9 || i == conns-1 {
			if got := c11Sentinel(setup); got != sentinelWant {
				// the child may just have died
				if !child.Alive() {
					c.died(fmt.Sprintf("during hostile connection %d", i))
					return
				}

				c.violate("C11 other-session-affected", fmt.Sprintf("after hostile connection %d the sentinel session's FETCH answered %q instead of %q", i, shorten(got, 200), shorten(sentinelWant, 200)))

				return
			}

			if rss := child.RSSKB(); rss > maxRSS {
				maxRSS = rss
			}

			// RSS alone also shows what the Go runtime has not yet given back; what counts is the heap that is
			// still live after a collection (and a hard cap on RSS as a backstop).
			if rss := child.RSSKB(); rss > 700*1024 {
				_, _ = child.Ctl("gc", 120*time.Second)

				st, err := child.Stats()
				if err == nil {
					r.Count("rss_above_700MiB_checked_after_gc", 1)

					// RSS before the collection also holds what the runtime had freed but not yet given back: the cap
					// applies to what is resident after the memory was returned
					rss = child.RSSKB()

					if st.HeapAlloc > 400<<20 || rss > 3<<20 {
						c.violate("C11 memory-grew", fmt.Sprintf("after %d hostile connections the server's live heap is %d MiB after a collection (RSS %d MiB); it started at a few MiB", i+1, st.HeapAlloc>>20, rss/1024))
						return
					}
				}
			}
		}
	}

	if c.fail {
		return
	}

	r.Set("max_rss_kib", maxRSS)

	// quiescence: goroutines back to the start level (bounded number of polls)
	var st *srvStats

	for i := 0; i < 100; i++ {
		st, err = child.Stats()
		if err != nil {
			break
		}

		if st.Goroutines <= base.Goroutines+2 {
			break
		}

		time.Sleep(100 * time.Millisecond)
	}

	if err != nil || st == nil {
		if !child.Alive() {
			c.died("at the end")
			return
		}

		r.Inconclusive("stats at the end: %v", err)

		return
	}

	r.Set("goroutines_start", base.Goroutines)
	r.Set("goroutines_end", st.Goroutines)

	_, _ = child.Ctl("gc", 120*time.Second)

	if st2, err := child.Stats(); err == nil {
		r.Set("live_heap_start_bytes", base.HeapAlloc)
		r.Set("live_heap_end_bytes_after_gc", st2.HeapAlloc)

		if st2.HeapAlloc > base.HeapAlloc+(300<<20) {
			c.violate("C11 memory-grew", fmt.Sprintf("after all %d hostile connections were closed and a collection the live heap is %d MiB; it started at %d MiB", conns, st2.HeapAlloc>>20, base.HeapAlloc>>20))
			return
		}
	}

	if st.Goroutines > base.Goroutines+2 {
		c.r.Violate("C11 goroutines-left-behind", fmt.Sprintf("%d goroutines are left 10 s after all %d hostile connections were closed; the server started with %d", st.Goroutines, conns, base.Goroutines), "c11", map[string]any{"history": c.log, "goroutines": shorten(child.Stacks(), 20000)})
		return
	}

	// idle CPU
	s1, _ := child.Stats()
	time.Sleep(3 * time.Second)
	s2, _ := child.Stats()

	if s1 != nil && s2 != nil {
		r.Set("idle_cpu_ms_in_3s", s2.CPUMillis-s1.CPUMillis)

		if s2.CPUMillis-s1.CPUMillis > 1000 {
			c.r.Violate("C11 spinning-when-idle", fmt.Sprintf("the idle server used %d ms CPU in 3 s", s2.CPUMillis-s1.CPUMillis), "c11", map[string]any{"history": c.log, "goroutines": shorten(child.Stacks(), 20000)})
			return
		}
	}

	if got := c11Sentinel(setup); got != sentinelWant {
		c.violate("C11 other-session-affected", fmt.Sprintf("at the end the sentinel session's FETCH answered %q instead of %q", shorten(got, 200), shorten(sentinelWant, 200)))
		return
	}

	setup.Close()
	r.Sample(map[string]any{"connections": conns, "max_rss_kib": maxRSS, "goroutines_start": base.Goroutines, "goroutines_end": st.Goroutines, "last_events": lastN(c.log, 25)})
}

func lastN(l []string, n int) []string {
	if len(l) > n {
		return l[len(l)-n:]
	}

	return l
}

func c11Sentinel(cn *imapc.Conn) string {
	res := cn.Cmd("UID FETCH 1:* (FLAGS RFC822.SIZE)")
	if !res.OK() {
		return ""
	}

	var rows []string
	for _, u := range res.Untagged {
		if u.Kind == "FETCH" {
			rows = append(rows, u.String())
		}
	}

	return strings.Join(sortedCopy(rows), "|")
}

type c11Case struct {
	r     *ev.Run
	rng   *rand.Rand
	child *srvChild
	log   []string
	fail  bool
	n     int
}

func (c *c11Case) logf(f string, a ...any) {
	c.log = append(c.log, fmt.Sprintf(f, a...))
	if len(c.log) > 400 {
		c.log = c.log[len(c.log)-400:]
	}
}

func (c *c11Case) violate(sig, what string) {
	if c.fail {
		return
	}

	c.fail = true
	c.r.Violate(sig, what, "c11", map[string]any{"history": c.log})
}

func (c *c11Case) died(when string) {
	if c.fail {
		return
	}

	c.fail = true
	stderr := c.child.StderrAll()
	c.r.Violate("C11 server-died "+shorten(firstLine(firstPanicLines(stderr)), 80), fmt.Sprintf("the server process died %s (%s): %s", when, c.child.ExitInfo(), firstLine(firstPanicLines(stderr))), "c11", map[string]any{"history": c.log, "stderr": firstPanicLines(stderr)})
}

// ---- hostile inputs ----------------------------------------------------------------------------

type c11Item struct {
	family string
	tag    string // "" = no usable tag
	data   []byte // the complete line(s) incl. CRLF and literal data
	lines  int    // number of complete command lines in data (pipelined batches)
	cutAt  int    // >0: send only this many bytes, then disconnect
	idle   bool
}

var c11TagRe = regexp.MustCompile(`^[A-Za-z0-9]+$`)

var c11Extremes = []func(tag string) string{
	func(t string) string { return t + " FETCH 1 BODY[" + strings.Repeat("1.", 10000) + "1]" },
	func(t string) string { return t + " FETCH 1 BODY[]<0.4294967296>" },
	func(t string) string { return t + " FETCH 1 BODY[]<4294967295.4294967295>" },
	func(t string) string { return t + " FETCH 1 BODY[]<18446744073709551615.1>" },
	func(t string) string { return t + " FETCH 1 BODY[]<2147483648.2147483648>" },
	func(t string) string {
		return t + " FETCH 1:* (BODY[HEADER.FIELDS (" + strings.Repeat("X ", 20000) + ")])"
	},
	func(t string) string { return t + " FETCH 4294967296 FLAGS" },
	func(t string) string { return t + " FETCH 1:18446744073709551616 FLAGS" },
	func(t string) string { return t + " UID FETCH 1:4294967295 FLAGS" },
	func(t string) string { return t + " UID FETCH 4294967295:* (FLAGS)" },
	func(t string) string { return t + " FETCH " + strings.Repeat("1,", 50000) + "1 FLAGS" },
	func(t string) string { return t + " SEARCH " + strings.Repeat("NOT ", 10000) + "ALL" },
	func(t string) string {
		return t + " SEARCH " + strings.Repeat("(", 10000) + "ALL" + strings.Repeat(")", 10000)
	},
	func(t string) string { return t + " SEARCH " + strings.Repeat("OR ALL ", 5000) + "ALL" },
	func(t string) string { return t + " SEARCH " + strings.Repeat("(", 10000) },
	func(t string) string { return t + " SEARCH LARGER 4294967296" },
	func(t string) string { return t + " SEARCH UID 99999999999999999999" },
	func(t string) string { return t + " SEARCH BEFORE 99-Jan-99999" },
	func(t string) string { return t + " STORE 1 +FLAGS (" + strings.Repeat(`\Seen `, 50000) + ")" },
	func(t string) string { return t + " STORE 1 +FLAGS " + strings.Repeat("(", 5000) },
	// (300 wildcard pairs: matching costs pattern size x name bytes; 1000 pairs came within reach of the 60 s
	// watchdog once earlier commands had left long mailbox names behind, 20000 pairs against a hundred long names
	// take more than a minute of CPU - proportional work, not a spin, but it would starve the rest of the run)
	func(t string) string { return t + " LIST \"\" " + strings.Repeat("%*", 300) },
	func(t string) string { return t + " LIST " + strings.Repeat("a/", 20000) + " *" },
	// (depth kept at 120: the cost of LIST grows cubically with the depth of the hierarchy - 15 s at 1000
	// levels, more than 5 min at 3000 - which would drown every later LIST of the run; see DESIGN.md)
	func(t string) string { return t + " CREATE " + strings.Repeat("a/", 120) + "b" },
	func(t string) string { return t + " CREATE \"" + strings.Repeat("x", 1<<20) + "\"" },
	func(t string) string { return t + " SELECT " + strings.Repeat("A", 1<<20) },
	func(t string) string { return t + " LOGIN " + strings.Repeat("\"", 9999) },
	func(t string) string { return t + " LOGIN \"" + strings.Repeat("\\", 9999) },
	func(t string) string { return t + " APPEND INBOX (" + strings.Repeat("(", 3000) },
	func(t string) string { return t + " APPEND INBOX \"99-Xxx-9999 99:99:99 +9999\" {0}" },
	func(t string) string { return t + " STATUS INBOX (" + strings.Repeat("MESSAGES ", 30000) + ")" },
	func(t string) string { return t + " ID (" + strings.Repeat("\"a\" \"b\" ", 20000) + ")" },
	func(t string) string { return t + " ID " + strings.Repeat("(", 8000) },
	func(t string) string { return t + " COPY 1 \"" + strings.Repeat("\\\"", 40000) + "\"" },
	func(t string) string { return t + " UID EXPUNGE " + strings.Repeat("1:*,", 30000) + "1" },
	func(t string) string { return t },
	func(t string) string { return t + " " },
	func(t string) string { return "" },
	func(t string) string { return " " },
	func(t string) string { return "*" },
	func(t string) string { return "+ " + t },
	func(t string) string { return strings.Repeat(" ", 70000) + t + " NOOP" },
	func(t string) string { return t + strings.Repeat(" ", 70000) + "NOOP" },
	func(t string) string { return strings.Repeat("A", 1<<20) },
	func(t string) string { return t + " \x00\x00\x00" },
	func(t string) string { return t + " NOOP\x00" },
	func(t string) string { return "\xff\xfe " + t + " NOOP" },
	func(t string) string {
		return t + " FETCH 1 (BODY.PEEK[HEADER.FIELDS.NOT (" + strings.Repeat("(", 2000) + ")])"
	},
	func(t string) string { return t + " FETCH 1 " + strings.Repeat("(", 10000) + "FLAGS" },
	func(t string) string { return t + " UID " + strings.Repeat("UID ", 10000) + "FETCH 1 FLAGS" },
}

// numbers at the edges of the integer types a parser may use
var c11EdgeNumbers = []string{"0", "1", "2147483647", "2147483648", "4294967295", "4294967296", "4294967297", "9223372036854775806", "9223372036854775807", "9223372036854775808", "9223372036854775809", "18446744073709551615", "18446744073709551616", "99999999999999999999"}

func (c *c11Case) nextTag() string {
	c.n++
	return fmt.Sprintf("h%d", c.n)
}

// replaceTag gives a generated command line one of our tags.
func replaceTag(line []byte, oldTag, newTag string) []byte {
	if oldTag != "" && bytes.HasPrefix(line, []byte(oldTag+" ")) {
		return append([]byte(newTag), line[len(oldTag):]...)
	}

	return line
}

func noCRLF(b []byte) []byte {
	b = bytes.ReplaceAll(b, []byte("\r"), []byte("?"))
	return bytes.ReplaceAll(b, []byte("\n"), []byte("?"))
}

func (c *c11Case) genItem() c11Item {
	rng := c.rng
	tag := c.nextTag()

	switch k := rng.Intn(100); {
	case k < 25: // a valid generated command
		g := &cmdGen{rng: rng}
		old, _, name := g.command()
		line := replaceTag(g.buf.Bytes(), old, tag)

		if name == "DONE" || name == "LOGOUT" || name == "STARTTLS" {
			return c11Item{family: "valid NOOP", tag: tag, data: []byte(tag + " NOOP\r\n"), lines: 1}
		}

		return c11Item{family: "valid " + name, tag: tag, data: line, lines: 1, idle: name == "IDLE"}
	case k < 60: // a mutated generated command
		g := &cmdGen{rng: rng}
		old, _, name := g.command()
		line := bytes.TrimSuffix(replaceTag(g.buf.Bytes(), old, tag), []byte("\r\n"))

		toks := []string{"(", ")", "{", "}", "\"", "\\", "\x00", "\xff", "[", "]", "<", ">", "*", "%", "4294967296", "99999999999999999999", "-1", "0", "{4294967296}", "{18446744073709551616}", "{-1}", "{1+}", "NIL", " ", "  ", ":", ",", ".", "BODY[", "(((((", strings.Repeat("(", 3000), strings.Repeat("9", 400)}

		for i := 0; i < 1+rng.Intn(4) && len(line) > len(tag)+1; i++ {
			p := len(tag) + 1 + rng.Intn(len(line)-len(tag)-1)

			switch rng.Intn(6) {
			case 0:
				line[p] ^= 1 << uint(rng.Intn(8))
			case 1:
				line = line[:p]
			case 2:
				t := toks[rng.Intn(len(toks))]
				line = append(line[:p], append([]byte(t), line[p:]...)...)
			case 3:
				q := p + rng.Intn(len(line)-p+1)
				line = append(line[:p], line[q:]...)
			case 4:
				line[p] = []byte{0, '"', '(', ')', '{', '\\', ' ', 0xff}[rng.Intn(8)]
			default:
				q := p + rng.Intn(minInt(len(line)-p, 40)+1)
				line = append(line[:q], append(append([]byte{}, line[p:q]...), line[q:]...)...)
			}
		}

		// mutated lines carry no literals of their own: neutralise CR/LF so that "one line" stays one line
		line = noCRLF(line)

		t := tag
		if !bytes.HasPrefix(line, []byte(tag+" ")) {
			t = ""
		}

		return c11Item{family: "mutated " + name, tag: t, data: append(line, '\r', '\n'), lines: 1}
	case k < 66: // numbers at type edges in every numeric position
		n1, n2 := c11EdgeNumbers[rng.Intn(len(c11EdgeNumbers))], c11EdgeNumbers[rng.Intn(len(c11EdgeNumbers))]
		forms := []string{
			"FETCH 1 (BODY.PEEK[]<%s.%s>)", "UID FETCH 1:* (BODY.PEEK[TEXT]<%s.%s>)", "FETCH 1 (BODY[HEADER]<%s.%s>)", "FETCH %s:%s FLAGS", "UID FETCH %s:%s FLAGS",
			"SEARCH LARGER %s SMALLER %s", "SEARCH UID %s:%s", "SEARCH %s:%s", "STORE %s:%s +FLAGS (\\Seen)", "COPY %s:%s Work", "UID EXPUNGE %s:%s", "APPEND INBOX {%s}", "FETCH 1 (BODY.PEEK[%s.%s])",
		}
		f := forms[rng.Intn(len(forms))]
		line := tag + " " + fmt.Sprintf(f, n1, n2)

		if strings.Contains(f, "{%s}") {
			line = tag + " " + fmt.Sprintf(f, n1)

			return c11Item{family: "edge-number literal", tag: tag, data: []byte(line + "\r\n"), lines: 0, cutAt: len(line) + 2}
		}

		return c11Item{family: "edge-number " + strings.Fields(f)[0], tag: tag, data: []byte(line + "\r\n"), lines: 1}
	case k < 70: // more lines behind a LOGOUT (or behind the 20th error), then gone
		var b bytes.Buffer

		if rng.Intn(2) == 0 {
			b.WriteString(tag + " LOGOUT\r\n")
		} else {
			for i := 0; i < 21; i++ {
				fmt.Fprintf(&b, "%sq%d BOGUS\r\n", tag, i)
			}
		}

		for i := 0; i < 1+rng.Intn(5); i++ {
			fmt.Fprintf(&b, "%sz%d NOOP\r\n", tag, i)
		}

		return c11Item{family: "lines-after-the-end", tag: tag, data: b.Bytes(), lines: 0, cutAt: b.Len()}
	case k < 80: // an extreme
		i := rng.Intn(len(c11Extremes))
		s := c11Extremes[i](tag)
		t := tag

		if !strings.HasPrefix(s, tag+" ") {
			t = ""
		}

		return c11Item{family: fmt.Sprintf("extreme-%d", i), tag: t, data: []byte(s + "\r\n"), lines: 1}
	case k < 88: // a literal is announced, the connection is cut inside it
		size := []string{"10", "1000", "100000", "4194304", "2147483647", "4294967295", "4294967296", "99999999999999999999"}[rng.Intn(8)]
		cmd := []string{"APPEND INBOX {%s}", "LOGIN {%s}", "SELECT {%s}", "APPEND INBOX (\\Seen) {%s+}", "SEARCH SUBJECT {%s}", "LOGIN user {%s+}"}[rng.Intn(6)]
		head := tag + " " + fmt.Sprintf(cmd, size) + "\r\n"
		data := []byte(head + strings.Repeat("x", rng.Intn(3000)))

		return c11Item{family: "cut-literal " + size, tag: tag, data: data, lines: 0, cutAt: len(data)}
	case k < 94: // a complete APPEND whose message has hostile header fields (they are parsed on arrival and by SEARCH)
		msg := c11HostileMessage(rng)
		line := fmt.Sprintf("%s APPEND INBOX {%d}\r\n%s\r\n", tag, len(msg), msg)

		return c11Item{family: "hostile-message", tag: tag, data: []byte(line), lines: 1}
	case k < 97: // pipelined batch
		n := 2 + rng.Intn(30)

		var b bytes.Buffer

		for i := 0; i < n; i++ {
			t := tag + "x" + strconv.Itoa(i)

			switch rng.Intn(4) {
			case 0:
				b.WriteString(t + " NOOP\r\n")
			case 1:
				b.WriteString(t + " BOGUS " + strings.Repeat("(", rng.Intn(50)) + "\r\n")
			case 2:
				b.WriteString(t + " CAPABILITY\r\n")
			default:
				b.WriteString(t + " FETCH 0 FLAGS\r\n")
			}
		}

		return c11Item{family: "pipelined", tag: tag, data: b.Bytes(), lines: n}
	default: // cut in the middle of a line
		g := &cmdGen{rng: rng}
		old, _, name := g.command()
		line := replaceTag(g.buf.Bytes(), old, tag)
		cut := 1 + rng.Intn(len(line))

		return c11Item{family: "cut-line " + name, tag: tag, data: line, lines: 0, cutAt: cut}
	}
}

// c11HostileMessage builds a message whose structured header fields (addresses, dates, MIME fields) are cut
// off inside comments, quotes, angle brackets, groups, domain literals and encoded words, nest deeply or are
// very long. No CR or LF inside a value: the literal stays a sequence of header lines.
func c11HostileMessage(rng *rand.Rand) string {
	frag := []string{
		"Foo <a@b.c> (work", "(", "((((", "(a (b (c", "\"unterminated <a@b.c>", "<a@b.c", "a@[1.2.3", "group: a@b.c, c@d.e", "group: (x", "a@b.c,", "a@b.c, <", "=?utf-8?q?=C3", "=?utf-8?b?", "=?utf-8?q?abc",
		"\\", "a@b.c \\", "(c\\", "\"q\\", strings.Repeat("(", 5000), strings.Repeat("(a", 3000) + strings.Repeat(")", 2999), strings.Repeat("a@b.c, ", 3000), strings.Repeat("<", 4000), strings.Repeat("g:", 3000),
		"Mon, 02 Jan 2006 15:04:05 +0200 (CEST", "Mon, 02 Jan 2006 15:04:05 (", "Mon, 02 Jan (a (b 2006", "02 Jan 2006 15:04:05 +0200 \\", "Mon, 99 Jan 99999 99:99:99 +9999 (", "(only comment", "\x00", "\xff\xfe (", "a@b.c (\x00",
		"text/plain; charset=\"utf-8", "text/plain; name*=utf-8''%", "multipart/mixed; boundary=\"", "multipart/mixed; boundary=", "message/rfc822; (", "text/plain; a=(b", ";;;;", "; =", "text/plain; charset*0*=utf-8''%E9; charset*2=x",
	}
	names := []string{"Sender", "Reply-To", "To", "Cc", "Bcc", "Message-Id", "In-Reply-To", "References", "Content-Type", "Content-Disposition", "Content-Transfer-Encoding", "Subject", "Resent-Date", "Received"}

	var b strings.Builder

	pick := func() string {
		v := frag[rng.Intn(len(frag))]
		if rng.Intn(3) == 0 {
			v = frag[rng.Intn(len(frag))] + " " + v
		}

		return v
	}

	// APPEND insists on a From and a Date field (and parses From): both are always there, hostile or plain, so
	// that the message gets as far as the parsers, and - when both are plain - into the mailbox, where SEARCH
	// and FETCH ENVELOPE / BODYSTRUCTURE read the other fields
	if rng.Intn(2) == 0 {
		fmt.Fprintf(&b, "From: %s\r\n", pick())
	} else {
		b.WriteString("From: a@b.c\r\n")
	}

	if rng.Intn(2) == 0 {
		fmt.Fprintf(&b, "Date: %s\r\n", pick())
	} else {
		b.WriteString("Date: Mon, 02 Jan 2006 15:04:05 +0000\r\n")
	}

	for _, i := range rng.Perm(len(names))[:1+rng.Intn(8)] {
		fmt.Fprintf(&b, "%s: %s\r\n", names[i], pick())
	}

	b.WriteString("\r\nbody\r\n")

	return b.String()
}

var c11LitRe = regexp.MustCompile(`\{(\d+)(\+?)\}\r\n`)

// hconnRaw is a raw protocol client.
type c11Conn struct {
	c  net.Conn
	rd *bufio.Reader
}

func (h *c11Conn) readLine(d time.Duration) (string, error) {
	_ = h.c.SetReadDeadline(time.Now().Add(d))

	line, err := h.rd.ReadString('\n')
	if err != nil {
		return line, err
	}

	// a response line that ends in a literal: swallow the literal
	for {
		t := strings.TrimRight(line, "\r\n")

		i := strings.LastIndexByte(t, '{')
		if i < 0 || !strings.HasSuffix(t, "}") {
			break
		}

		n, err := strconv.Atoi(t[i+1 : len(t)-1])
		if err != nil || n < 0 || n > 64<<20 {
			break
		}

		buf := make([]byte, n)
		if _, err := ioReadFull(h.rd, buf); err != nil {
			return line, err
		}

		rest, err := h.rd.ReadString('\n')
		if err != nil {
			return line, err
		}

		line = t[:i] + "<literal>" + rest
	}

	return strings.TrimRight(line, "\r\n"), nil
}

func ioReadFull(rd *bufio.Reader, buf []byte) (int, error) {
	n := 0

	for n < len(buf) {
		m, err := rd.Read(buf[n:])
		n += m

		if err != nil {
			return n, err
		}
	}

	return n, nil
}

func isCompletion(line string) (tag string, ok bool) {
	f := strings.SplitN(line, " ", 3)
	if len(f) < 2 {
		return "", false
	}

	st := strings.ToUpper(f[1])

	if f[0] == "*" {
		// an untagged BAD or NO is what a line without a usable tag gets
		return "*", st == "BAD" || st == "NO"
	}

	if f[0] == "+" || f[0] == "" {
		return "", false
	}

	return f[0], st == "OK" || st == "NO" || st == "BAD"
}

const c11Watchdog = 60 * time.Second

// outcome of an item
type c11Outcome struct {
	completions []string // completion lines seen (tag + status)
	bye         bool
	closed      bool
	hung        bool
	abandoned   bool // we walked away in the middle of a literal the server is entitled to wait for
}

// sendItem sends one item following the literal protocol and collects completions until `want` of them
// arrived (or the connection ended).
func (c *c11Case) sendItem(h *c11Conn, it c11Item) c11Outcome {
	var out c11Outcome

	data := it.data
	if it.cutAt > 0 {
		data = data[:it.cutAt]
	}

	want := it.lines
	pos := 0

	readUntil := func(stopOnPlus bool) (plus bool) {
		for len(out.completions) < want || stopOnPlus {
			line, err := h.readLine(c11Watchdog)
			if err != nil {
				if ne, ok := err.(net.Error); ok && ne.Timeout() {
					out.hung = true
				} else {
					out.closed = true
				}

				return false
			}

			if strings.HasPrefix(line, "* BYE") {
				out.bye = true
				continue
			}

			if strings.HasPrefix(line, "+") {
				if stopOnPlus {
					return true
				}

				if it.idle {
					_, _ = h.c.Write([]byte("DONE\r\n"))
					continue
				}

				// a continuation request we have nothing for
				out.abandoned = true

				return false
			}

			if t, ok := isCompletion(line); ok {
				out.completions = append(out.completions, t+" "+strings.ToUpper(strings.SplitN(line, " ", 3)[1]))

				if stopOnPlus {
					// the server answered instead of asking for the literal: the rest of the item is void
					return false
				}
			}
		}

		return false
	}

	for pos < len(data) {
		loc := c11LitRe.FindSubmatchIndex(data[pos:])
		if loc == nil || it.lines != 1 && it.cutAt == 0 {
			_ = h.c.SetWriteDeadline(time.Now().Add(c11Watchdog))

			if _, err := h.c.Write(data[pos:]); err != nil {
				out.closed = true
				return out
			}

			pos = len(data)

			break
		}

		end := pos + loc[1]
		n, _ := strconv.ParseUint(string(data[pos+loc[2]:pos+loc[3]]), 10, 64)
		plus := loc[5] > loc[4]

		_ = h.c.SetWriteDeadline(time.Now().Add(c11Watchdog))

		if _, err := h.c.Write(data[pos:end]); err != nil {
			out.closed = true
			return out
		}

		pos = end

		if !plus {
			if !readUntil(true) {
				// answered (or ended) instead of '+'
				if out.closed || out.hung || out.abandoned {
					return out
				}

				return out
			}
		}

		litEnd := pos + int(minU64(n, uint64(len(data)-pos)))

		if _, err := h.c.Write(data[pos:litEnd]); err != nil {
			out.closed = true
			return out
		}

		if uint64(litEnd-pos) < n {
			// the literal is incomplete: this is a cut
			out.abandoned = true
			return out
		}

		pos = litEnd

		if pos == len(data) {
			// the data ended with a literal: the command line itself still lacks its CRLF
			_, _ = h.c.Write([]byte("\r\n"))
		}
	}

	if it.cutAt > 0 {
		out.abandoned = true
		return out
	}

	readUntil(false)

	return out
}

func minU64(a, b uint64) uint64 {
	if a < b {
		return a
	}

	return b
}

func (c *c11Case) hostileConn(idx int) {
	rng := c.rng

	nc, err := net.DialTimeout("tcp", c.child.Addr, 10*time.Second)
	if err != nil {
		if !c.child.Alive() {
			return
		}

		c.r.Inconclusive("dial: %v", err)
		c.fail = true

		return
	}

	h := &c11Conn{c: nc, rd: bufio.NewReaderSize(nc, 1<<16)}

	defer nc.Close()

	if _, err := h.readLine(c11Watchdog); err != nil {
		return
	}

	state := "before-login"

	plain := func(cmd string) bool {
		tag := c.nextTag()
		_, _ = nc.Write([]byte(tag + " " + cmd + "\r\n"))

		for {
			line, err := h.readLine(c11Watchdog)
			if err != nil {
				return false
			}

			if strings.HasPrefix(line, tag+" ") {
				return strings.HasPrefix(line, tag+" OK")
			}
		}
	}

	if rng.Intn(10) < 7 {
		if !plain(fmt.Sprintf("LOGIN %s %s", imapc.Quote(srv.DefaultUser.Usernames[0]), imapc.Quote(srv.DefaultUser.Password))) {
			return
		}

		state = "logged-in"

		if rng.Intn(2) == 0 {
			// earlier hostile commands may have expunged everything: there should be something to FETCH
			mk := c.nextTag()
			lit := simpleMessage("c11-"+mk, rng)
			_, _ = nc.Write([]byte(fmt.Sprintf("%s APPEND INBOX {%d}\r\n", mk, len(lit))))

			for {
				line, err := h.readLine(c11Watchdog)
				if err != nil {
					return
				}

				if strings.HasPrefix(line, "+") {
					_, _ = nc.Write(append(append([]byte{}, lit...), '\r', '\n'))
					continue
				}

				if strings.HasPrefix(line, mk+" ") {
					break
				}
			}

			if !plain([]string{"SELECT INBOX", "EXAMINE INBOX", "SELECT INBOX"}[rng.Intn(3)]) {
				return
			}

			state = "selected"
		}
	}

	errorsInRow := 0

	for k := 0; k < 1+rng.Intn(12); k++ {
		it := c.genItem()
		out := c.sendItem(h, it)
		c.logf("conn %d [%s] %s (%d bytes, %d line(s)) -> %v bye=%v closed=%v hung=%v abandoned=%v", idx, state, it.family, len(it.data), it.lines, out.completions, out.bye, out.closed, out.hung, out.abandoned)
		c.r.Distinct(fmt.Sprintf("%s %s -> %s", state, strings.Fields(it.family)[0], c11OutcomeClass(out)))

		if it.family == "hostile-message" {
			c.r.Count("hostile_messages "+state+" -> "+c11OutcomeClass(out), 1)
		}

		if out.hung {
			c.hang(idx, it, h)
			return
		}

		if out.abandoned || it.cutAt > 0 {
			// cut off by a disconnect: RST or plain close
			if tc, ok := nc.(*net.TCPConn); ok && rng.Intn(2) == 0 {
				_ = tc.SetLinger(0)
			}

			return
		}

		// exactly `lines` completions, with the right tags
		if len(out.completions) > it.lines {
			c.violate("C11 too-many-completions "+strings.Fields(it.family)[0], fmt.Sprintf("%d line(s) of family %s got %d completions: %v", it.lines, it.family, len(out.completions), out.completions))
			return
		}

		if len(out.completions) < it.lines && !out.bye && !out.closed {
			c.violate("C11 missing-completion "+strings.Fields(it.family)[0], fmt.Sprintf("%d line(s) of family %s got only %v", it.lines, it.family, out.completions))
			return
		}

		if it.lines == 1 && len(out.completions) == 1 {
			got := strings.Fields(out.completions[0])[0]

			if it.tag != "" && c11TagRe.MatchString(it.tag) && got != it.tag {
				c.violate("C11 completion-with-wrong-tag "+strings.Fields(it.family)[0], fmt.Sprintf("a line with tag %s (family %s, %q) was completed by %q", it.tag, it.family, shorten(string(it.data), 120), out.completions[0]))
				return
			}

			if strings.HasSuffix(out.completions[0], " BAD") || strings.HasSuffix(out.completions[0], " NO") {
				errorsInRow++
			} else {
				errorsInRow = 0
			}
		}

		if it.lines > 1 {
			for i, comp := range out.completions {
				if want := fmt.Sprintf("%sx%d", it.tag, i); strings.Fields(comp)[0] != want {
					c.violate("C11 completion-with-wrong-tag pipelined", fmt.Sprintf("completion %d of a pipelined batch is %q, expected tag %s", i, comp, want))
					return
				}
			}
		}

		if out.closed || out.bye {
			if !out.bye && errorsInRow < 2 && !strings.Contains(it.family, "LOGOUT") {
				// the connection went away without a word after a single line
				if !c.child.Alive() {
					return
				}

				c.violate("C11 connection-dropped "+strings.Fields(it.family)[0], fmt.Sprintf("the server closed the connection without BYE after one line of family %s (%q)", it.family, shorten(string(it.data), 120)))
			}

			return
		}

		// the probe: nothing else may complete before it, and the session must still work
		ptag := c.nextTag()
		_, _ = nc.Write([]byte(ptag + " NOOP\r\n"))

		for {
			line, err := h.readLine(c11Watchdog)
			if err != nil {
				if ne, ok := err.(net.Error); ok && ne.Timeout() {
					c.hang(idx, c11Item{family: "NOOP after " + it.family, data: it.data}, h)
					return
				}

				if !c.child.Alive() {
					return
				}

				if errorsInRow >= 2 {
					return // closed after repeated errors
				}

				c.violate("C11 session-unusable "+strings.Fields(it.family)[0], fmt.Sprintf("after a line of family %s (%q) the connection ended instead of answering NOOP", it.family, shorten(string(it.data), 120)))

				return
			}

			if strings.HasPrefix(line, "* BYE") {
				return
			}

			t, ok := isCompletion(line)
			if !ok {
				continue
			}

			if t == ptag {
				if !strings.HasPrefix(line, ptag+" OK") {
					c.violate("C11 session-unusable "+strings.Fields(it.family)[0], fmt.Sprintf("after a line of family %s, NOOP was answered %q", it.family, line))
					return
				}

				break
			}

			c.violate("C11 too-many-completions "+strings.Fields(it.family)[0], fmt.Sprintf("after the completion of a line of family %s (%q) another completion arrived: %q", it.family, shorten(string(it.data), 120), line))

			return
		}
	}
}

func c11OutcomeClass(o c11Outcome) string {
	switch {
	case o.hung:
		return "hung"
	case o.abandoned:
		return "cut"
	case o.bye:
		return "bye"
	case o.closed:
		return "closed"
	case len(o.completions) == 1:
		return strings.Fields(o.completions[0])[1]
	default:
		return fmt.Sprintf("%d completions", len(o.completions))
	}
}

// hang: no completion within the watchdog. A verdict needs more than the clock: the child burning CPU,
// or the same bytes hanging a second, fresh connection.
func (c *c11Case) hang(idx int, it c11Item, h *c11Conn) {
	s1, _ := c.child.Stats()
	time.Sleep(2 * time.Second)
	s2, _ := c.child.Stats()

	stacks := shorten(c.child.Stacks(), 30000)

	if s1 != nil && s2 != nil && s2.CPUMillis-s1.CPUMillis > 1500 {
		c.fail = true
		c.r.Violate("C11 spinning "+strings.Fields(it.family)[0], fmt.Sprintf("no completion for a line of family %s within %v and the server burns CPU (%d ms in 2 s)", it.family, c11Watchdog, s2.CPUMillis-s1.CPUMillis), "c11", map[string]any{"history": c.log, "input": shorten(string(it.data), 4000), "goroutines": stacks})

		return
	}

	// second try on a fresh connection
	nc, err := net.DialTimeout("tcp", c.child.Addr, 10*time.Second)
	if err == nil {
		h2 := &c11Conn{c: nc, rd: bufio.NewReaderSize(nc, 1<<16)}
		_, _ = h2.readLine(c11Watchdog)

		it2 := it
		it2.cutAt = 0
		out := c.sendItem(h2, it2)
		nc.Close()

		if out.hung {
			c.fail = true
			c.r.Violate("C11 no-completion "+strings.Fields(it.family)[0], fmt.Sprintf("a line of family %s got no completion within %v, twice, on separate connections", it.family, c11Watchdog), "c11", map[string]any{"history": c.log, "input": shorten(string(it.data), 4000), "goroutines": stacks})

			return
		}
	}

	c.r.Inconclusive("conn %d: no completion for a line of family %s within %v (not reproduced on a second connection); last events: %s", idx, it.family, c11Watchdog, strings.Join(lastN(c.log, 6), " || "))
	c.fail = true
	_ = filepath.Join
}

package checks

import (
	"fmt"
	"math/rand"
	"sort"
	"strconv"
	"strings"
	"time"

	"github.com/ProtonMail/gluon/imap"

	"verifharness/ev"
	"verifharness/imapc"
	"verifharness/srv"
)

func init() { register("C15", "exploration", runC15) }

// ---- messages whose searchable data is known by construction -------------------------------

type c15Msg struct {
	Marker   string
	From     string
	To       string
	Cc       string // "" = no Cc line
	Bcc      string
	Subject  string
	XTag     string // "" = no X-Tag line; "-" = X-Tag line with empty value
	Body     string
	HasDate  bool
	SentY    int // date of the Date header as written (disregarding its zone)
	SentM    time.Month
	SentD    int
	Internal time.Time // as appended (with its zone)

	// the calendar day of INTERNALDATE as the server reports it
	IntY    int
	IntM    time.Month
	IntD    int
	Flags   []string // as appended
	Literal []byte

	// learned from the session's view
	Seq    int
	UID    uint32
	Size   int
	VFlags map[string]bool // lower-cased, incl. \recent
}

var c15Words = []string{"alpha", "bravo", "charlie", "delta", "echo"}

func c15Phrase(rng *rand.Rand) string {
	n := rng.Intn(3)

	var w []string
	for _, p := range rng.Perm(len(c15Words))[:n] {
		x := c15Words[p]
		if rng.Intn(3) == 0 {
			x = strings.ToUpper(x[:1]) + x[1:]
		}

		w = append(w, x)
	}

	return strings.Join(w, " ")
}

var c15Accented = []string{"café", "naïve", "zürich"}

// latin1 encodes a string of Latin-1 characters as ISO-8859-1 bytes.
func latin1(s string) []byte {
	var out []byte
	for _, r := range s {
		out = append(out, byte(r))
	}

	return out
}

var c15Zones = []string{"+0000", "+0000", "+0000", "+0200", "-0500", "+1300"}

func genC15Msg(rng *rand.Rand, marker string) *c15Msg {
	m := &c15Msg{Marker: marker}
	m.From = fmt.Sprintf("%s <from-%s@example.com>", c15Phrase(rng), c15Words[rng.Intn(5)])
	m.To = fmt.Sprintf("%s <to-%s@example.org>", c15Phrase(rng), c15Words[rng.Intn(5)])

	if rng.Intn(2) == 0 {
		m.Cc = fmt.Sprintf("%s <cc-%s@example.net>", c15Phrase(rng), c15Words[rng.Intn(5)])
	}

	if rng.Intn(3) == 0 {
		m.Bcc = fmt.Sprintf("<bcc-%s@example.net>", c15Words[rng.Intn(5)])
	}

	m.Subject = "subject " + c15Phrase(rng)

	switch rng.Intn(4) {
	case 0:
		m.XTag = c15Phrase(rng) + " tagged"
	case 1:
		m.XTag = "-"
	}

	m.Body = "body " + c15Phrase(rng)

	// words outside ASCII (UTF-8 in the message), for searches that name another charset
	for _, w := range c15Accented {
		if rng.Intn(3) == 0 {
			m.Body += " " + w
		}
	}
	m.HasDate = true
	m.SentY, m.SentM, m.SentD = 2006, time.January, 2+rng.Intn(5)
	// internal dates in several zones, at the edges of the day: "disregarding time and timezone" refers to the
	// date as the server reports it in INTERNALDATE, which is what the evaluator uses
	zoneOffsets := []int{0, 0, 2 * 3600, -5 * 3600, 13 * 3600, -(9*3600 + 1800)}
	off := zoneOffsets[rng.Intn(len(zoneOffsets))]
	m.Internal = time.Date(2006, time.January, 2+rng.Intn(5), []int{0, 12, 23}[rng.Intn(3)], []int{0, 30, 59}[rng.Intn(3)], []int{0, 59}[rng.Intn(2)], 0, time.FixedZone("", off))

	for _, f := range []string{`\Seen`, `\Answered`, `\Flagged`, `\Deleted`, `\Draft`, "kwone", "KwTwo"} {
		if rng.Intn(3) == 0 {
			m.Flags = append(m.Flags, f)
		}
	}

	var b strings.Builder

	fmt.Fprintf(&b, "From: %s\r\n", m.From)
	fmt.Fprintf(&b, "To: %s\r\n", m.To)

	if m.Cc != "" {
		fmt.Fprintf(&b, "Cc: %s\r\n", m.Cc)
	}

	if m.Bcc != "" {
		fmt.Fprintf(&b, "Bcc: %s\r\n", m.Bcc)
	}

	// a folded subject: the second half sits on a continuation line
	if words := strings.Fields(m.Subject); len(words) >= 3 && rng.Intn(2) == 0 {
		fmt.Fprintf(&b, "Subject: %s\r\n %s\r\n", strings.Join(words[:2], " "), strings.Join(words[2:], " "))
	} else {
		fmt.Fprintf(&b, "Subject: %s\r\n", m.Subject)
	}

	hour := []int{0, 9, 23}[rng.Intn(3)]
	zone := c15Zones[rng.Intn(len(c15Zones))]
	wd := time.Date(m.SentY, m.SentM, m.SentD, 0, 0, 0, 0, time.UTC).Weekday().String()[:3]
	// (APPEND refuses messages without a Date header, so every message has one)
	fmt.Fprintf(&b, "Date: %s, %02d Jan %d %02d:%02d:00 %s\r\n", wd, m.SentD, m.SentY, hour, rng.Intn(60), zone)
	fmt.Fprintf(&b, "Message-Id: <%s@verif.example>\r\n", marker)

	switch m.XTag {
	case "":
	case "-":
		b.WriteString("X-Tag:\r\n")
	default:
		fmt.Fprintf(&b, "X-Tag: %s\r\n", m.XTag)
	}

	fmt.Fprintf(&b, "%s: %s\r\n", markerHeader, marker)
	b.WriteString("\r\n")
	b.WriteString(m.Body + "\r\n")

	for i := 0; i < rng.Intn(4); i++ {
		b.WriteString("padding padding padding padding\r\n")
	}

	m.Literal = []byte(b.String())

	return m
}

func (m *c15Msg) headerValue(field string) (string, bool) {
	switch strings.ToLower(field) {
	case "from":
		return m.From, true
	case "to":
		return m.To, true
	case "cc":
		return m.Cc, m.Cc != ""
	case "bcc":
		return m.Bcc, m.Bcc != ""
	case "subject":
		return m.Subject, true
	case "x-tag":
		if m.XTag == "-" {
			return "", true
		}

		return m.XTag, m.XTag != ""
	case "x-absent":
		return "", false
	case strings.ToLower(markerHeader):
		return m.Marker, true
	}

	return "", false
}

// ---- key expressions --------------------------------------------------------------------

type c15Key struct {
	Op   string // ALL, flag ops, FROM.., HEADER, BODY, TEXT, LARGER, SMALLER, BEFORE.., SENT.., UID, SEQ, NOT, OR, LIST
	Str  string
	Str2 string
	Num  int
	Date time.Time
	Set  msgSet
	Sub  []*c15Key
}

func c15Date(t time.Time) string {
	return fmt.Sprintf("%d-%s-%d", t.Day(), t.Month().String()[:3], t.Year())
}

func (k *c15Key) String() string {
	switch k.Op {
	case "FROM", "TO", "CC", "BCC", "SUBJECT", "BODY", "TEXT", "KEYWORD", "UNKEYWORD":
		if k.Op == "KEYWORD" || k.Op == "UNKEYWORD" {
			return k.Op + " " + k.Str
		}

		return k.Op + " " + imapc.Quote(k.Str)
	case "HEADER":
		return "HEADER " + k.Str + " " + imapc.Quote(k.Str2)
	case "LARGER", "SMALLER":
		return fmt.Sprintf("%s %d", k.Op, k.Num)
	case "BEFORE", "ON", "SINCE", "SENTBEFORE", "SENTON", "SENTSINCE":
		return k.Op + " " + c15Date(k.Date)
	case "UID":
		return "UID " + k.Set.String()
	case "SEQ":
		return k.Set.String()
	case "NOT":
		return "NOT " + k.Sub[0].String()
	case "OR":
		return "OR " + k.Sub[0].String() + " " + k.Sub[1].String()
	case "LIST":
		parts := make([]string, len(k.Sub))
		for i, s := range k.Sub {
			parts[i] = s.String()
		}

		return "(" + strings.Join(parts, " ") + ")"
	default:
		return k.Op
	}
}

func (k *c15Key) class() string {
	switch k.Op {
	case "NOT", "OR", "LIST":
		parts := make([]string, len(k.Sub))
		for i, s := range k.Sub {
			parts[i] = s.class()
		}

		return k.Op + "(" + strings.Join(parts, ",") + ")"
	case "HEADER":
		if k.Str2 == "" {
			return "HEADER-empty"
		}
	}

	return k.Op
}

var c15FlagOps = map[string]struct {
	flag string
	want bool
}{
	"ANSWERED": {`\answered`, true}, "UNANSWERED": {`\answered`, false},
	"DELETED": {`\deleted`, true}, "UNDELETED": {`\deleted`, false},
	"DRAFT": {`\draft`, true}, "UNDRAFT": {`\draft`, false},
	"FLAGGED": {`\flagged`, true}, "UNFLAGGED": {`\flagged`, false},
	"SEEN": {`\seen`, true}, "UNSEEN": {`\seen`, false},
	"RECENT": {`\recent`, true}, "OLD": {`\recent`, false},
}

// eval: ok=false when the expression cannot be judged (n:* above the highest UID) or must fail.
func (k *c15Key) eval(m *c15Msg, idx int, all []*c15Msg) (match, judged bool) {
	contains := func(hay, needle string) bool {
		return strings.Contains(strings.ToLower(hay), strings.ToLower(needle))
	}

	if fo, ok := c15FlagOps[k.Op]; ok {
		return m.VFlags[fo.flag] == fo.want, true
	}

	switch k.Op {
	case "ALL":
		return true, true
	case "NEW":
		return m.VFlags[`\recent`] && !m.VFlags[`\seen`], true
	case "KEYWORD":
		return m.VFlags[strings.ToLower(k.Str)], true
	case "UNKEYWORD":
		return !m.VFlags[strings.ToLower(k.Str)], true
	case "FROM", "TO", "CC", "BCC", "SUBJECT":
		v, _ := m.headerValue(k.Op)
		return contains(v, k.Str), true
	case "HEADER":
		v, has := m.headerValue(k.Str)
		return has && contains(v, k.Str2), true
	case "BODY":
		_, body, _ := strings.Cut(string(m.Literal), "\r\n\r\n")
		return contains(body, k.Str), true
	case "TEXT":
		return contains(string(m.Literal), k.Str), true
	case "LARGER":
		return m.Size > k.Num, true
	case "SMALLER":
		return m.Size < k.Num, true
	case "BEFORE", "ON", "SINCE":
		d := time.Date(m.IntY, m.IntM, m.IntD, 0, 0, 0, 0, time.UTC)

		switch k.Op {
		case "BEFORE":
			return d.Before(k.Date), true
		case "ON":
			return d.Equal(k.Date), true
		default:
			return !d.Before(k.Date), true
		}
	case "SENTBEFORE", "SENTON", "SENTSINCE":
		if !m.HasDate {
			return false, true
		}

		d := time.Date(m.SentY, m.SentM, m.SentD, 0, 0, 0, 0, time.UTC)

		switch k.Op {
		case "SENTBEFORE":
			return d.Before(k.Date), true
		case "SENTON":
			return d.Equal(k.Date), true
		default:
			return !d.Before(k.Date), true
		}
	case "SEQ":
		pos, ok := resolveSeq(k.Set, len(all))
		if !ok {
			return false, false
		}

		return pos[idx], true
	case "UID":
		uids := make([]uint32, len(all))
		for i, x := range all {
			uids[i] = x.UID
		}

		pos, judged, invalid := resolveUID(k.Set, uids)
		if !judged || invalid {
			return false, false
		}

		return pos[idx], true
	case "NOT":
		v, j := k.Sub[0].eval(m, idx, all)
		return !v, j
	case "OR":
		a, ja := k.Sub[0].eval(m, idx, all)
		b, jb := k.Sub[1].eval(m, idx, all)

		return a || b, ja && jb
	case "LIST":
		res := true

		for _, s := range k.Sub {
			v, j := s.eval(m, idx, all)
			if !j {
				return false, false
			}

			res = res && v
		}

		return res, true
	}

	return false, false
}

func genC15Key(rng *rand.Rand, depth int, all []*c15Msg) *c15Key {
	if depth > 0 && rng.Intn(3) == 0 {
		switch rng.Intn(3) {
		case 0:
			return &c15Key{Op: "NOT", Sub: []*c15Key{genC15Key(rng, depth-1, all)}}
		case 1:
			return &c15Key{Op: "OR", Sub: []*c15Key{genC15Key(rng, depth-1, all), genC15Key(rng, depth-1, all)}}
		default:
			n := 1 + rng.Intn(3)
			k := &c15Key{Op: "LIST"}

			for i := 0; i < n; i++ {
				k.Sub = append(k.Sub, genC15Key(rng, depth-1, all))
			}

			return k
		}
	}

	needle := func() string {
		w := c15Words[rng.Intn(len(c15Words))]

		switch rng.Intn(8) {
		case 0:
			return strings.ToUpper(w)
		case 1:
			return w[1:4]
		case 2:
			return "zulu"
		case 3:
			return w + " " + c15Words[rng.Intn(len(c15Words))]
		case 4:
			return "@example"
		}

		return w
	}

	day := func() time.Time { return time.Date(2006, time.January, 1+rng.Intn(7), 0, 0, 0, 0, time.UTC) }

	uids := make([]uint32, len(all))
	for i, x := range all {
		uids[i] = x.UID
	}

	switch k := rng.Intn(30); {
	case k < 6:
		ops := []string{"ANSWERED", "UNANSWERED", "DELETED", "UNDELETED", "DRAFT", "UNDRAFT", "FLAGGED", "UNFLAGGED", "SEEN", "UNSEEN", "RECENT", "OLD", "NEW", "ALL"}
		return &c15Key{Op: ops[rng.Intn(len(ops))]}
	case k < 8:
		return &c15Key{Op: []string{"KEYWORD", "UNKEYWORD"}[rng.Intn(2)], Str: []string{"kwone", "KWONE", "kwtwo", "kwnone"}[rng.Intn(4)]}
	case k < 13:
		return &c15Key{Op: []string{"FROM", "TO", "CC", "BCC", "SUBJECT"}[rng.Intn(5)], Str: needle()}
	case k < 16:
		field := []string{"X-Tag", "x-tag", "Subject", "Cc", "X-Absent", "FROM"}[rng.Intn(6)]
		val := needle()

		if rng.Intn(3) == 0 {
			val = ""
		}

		return &c15Key{Op: "HEADER", Str: field, Str2: val}
	case k < 19:
		return &c15Key{Op: []string{"BODY", "TEXT"}[rng.Intn(2)], Str: needle()}
	case k < 21:
		size := 200 + rng.Intn(400)
		if len(all) > 0 && rng.Intn(2) == 0 {
			size = all[rng.Intn(len(all))].Size + rng.Intn(3) - 1
		}

		return &c15Key{Op: []string{"LARGER", "SMALLER"}[rng.Intn(2)], Num: size}
	case k < 24:
		return &c15Key{Op: []string{"BEFORE", "ON", "SINCE"}[rng.Intn(3)], Date: day()}
	case k < 27:
		return &c15Key{Op: []string{"SENTBEFORE", "SENTON", "SENTSINCE"}[rng.Intn(3)], Date: day()}
	case k < 28 && len(all) > 0:
		// only sets that RFC 3501 lets succeed
		for try := 0; try < 20; try++ {
			s := genMsgSet(rng, len(all), uids, false)
			if _, ok := resolveSeq(s, len(all)); ok {
				return &c15Key{Op: "SEQ", Set: s}
			}
		}

		return &c15Key{Op: "ALL"}
	default:
		for try := 0; try < 20; try++ {
			s := genMsgSet(rng, len(all), uids, true)
			if _, judged, invalid := resolveUID(s, uids); judged && !invalid {
				return &c15Key{Op: "UID", Set: s}
			}
		}

		return &c15Key{Op: "ALL"}
	}
}

// ---- the check ---------------------------------------------------------------------------

func runC15(r *ev.Run) {
	r.SetRule("mailboxes of 0-14 generated messages whose flags, size, internal date, Date header, address/subject/X-Tag headers (present, absent, empty, folded) and body words are known by construction; the session's view (sequence numbers, UIDs, flags incl. \\Recent, RFC822.SIZE, INTERNALDATE) is read with FETCH, also after another session changed flags, expunged or appended and the observer was told (NOOP), and while a message that another session expunged or the connector deleted is still in the observer's view because it has not been told. Random key expressions (all RFC 3501 keys; NOT/OR/parenthesised lists to depth 3; 1-3 juxtaposed keys; optional CHARSET; strings outside ASCII sent as literals in UTF-8 and ISO-8859-1) are evaluated by the harness over that view and compared with SEARCH (exact ascending list, no duplicates) and UID SEARCH (the UIDs of the same messages); metamorphic relations NOT k = ALL minus k, OR a b = a union b, (a b) = a intersect b are checked on the server's own answers. distinct = distinct expression shapes x result-size classes")
	r.Assume("the process-wide local time zone of the server is set to a non-UTC offset chosen by the seed; internal dates are given in several zones; BEFORE/ON/SINCE are evaluated on the calendar day of INTERNALDATE as the server reports it in FETCH, SENT* keys on the date of the Date header as written; the X-Pm-Gluon-Id line the server adds is never searched for")

	// The server runs in this process: give the process a local time zone other than UTC (what a desktop has).
	// Nothing a client sees may depend on it. Set once, before any server or goroutine of this check starts.
	zones := []int{2 * 3600, -5 * 3600, 13 * 3600, -11 * 3600, 5*3600 + 1800}
	off := zones[r.Rand("process-zone").Intn(len(zones))]
	time.Local = time.FixedZone(fmt.Sprintf("verif%+d", off/60), off)
	r.Set("process_local_zone_offset_seconds", off)

	boxes := r.Pick(120, 1500)

	ev.Parallel(boxes, 10, func(i int) {
		label := fmt.Sprintf("box-%d", i)
		if r.OnlyCase != "" && r.OnlyCase != label {
			return
		}

		c15Box(r, label, r.Pick(40, 60))
	})
}

type c15Case struct {
	r     *ev.Run
	label string
	s     *srv.Server
	c     *imapc.Conn
	log   []string
	fail  bool
	msgs  []*c15Msg // the session's view in sequence order
	byMk  map[string]*c15Msg
}

func (c *c15Case) logf(f string, a ...any) {
	c.log = append(c.log, fmt.Sprintf(f, a...))
	if len(c.log) > 200 {
		c.log = c.log[len(c.log)-200:]
	}
}

func (c *c15Case) violate(sig, what string) {
	if c.fail {
		return
	}

	c.fail = true

	var view []string
	for _, m := range c.msgs {
		view = append(view, fmt.Sprintf("%d uid=%d size=%d flags=%v internal=%s (reported day %d) sent=%d-Jan from=%q to=%q cc=%q bcc=%q subject=%q xtag=%q body=%q", m.Seq, m.UID, m.Size, keysOf(m.VFlags), m.Internal.Format(time.RFC3339), m.IntD, m.SentD, m.From, m.To, m.Cc, m.Bcc, m.Subject, m.XTag, m.Body))
	}

	c.r.Violate(sig, what, c.label, map[string]any{"history": c.log, "view": view})
}

func keysOf(m map[string]bool) []string {
	var out []string
	for k, v := range m {
		if v {
			out = append(out, k)
		}
	}

	sort.Strings(out)

	return out
}

// readView learns the session's view.
func (c *c15Case) readView() bool {
	c.msgs = nil

	res := c.c.Cmd("FETCH 1:* (UID FLAGS RFC822.SIZE INTERNALDATE BODY.PEEK[HEADER.FIELDS (" + markerHeader + ")])")
	if !res.OK() {
		// empty mailbox: FETCH 1:* fails
		return true
	}

	type row struct {
		seq int
		m   *c15Msg
	}

	var rows []row

	for _, u := range res.Untagged {
		if u.Kind != "FETCH" {
			continue
		}

		items := u.FetchItems()

		var mk string

		for key, v := range items {
			if strings.HasPrefix(key, "BODY[HEADER.FIELDS") {
				mk = markerFromHeaderFields(v.Str)
			}
		}

		m := c.byMk[mk]
		if m == nil {
			c.violate("C15 unknown-message", fmt.Sprintf("message %d carries the unknown marker %q", u.Num, mk))
			return false
		}

		cp := *m
		cp.Seq = int(u.Num)

		uid, _ := strconv.ParseUint(items["UID"].Str, 10, 32)
		cp.UID = uint32(uid)
		cp.Size, _ = strconv.Atoi(items["RFC822.SIZE"].Str)
		cp.VFlags = map[string]bool{}

		for _, f := range items["FLAGS"].Strings() {
			cp.VFlags[strings.ToLower(f)] = true
		}

		if t, err := time.Parse("02-Jan-2006 15:04:05 -0700", strings.TrimSpace(items["INTERNALDATE"].Str)); err == nil {
			if !t.Equal(m.Internal) {
				c.violate("C15 internaldate-differs", fmt.Sprintf("message %s was appended with internal date %s and is served with %s", mk, m.Internal, t))
				return false
			}

			cp.IntY, cp.IntM, cp.IntD = t.Year(), t.Month(), t.Day()
		}

		rows = append(rows, row{cp.Seq, &cp})
	}

	sort.Slice(rows, func(i, j int) bool { return rows[i].seq < rows[j].seq })

	for _, rw := range rows {
		c.msgs = append(c.msgs, rw.m)
	}

	return true
}

func (c *c15Case) search(uid bool, expr string) ([]uint64, *imapc.Result) {
	cmd := "SEARCH " + expr
	if uid {
		cmd = "UID " + cmd
	}

	res := c.c.Cmd(cmd)

	return searchNums(res), res
}

func sameNums(a []uint64, b []uint64) bool {
	if len(a) != len(b) {
		return false
	}

	for i := range a {
		if a[i] != b[i] {
			return false
		}
	}

	return true
}

func c15Box(r *ev.Run, label string, queries int) {
	rng := r.Rand(label)

	s, err := startServer(r, label, nil)
	if err != nil {
		r.Inconclusive("%s: %v", label, err)
		return
	}

	c := &c15Case{r: r, label: label, s: s, byMk: map[string]*c15Msg{}}

	defer func() {
		if c.c != nil {
			c.c.Close()
		}

		finishServer(r, s, label, func() []string { return c.log })
	}()

	setup := s.MustLogin("setup")
	n := rng.Intn(15)

	if rng.Intn(10) == 0 {
		n = 0
	}

	for i := 0; i < n; i++ {
		m := genC15Msg(rng, fmt.Sprintf("%s-m%d", label, i+1))
		c.byMk[m.Marker] = m

		res := setup.Cmd(fmt.Sprintf("APPEND INBOX (%s) \"%s\" ", strings.Join(m.Flags, " "), m.Internal.Format("02-Jan-2006 15:04:05 -0700")), imapc.Lit(m.Literal))
		if !res.OK() {
			r.Inconclusive("%s: APPEND refused: %s", label, res)
			return
		}
	}

	// some messages are old (not \Recent) for the observer: a first selection takes the \Recent flags
	if rng.Intn(2) == 0 {
		setup.Cmd("SELECT INBOX")
		setup.Cmd("CLOSE")

		for i := 0; i < rng.Intn(3); i++ {
			m := genC15Msg(rng, fmt.Sprintf("%s-late%d", label, i+1))
			c.byMk[m.Marker] = m
			setup.Cmd(fmt.Sprintf("APPEND INBOX (%s) \"%s\" ", strings.Join(m.Flags, " "), m.Internal.Format("02-Jan-2006 15:04:05 -0700")), imapc.Lit(m.Literal))
		}
	}

	if c.c, err = s.Login("obs"); err != nil {
		r.Inconclusive("%s: %v", label, err)
		return
	}

	if rng.Intn(2) == 0 {
		c.c.Cmd("SELECT INBOX")
	} else {
		c.c.Cmd("EXAMINE INBOX")
	}

	if !c.readView() {
		return
	}

	r.Eval(1)

	for q := 0; q < queries && !c.fail; q++ {
		// now and then the view moves
		if q > 0 && rng.Intn(12) == 0 && len(c.msgs) > 0 {
			pos := 1 + rng.Intn(len(c.msgs))

			switch rng.Intn(3) {
			case 0:
				res := setup.Cmd("SELECT INBOX")
				_ = res
				setup.Cmdf(`STORE %d %sFLAGS (%s)`, pos, []string{"+", "-"}[rng.Intn(2)], []string{`\Seen`, `\Flagged`, "kwone", `\Answered \Deleted`}[rng.Intn(4)])
				setup.Cmd("CLOSE")
				c.logf("another session changed flags of message %d", pos)
			case 1:
				setup.Cmd("SELECT INBOX")
				setup.Cmdf(`STORE %d +FLAGS (\Deleted)`, pos)
				setup.Cmd("EXPUNGE")
				setup.Cmd("UNSELECT")
				c.logf("another session expunged what it saw as message %d", pos)
			default:
				m := genC15Msg(rng, fmt.Sprintf("%s-x%d", label, q))
				c.byMk[m.Marker] = m
				setup.Cmd(fmt.Sprintf("APPEND INBOX (%s) \"%s\" ", strings.Join(m.Flags, " "), m.Internal.Format("02-Jan-2006 15:04:05 -0700")), imapc.Lit(m.Literal))
				c.logf("another session appended %s", m.Marker)
			}

			if !mustQuiesce(r, s, 0, label) {
				return
			}

			// the observer is told (its view is then read again)
			c.c.Cmd("NOOP")

			if !c.readView() {
				return
			}
		} else if q > 0 && rng.Intn(15) == 0 && len(c.msgs) > 1 {
			// A message disappears elsewhere and the observer is NOT told: it stays in the observer's
			// view (SEARCH must not announce the removal) and must still be searchable there.
			victim := c.msgs[rng.Intn(len(c.msgs))]

			// (the other session only expunges a message that already carries \Deleted in the observer's
			// view: whether a flag change the observer has not been told of belongs to its view is not
			// something this check wants to decide)
			if !victim.VFlags[`\deleted`] || rng.Intn(2) == 0 {
				if mi, ok := s.Users[0].Conn.FindMessage(markerHeader + ": " + victim.Marker + "\r\n"); ok {
					s.Users[0].Conn.RemoteDeleteMessage(mi.ID)
					ack := s.Users[0].Conn.Apply(imap.NewMessagesDeleted(mi.ID), srv.UpdateTimeout)
					c.logf("the connector deleted %s (message %d of the view) -> %v; the observer is not told", victim.Marker, victim.Seq, ack.Err)
				}
			} else {
				setup.Cmd("SELECT INBOX")
				setup.Cmdf("UID EXPUNGE %d", victim.UID)
				setup.Cmd("UNSELECT")
				c.logf("another session expunged %s (message %d of the view); the observer is not told", victim.Marker, victim.Seq)
			}

			if !mustQuiesce(r, s, 0, label) {
				return
			}

			r.Count("queries_on_a_view_with_an_unannounced_removal", 1)
		}

		// searches whose string is sent in a named charset (as a literal)
		if rng.Intn(8) == 0 {
			word := c15Accented[rng.Intn(len(c15Accented))]
			if rng.Intn(4) == 0 {
				rs := []rune(word)
				word = string(rs[1:]) // a substring that still holds the accented character
			}

			op := []string{"TEXT", "BODY", "TEXT", "SUBJECT"}[rng.Intn(4)]
			cs := []string{"UTF-8", "ISO-8859-1", "iso-8859-1", "utf-8"}[rng.Intn(4)]
			neg := rng.Intn(3) == 0

			raw := []byte(word)
			if strings.HasPrefix(strings.ToLower(cs), "iso") {
				raw = latin1(word)
			}

			key := &c15Key{Op: op, Str: word}
			top := key

			prefix := "SEARCH CHARSET " + cs + " "
			if neg {
				top = &c15Key{Op: "NOT", Sub: []*c15Key{key}}
				prefix += "NOT "
			}

			var wantSeq, wantUID []uint64

			for i, m := range c.msgs {
				if v, _ := top.eval(m, i, c.msgs); v {
					wantSeq = append(wantSeq, uint64(m.Seq))
					wantUID = append(wantUID, uint64(m.UID))
				}
			}

			res := c.c.Cmd(prefix+op+" ", imapc.Lit(raw))
			got := searchNums(res)
			c.logf("%s%s {%q} -> %s %v", prefix, op, raw, res.Status, got)
			r.Distinct(fmt.Sprintf("charset %s %s neg=%v n=%s", strings.ToUpper(cs), op, neg, lenClass(len(wantSeq))))

			if !res.OK() || !sameNums(got, wantSeq) {
				c.violate("C15 charset-search-differs "+strings.ToUpper(cs)+" "+op, fmt.Sprintf("%s%s {%q} answered %s %v; the messages whose text holds %q are %v", prefix, op, raw, res.Status, got, word, wantSeq))
				return
			}

			resU := c.c.Cmd("UID "+prefix+op+" ", imapc.Lit(raw))
			if gotU := searchNums(resU); !resU.OK() || !sameNums(gotU, wantUID) {
				c.violate("C15 charset-uid-search-differs "+strings.ToUpper(cs)+" "+op, fmt.Sprintf("UID %s%s {%q} answered %s %v, expected UIDs %v", prefix, op, raw, resU.Status, gotU, wantUID))
				return
			}

			continue
		}

		nKeys := 1 + rng.Intn(3)

		var keys []*c15Key
		for i := 0; i < nKeys; i++ {
			keys = append(keys, genC15Key(rng, 3, c.msgs))
		}

		top := &c15Key{Op: "LIST", Sub: keys}

		parts := make([]string, len(keys))
		for i, k := range keys {
			parts[i] = k.String()
		}

		expr := strings.Join(parts, " ")

		if rng.Intn(8) == 0 {
			expr = "CHARSET " + []string{"UTF-8", "US-ASCII", "utf-8"}[rng.Intn(3)] + " " + expr
		}

		var (
			wantSeq, wantUID []uint64
			judged           = true
		)

		for i, m := range c.msgs {
			v, j := top.eval(m, i, c.msgs)
			if !j {
				judged = false
				break
			}

			if v {
				wantSeq = append(wantSeq, uint64(m.Seq))
				wantUID = append(wantUID, uint64(m.UID))
			}
		}

		if !judged {
			continue
		}

		gotSeq, res := c.search(false, expr)
		c.logf("SEARCH %s -> %s %v", expr, res.Status, gotSeq)

		shapes := make([]string, len(keys))
		for i, k := range keys {
			shapes[i] = k.class()
		}

		r.Distinct(fmt.Sprintf("%s n=%s", strings.Join(shapes, " "), lenClass(len(wantSeq))))

		if !res.OK() {
			c.violate("C15 search-refused "+top.Sub[0].class(), fmt.Sprintf("SEARCH %s was answered %s %s; the expression is valid for this view of %d messages", expr, res.Status, res.Text, len(c.msgs)))
			return
		}

		if !sameNums(gotSeq, wantSeq) {
			c.violate("C15 search-differs "+strings.Join(shapes, " "), fmt.Sprintf("SEARCH %s returned %v; evaluating the expression over the session's view gives %v", expr, gotSeq, wantSeq))
			return
		}

		gotUID, res := c.search(true, expr)
		if !res.OK() || !sameNums(gotUID, wantUID) {
			c.violate("C15 uid-search-differs "+strings.Join(shapes, " "), fmt.Sprintf("UID SEARCH %s answered %s %v; SEARCH returned %v which are UIDs %v", expr, res.Status, gotUID, gotSeq, wantUID))
			return
		}

		// metamorphic relations on the server's own answers
		if rng.Intn(4) == 0 && len(keys) >= 1 {
			a := keys[0].String()
			all, _ := c.search(false, "ALL")
			ra, _ := c.search(false, a)
			rnot, resNot := c.search(false, "NOT "+a)

			if resNot.OK() {
				in := map[uint64]bool{}
				for _, x := range ra {
					in[x] = true
				}

				var compl []uint64

				for _, x := range all {
					if !in[x] {
						compl = append(compl, x)
					}
				}

				if !sameNums(rnot, compl) {
					c.violate("C15 not-is-not-complement "+keys[0].class(), fmt.Sprintf("SEARCH NOT %s returned %v although SEARCH %s returned %v of %v", a, rnot, a, ra, all))
					return
				}

				r.Count("metamorphic_not_checked", 1)
			}

			if len(keys) >= 2 {
				b := keys[1].String()
				rb, _ := c.search(false, b)
				ror, resOr := c.search(false, "OR "+a+" "+b)
				rand2, resAnd := c.search(false, "("+a+" "+b+")")

				inA, inB := map[uint64]bool{}, map[uint64]bool{}
				for _, x := range ra {
					inA[x] = true
				}

				for _, x := range rb {
					inB[x] = true
				}

				var union, inter []uint64

				for _, x := range all {
					if inA[x] || inB[x] {
						union = append(union, x)
					}

					if inA[x] && inB[x] {
						inter = append(inter, x)
					}
				}

				if resOr.OK() && !sameNums(ror, union) {
					c.violate("C15 or-is-not-union", fmt.Sprintf("SEARCH OR %s %s returned %v; the two alone returned %v and %v", a, b, ror, ra, rb))
					return
				}

				if resAnd.OK() && !sameNums(rand2, inter) {
					c.violate("C15 list-is-not-intersection", fmt.Sprintf("SEARCH (%s %s) returned %v; the two alone returned %v and %v", a, b, rand2, ra, rb))
					return
				}

				r.Count("metamorphic_or_and_checked", 1)
			}
		}
	}

	if !c.fail && r.WantSample() {
		l := c.log
		if len(l) > 30 {
			l = l[:30]
		}

		r.Sample(map[string]any{"case": label, "messages": len(c.msgs), "first_events": l})
	}
}

package checks

import (
	"fmt"
	"math/big"
	"math/rand"
	"sort"
	"strconv"
	"strings"

	"verifharness/ev"
	"verifharness/imapc"
	"verifharness/srv"
)

func init() { register("C16", "exploration", runC16) }

// ---- message-set model ---------------------------------------------------------------------

type setNum struct {
	Star bool
	Text string   // as written
	Val  *big.Int // nil for *
}

type setRange struct{ A, B setNum }

type msgSet struct {
	Ranges []setRange
}

func (s msgSet) String() string {
	var parts []string

	for _, r := range s.Ranges {
		if r.A.Text == r.B.Text && r.A.Star == r.B.Star && r.B.Val == r.A.Val {
			parts = append(parts, r.A.Text)
		} else {
			parts = append(parts, r.A.Text+":"+r.B.Text)
		}
	}

	return strings.Join(parts, ",")
}

var two32 = new(big.Int).Lsh(big.NewInt(1), 32)

// syntacticallyValid: nz-number is 0 < n < 2^32.
func (n setNum) syntacticallyValid() bool {
	return n.Star || (n.Val.Sign() > 0 && n.Val.Cmp(two32) < 0)
}

// resolveSeq returns the selected 0-based positions, or ok=false when RFC 3501 demands failure.
func resolveSeq(s msgSet, n int) (pos map[int]bool, ok bool) {
	pos = map[int]bool{}

	for _, r := range s.Ranges {
		ends := [2]int{}

		for i, e := range []setNum{r.A, r.B} {
			switch {
			case e.Star:
				if n == 0 {
					return nil, false
				}

				ends[i] = n
			case !e.Val.IsInt64() || e.Val.Int64() < 1 || e.Val.Int64() > int64(n):
				return nil, false
			default:
				ends[i] = int(e.Val.Int64())
			}
		}

		lo, hi := ends[0], ends[1]
		if lo > hi {
			lo, hi = hi, lo
		}

		for p := lo; p <= hi; p++ {
			pos[p-1] = true
		}
	}

	return pos, true
}

// resolveUID returns the selected positions; judged=false for the n:* case the property excludes;
// invalidSyntax reports numbers outside nz-number (BAD is then also acceptable).
func resolveUID(s msgSet, uids []uint32) (pos map[int]bool, judged, invalidSyntax bool) {
	pos = map[int]bool{}
	judged = true

	var max uint32
	for _, u := range uids {
		if u > max {
			max = u
		}
	}

	for _, r := range s.Ranges {
		if !r.A.syntacticallyValid() || !r.B.syntacticallyValid() {
			invalidSyntax = true
		}

		if len(uids) == 0 {
			continue
		}

		val := func(e setNum) *big.Int {
			if e.Star {
				return big.NewInt(int64(max))
			}

			return e.Val
		}

		a, b := val(r.A), val(r.B)

		if (r.A.Star != r.B.Star) && (r.A.Star && b.Cmp(a) > 0 || r.B.Star && a.Cmp(b) > 0) {
			// n:* (or *:n) with n above the highest UID: deliberately not judged.
			judged = false
			continue
		}

		lo, hi := a, b
		if lo.Cmp(hi) > 0 {
			lo, hi = hi, lo
		}

		for i, u := range uids {
			bu := big.NewInt(int64(u))
			if bu.Cmp(lo) >= 0 && bu.Cmp(hi) <= 0 {
				pos[i] = true
			}
		}
	}

	return pos, judged, invalidSyntax
}

func bigNum(text string) setNum {
	v, _ := new(big.Int).SetString(text, 10)
	return setNum{Text: text, Val: v}
}

func genSetNum(rng *rand.Rand, n int, uids []uint32, uid bool) setNum {
	if rng.Intn(6) == 0 {
		return setNum{Star: true, Text: "*"}
	}

	inRange := func() string {
		if uid && len(uids) > 0 {
			// existing UID, or a value in a gap / just outside
			u := int64(uids[rng.Intn(len(uids))]) + int64(rng.Intn(3)) - 1
			if u < 1 {
				u = 1
			}

			return fmt.Sprint(u)
		}

		if n == 0 {
			return "1"
		}

		return fmt.Sprint(1 + rng.Intn(n))
	}

	switch rng.Intn(20) {
	case 0:
		return bigNum("0")
	case 1:
		return bigNum(fmt.Sprint(n + 1))
	case 2:
		return bigNum(fmt.Sprint(n + 2 + rng.Intn(5)))
	case 3:
		return bigNum([]string{"2147483647", "2147483648", "2147483649"}[rng.Intn(3)])
	case 4:
		return bigNum([]string{"4294967295", "4294967296", "4294967297"}[rng.Intn(3)])
	case 5:
		// 2^32 + k for a small k that would alias an existing message after truncation
		return bigNum(new(big.Int).Add(two32, big.NewInt(int64(1+rng.Intn(n+2)))).String())
	case 6:
		return bigNum([]string{"9223372036854775807", "9223372036854775808", "9223372036854775809"}[rng.Intn(3)])
	case 7:
		k := new(big.Int).Lsh(big.NewInt(1), 64)
		return bigNum(k.Add(k, big.NewInt(int64(rng.Intn(n+2)))).String())
	case 8:
		return bigNum("1000000000000000000000000000000")
	case 10:
		// target + k*2^w: what a w-bit accumulator that wraps k times would turn into a number of the view
		w := []uint{31, 32, 63, 64}[rng.Intn(4)]
		k := new(big.Int).Lsh(big.NewInt(int64(1+rng.Intn(12))), w)
		t, _ := new(big.Int).SetString(inRange(), 10)
		if rng.Intn(4) == 0 {
			t = big.NewInt(int64(rng.Intn(n + 2)))
		}

		return bigNum(k.Add(k, t).String())
	case 11:
		// the decimal text of a boundary with its last digit varied and up to two more digits behind it:
		// the shapes an overflow guard of the form "acc > (MAX-digit)/10" has to get right
		b := []string{"2147483647", "4294967295", "9223372036854775807", "18446744073709551615"}[rng.Intn(4)]
		b = b[:len(b)-1] + fmt.Sprint(rng.Intn(10))
		for i := rng.Intn(3); i > 0; i-- {
			b += fmt.Sprint(rng.Intn(10))
		}

		return bigNum(b)
	case 9:
		return bigNum("1")
	default:
		return bigNum(inRange())
	}
}

func genMsgSet(rng *rand.Rand, n int, uids []uint32, uid bool) msgSet {
	var s msgSet

	k := 1
	if rng.Intn(3) == 0 {
		k = 2 + rng.Intn(2)
	}

	for i := 0; i < k; i++ {
		a := genSetNum(rng, n, uids, uid)
		b := a

		if rng.Intn(2) == 0 {
			b = genSetNum(rng, n, uids, uid)
		}

		s.Ranges = append(s.Ranges, setRange{a, b})
	}

	return s
}

func posList(m map[int]bool) []int {
	var out []int
	for p := range m {
		out = append(out, p)
	}

	sort.Ints(out)

	return out
}

func numClass(e setNum, n int) string {
	switch {
	case e.Star:
		return "*"
	case e.Val.Sign() == 0:
		return "0"
	case e.Val.Cmp(two32) >= 0:
		if e.Val.BitLen() > 64 {
			return ">=2^64"
		}

		if e.Val.BitLen() > 63 {
			return "2^63..2^64"
		}

		return "2^32..2^63"
	case e.Val.Cmp(big.NewInt(int64(n))) > 0:
		if e.Val.Cmp(big.NewInt(1<<31-1)) >= 0 {
			return "2^31..2^32"
		}

		return ">n"
	default:
		return "in"
	}
}

func setClass(s msgSet, n int) string {
	var parts []string

	for _, r := range s.Ranges {
		if r.A.Text == r.B.Text {
			parts = append(parts, numClass(r.A, n))
		} else {
			parts = append(parts, numClass(r.A, n)+":"+numClass(r.B, n))
		}
	}

	return strings.Join(parts, ",")
}

// ---- the check -----------------------------------------------------------------------------

type c16Msg struct {
	UID    uint32
	Marker string
}

type c16Case struct {
	r     *ev.Run
	label string
	rng   *rand.Rand
	s     *srv.Server
	c     *imapc.Conn // selected on Src
	d     *imapc.Conn // works on Dst
	view  []c16Msg
	log   []string
	bad   bool
}

func (c *c16Case) logf(f string, a ...any) {
	c.log = append(c.log, fmt.Sprintf(f, a...))
	if len(c.log) > 120 {
		c.log = c.log[len(c.log)-120:]
	}
}

func (c *c16Case) violate(sig, what string) {
	c.bad = true
	c.r.Violate(sig, what, c.label, map[string]any{"view_uids": c.uids(), "log": c.log})
}

func (c *c16Case) uids() []uint32 {
	out := make([]uint32, len(c.view))
	for i, m := range c.view {
		out[i] = m.UID
	}

	return out
}

// refresh re-reads the view of the selected mailbox (a FETCH never changes the view).
func (c *c16Case) refresh() ([]c16Msg, []string, bool) {
	v, err := viewOn(c.c, "", false, false)
	if err != nil {
		c.violate("C16 view-read-failed", fmt.Sprintf("FETCH 1:* failed: %v", err))
		return nil, nil, false
	}

	var (
		out   []c16Msg
		flags []string
	)

	for _, m := range v.Msgs {
		out = append(out, c16Msg{UID: m.UID, Marker: m.Marker})
		flags = append(flags, m.FlagKey())
	}

	return out, flags, true
}

func (c *c16Case) dstMarkers() ([]string, bool) {
	v, err := viewOn(c.d, "Dst", false, true)
	if err != nil {
		c.violate("C16 view-read-failed", fmt.Sprintf("reading Dst failed: %v", err))
		return nil, false
	}

	m := v.Markers()
	sort.Strings(m)

	return m, true
}

func (c *c16Case) clearDst() {
	if res := c.d.Cmd("SELECT Dst"); !res.OK() {
		return
	}

	if ex, _, _ := selectInfo(c.d.Cmd("EXAMINE Dst")); ex > 0 {
		c.d.Cmd("SELECT Dst")
		c.d.Cmd(`STORE 1:* +FLAGS.SILENT (\Deleted)`)
		c.d.Cmd("EXPUNGE")
	}

	c.d.Cmd("UNSELECT")
}

func (c *c16Case) unchanged(beforeV []c16Msg, beforeF []string, cmd string) bool {
	v, f, ok := c.refresh()
	if !ok {
		return false
	}

	if fmt.Sprint(v) != fmt.Sprint(beforeV) || fmt.Sprint(f) != fmt.Sprint(beforeF) {
		c.violate("C16 failed-command-had-effect "+strings.Fields(cmd)[0], fmt.Sprintf("%q failed but the view changed: before %v %v, after %v %v", cmd, beforeV, beforeF, v, f))
		return false
	}

	if dm, ok := c.dstMarkers(); ok && len(dm) != 0 {
		c.violate("C16 failed-command-had-effect "+strings.Fields(cmd)[0], fmt.Sprintf("%q failed but Dst now holds %v", cmd, dm))
		return false
	}

	return true
}

func runC16(r *ev.Run) {
	r.SetRule("views of 0-12 messages with gaps in the UIDs; message sets built from single numbers, ranges in both orders, '*', unions, with numbers 0, 1, n, n+1, 2^31+-1, 2^32+-1, 2^32+k, 2^63+-1, 2^64+k, 10^30; used in FETCH, UID FETCH, STORE, UID STORE, COPY, UID COPY, MOVE, UID MOVE, SEARCH <set>, SEARCH UID <set>, UID SEARCH, UID EXPUNGE; the selected messages (or BAD and no effect) are compared with an RFC 3501 set resolver. thorough adds the exhaustive table for n<=4 over all sets of <=2 ranges with bounds in {1..n+2,*}. distinct = distinct (command, view-size class, set class, outcome) tuples")
	r.Assume("a UID range n:* whose n lies above the highest UID is generated but not judged (the property excludes it)",
		"for UID sets, numbers outside nz-number (0 or >= 2^32) may be answered BAD or resolved mathematically; they must never select a message outside the mathematical range")

	cases := r.Pick(40, 900)
	perCase := r.Pick(70, 220)

	ev.Parallel(cases, 12, func(i int) {
		label := fmt.Sprintf("view-%d", i)
		if r.OnlyCase != "" && r.OnlyCase != label {
			return
		}

		c16Run(r, label, -1, perCase, nil)
	})

	if r.Thorough() {
		for n := 0; n <= 4; n++ {
			n := n

			var sets []msgSet

			bounds := []setNum{{Star: true, Text: "*"}}
			for v := 1; v <= n+2; v++ {
				bounds = append(bounds, bigNum(fmt.Sprint(v)))
			}

			var ranges []setRange

			for _, a := range bounds {
				ranges = append(ranges, setRange{a, a})

				for _, b := range bounds {
					if a.Text != b.Text {
						ranges = append(ranges, setRange{a, b})
					}
				}
			}

			for _, r1 := range ranges {
				sets = append(sets, msgSet{Ranges: []setRange{r1}})

				for _, r2 := range ranges {
					sets = append(sets, msgSet{Ranges: []setRange{r1, r2}})
				}
			}

			label := fmt.Sprintf("exhaustive-n%d", n)
			if r.OnlyCase != "" && r.OnlyCase != label {
				continue
			}

			r.Count("exhaustive_sets_n"+fmt.Sprint(n), len(sets))
			c16Run(r, label, n, 0, sets)
		}

		r.Set("exhaustive_table", "all sets of <=2 ranges with bounds in {1..n+2,*} for n=0..4, in FETCH and UID FETCH")
	}
}

func c16Run(r *ev.Run, label string, forceN int, nCmds int, fixed []msgSet) {
	rng := r.Rand(label)

	s, err := startServer(r, label, nil)
	if err != nil {
		r.Inconclusive("%s: server start: %v", label, err)
		return
	}

	c := &c16Case{r: r, label: label, rng: rng, s: s}

	defer finishServer(r, s, label, func() []string { return c.log })
	c.c = s.MustLogin("c16")
	c.d = s.MustLogin("c16d")

	defer c.c.Close()
	defer c.d.Close()

	c.c.Cmd("CREATE Src")
	c.c.Cmd("CREATE Dst")

	n := forceN
	if n < 0 {
		n = rng.Intn(13)
	}

	extra := 0
	if n > 0 {
		extra = rng.Intn(4)
	}

	for i := 0; i < n+extra; i++ {
		m := fmt.Sprintf("%s-m%d", label, i)
		if res := c.c.Cmd("APPEND Src ", imapc.Lit(simpleMessage(m, nil))); !res.OK() {
			r.Inconclusive("%s: APPEND: %s", label, res)
			return
		}
	}

	if res := c.c.Cmd("SELECT Src"); !res.OK() {
		r.Inconclusive("%s: SELECT: %s", label, res)
		return
	}

	// Punch holes into the UID sequence.
	if extra > 0 {
		perm := rng.Perm(n + extra)[:extra]
		sort.Ints(perm)

		var parts []string
		for _, p := range perm {
			parts = append(parts, fmt.Sprint(p+1))
		}

		c.c.Cmd(fmt.Sprintf(`STORE %s +FLAGS.SILENT (\Deleted)`, strings.Join(parts, ",")))
		c.c.Cmd("EXPUNGE")
	}

	var ok bool

	c.view, _, ok = c.refresh()
	if !ok {
		return
	}

	if len(c.view) != n {
		r.Inconclusive("%s: view has %d messages, wanted %d", label, len(c.view), n)
		return
	}

	r.Eval(1)

	if fixed != nil {
		for _, set := range fixed {
			if c.bad {
				return
			}

			c.one("FETCH", set)

			if !c.bad {
				c.one("UID FETCH", set)
			}
		}

		return
	}

	kinds := []string{"FETCH", "UID FETCH", "FETCH", "UID FETCH", "STORE", "UID STORE", "COPY", "UID COPY", "SEARCH", "SEARCH UID", "UID SEARCH", "UID SEARCH UID", "UID EXPUNGE", "MOVE", "UID MOVE"}

	for i := 0; i < nCmds && !c.bad; i++ {
		k := kinds[rng.Intn(len(kinds))]
		if (k == "MOVE" || k == "UID MOVE" || k == "UID EXPUNGE") && rng.Intn(4) != 0 {
			k = "FETCH"
		}

		uid := strings.HasPrefix(k, "UID") && k != "UID SEARCH" || k == "SEARCH UID" || k == "UID SEARCH UID"
		set := genMsgSet(rng, len(c.view), c.uids(), uid)
		c.one(k, set)
	}

	if !c.bad && r.WantSample() {
		tail := c.log
		if len(tail) > 30 {
			tail = tail[:30]
		}

		r.Sample(map[string]any{"case": label, "view_uids": c.uids(), "commands": tail})
	}
}

func rowsSeqs(res *imapc.Result) (seqs []int, uids []uint32) {
	for _, u := range res.Untagged {
		if u.Kind == "FETCH" {
			seqs = append(seqs, int(u.Num))

			if v, ok := u.FetchItems()["UID"]; ok {
				x, _ := strconv.ParseUint(v.Str, 10, 32)
				uids = append(uids, uint32(x))
			}
		}
	}

	return
}

func searchNums(res *imapc.Result) []uint64 {
	var out []uint64

	for _, u := range res.Untagged {
		if u.Kind == "SEARCH" {
			for _, it := range u.Items {
				if v, err := strconv.ParseUint(it.Str, 10, 64); err == nil {
					out = append(out, v)
				}
			}
		}
	}

	return out
}

func (c *c16Case) one(kind string, set msgSet) {
	n := len(c.view)
	uids := c.uids()
	isUIDSet := kind == "UID FETCH" || kind == "UID STORE" || kind == "UID COPY" || kind == "UID MOVE" || kind == "UID EXPUNGE" || kind == "SEARCH UID" || kind == "UID SEARCH UID"

	var (
		want          map[int]bool
		mustFail      bool
		judged        = true
		invalidSyntax bool
	)

	if isUIDSet {
		want, judged, invalidSyntax = resolveUID(set, uids)
	} else {
		var ok bool

		want, ok = resolveSeq(set, n)
		mustFail = !ok
	}

	// Numbers that are not nz-numbers at all (0, >= 2^32) are syntax errors in sequence sets too.
	for _, rg := range set.Ranges {
		if !rg.A.syntacticallyValid() || !rg.B.syntacticallyValid() {
			invalidSyntax = true
		}
	}

	beforeV, beforeF, ok := c.refresh()
	if !ok {
		return
	}

	text := set.String()

	var cmd string

	deleted := map[int]bool{}

	switch kind {
	case "FETCH", "UID FETCH":
		cmd = fmt.Sprintf("%s %s (UID)", kind, text)
	case "STORE", "UID STORE":
		cmd = fmt.Sprintf("%s %s +FLAGS.SILENT (c16mark)", kind, text)
	case "COPY", "UID COPY", "MOVE", "UID MOVE":
		cmd = fmt.Sprintf("%s %s Dst", kind, text)
	case "SEARCH":
		cmd = "SEARCH " + text
	case "SEARCH UID":
		cmd = "SEARCH UID " + text
	case "UID SEARCH":
		cmd = "UID SEARCH " + text
	case "UID SEARCH UID":
		cmd = "UID SEARCH UID " + text
	case "UID EXPUNGE":
		// Mark a PRNG subset \Deleted first (and only that subset).
		if n > 0 {
			c.c.Cmd(`STORE 1:* -FLAGS.SILENT (\Deleted)`)
		}

		var parts []string

		for i := 0; i < n; i++ {
			if c.rng.Intn(2) == 0 {
				deleted[i] = true
				parts = append(parts, fmt.Sprint(i+1))
			}
		}

		if len(parts) > 0 {
			c.c.Cmd(fmt.Sprintf(`STORE %s +FLAGS.SILENT (\Deleted)`, strings.Join(parts, ",")))
		}

		beforeV, beforeF, ok = c.refresh()
		if !ok {
			return
		}

		cmd = "UID EXPUNGE " + text
	}

	res := c.c.Cmd(cmd)
	c.r.Eval(1)

	outcome := res.Status
	if res.Err != nil {
		c.r.Inconclusive("%s: %q: %v", c.label, cmd, res.Err)
		c.bad = true

		return
	}

	c.logf("[n=%d uids=%v] %s -> %s %v", n, uids, cmd, outcome, res.Kinds())

	vclass := "n=0"
	if n > 0 {
		vclass = "n>0"
	}

	c.r.Distinct(fmt.Sprintf("%s %s set=%s %s", kind, vclass, setClass(set, n), outcome))

	sigBase := fmt.Sprintf("C16 %s set=%s", kind, setClass(set, n))

	if !judged {
		// Not judged; only make sure nothing was damaged when it failed.
		if !res.OK() {
			c.unchanged(beforeV, beforeF, cmd)
		} else if kind == "COPY" || kind == "UID COPY" {
			c.clearDst()
		} else if strings.Contains(kind, "MOVE") || kind == "UID EXPUNGE" || strings.Contains(kind, "STORE") {
			c.c.Cmd("STORE 1:* -FLAGS.SILENT (c16mark \\Deleted)")
			c.clearDst()
			c.view, _, _ = c.refresh()
		}

		return
	}

	if mustFail {
		if !res.BAD() {
			c.violate(sigBase+" not-BAD", fmt.Sprintf("%q on a view of %d messages must fail with BAD, got %s %v", cmd, n, outcome, res.Kinds()))
			return
		}

		c.unchanged(beforeV, beforeF, cmd)

		return
	}

	if !res.OK() {
		// A number that is not an nz-number (0, >= 2^32) is a syntax error: any refusal without effect is fine.
		if invalidSyntax && (res.BAD() || (isUIDSet && res.NO())) {
			c.unchanged(beforeV, beforeF, cmd)
			return
		}

		c.violate(sigBase+" refused", fmt.Sprintf("%q on view uids=%v should select positions %v but was answered %s %s", cmd, uids, posList(want), outcome, res.Text))

		return
	}

	wantPos := posList(want)

	var wantMarkers []string
	for _, p := range wantPos {
		wantMarkers = append(wantMarkers, c.view[p].Marker)
	}

	sort.Strings(wantMarkers)

	switch kind {
	case "FETCH", "UID FETCH":
		seqs, gotUIDs := rowsSeqs(res)
		got := map[int]bool{}

		for i, sq := range seqs {
			got[sq-1] = true

			if sq < 1 || sq > n || (i < len(gotUIDs) && gotUIDs[i] != uids[sq-1]) {
				c.violate(sigBase+" wrong-row", fmt.Sprintf("%q returned row %d with UID %v which does not match the view %v", cmd, sq, gotUIDs, uids))
				return
			}
		}

		if fmt.Sprint(posList(got)) != fmt.Sprint(wantPos) {
			c.violate(sigBase+" wrong-selection", fmt.Sprintf("%q on view uids=%v selected positions %v, RFC 3501 says %v", cmd, uids, posList(got), wantPos))
		}
	case "SEARCH", "SEARCH UID", "UID SEARCH", "UID SEARCH UID":
		got := searchNums(res)

		var wantNums []uint64

		for _, p := range wantPos {
			if strings.HasPrefix(kind, "UID") {
				wantNums = append(wantNums, uint64(uids[p]))
			} else {
				wantNums = append(wantNums, uint64(p+1))
			}
		}

		sort.Slice(got, func(i, j int) bool { return got[i] < got[j] })

		if fmt.Sprint(got) != fmt.Sprint(wantNums) {
			c.violate(sigBase+" wrong-selection", fmt.Sprintf("%q on view uids=%v returned %v, RFC 3501 says %v", cmd, uids, got, wantNums))
		}
	case "STORE", "UID STORE":
		_, flags, ok := c.refresh()
		if !ok {
			return
		}

		got := map[int]bool{}

		for i, f := range flags {
			if strings.Contains(f, "c16mark") {
				got[i] = true
			}
		}

		if fmt.Sprint(posList(got)) != fmt.Sprint(wantPos) {
			c.violate(sigBase+" wrong-selection", fmt.Sprintf("%q on view uids=%v flagged positions %v, RFC 3501 says %v", cmd, uids, posList(got), wantPos))
			return
		}

		if n > 0 {
			c.c.Cmd("STORE 1:* -FLAGS.SILENT (c16mark)")
		}
	case "COPY", "UID COPY":
		dm, ok := c.dstMarkers()
		if !ok {
			return
		}

		if fmt.Sprint(dm) != fmt.Sprint(wantMarkers) && !(len(dm) == 0 && len(wantMarkers) == 0) {
			c.violate(sigBase+" wrong-selection", fmt.Sprintf("%q on view uids=%v copied %v, RFC 3501 says %v", cmd, uids, dm, wantMarkers))
			return
		}

		c.clearDst()
	case "MOVE", "UID MOVE":
		dm, ok := c.dstMarkers()
		if !ok {
			return
		}

		if fmt.Sprint(dm) != fmt.Sprint(wantMarkers) && !(len(dm) == 0 && len(wantMarkers) == 0) {
			c.violate(sigBase+" wrong-selection", fmt.Sprintf("%q on view uids=%v moved %v, RFC 3501 says %v", cmd, uids, dm, wantMarkers))
			return
		}

		c.clearDst()

		after, _, ok := c.refresh()
		if !ok {
			return
		}

		var remain []c16Msg

		for i, m := range c.view {
			if !want[i] {
				remain = append(remain, m)
			}
		}

		if fmt.Sprint(after) != fmt.Sprint(remain) {
			c.violate(sigBase+" wrong-remainder", fmt.Sprintf("after %q the source holds %v, expected %v", cmd, after, remain))
			return
		}

		c.view = after
	case "UID EXPUNGE":
		after, _, ok := c.refresh()
		if !ok {
			return
		}

		var remain []c16Msg

		for i, m := range c.view {
			if !(want[i] && deleted[i]) {
				remain = append(remain, m)
			}
		}

		if fmt.Sprint(after) != fmt.Sprint(remain) {
			c.violate(sigBase+" wrong-selection", fmt.Sprintf("after %q (\\Deleted at positions %v) the mailbox holds %v, expected %v", cmd, posList(deleted), after, remain))
			return
		}

		c.view = after

		if len(c.view) > 0 {
			c.c.Cmd(`STORE 1:* -FLAGS.SILENT (\Deleted)`)
		}
	}
}

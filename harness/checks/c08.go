package checks

import (
	"context"
	"errors"
	"fmt"
	"io"
	"math/rand"
	"sort"
	"strings"
	"sync"
	"time"

	"github.com/ProtonMail/gluon/db"
	"github.com/ProtonMail/gluon/imap"
	"github.com/ProtonMail/gluon/verifhooks"

	"verifharness/ev"
)

func init() { register("C08", "exploration", runC08) }

// ---- relational reference model ------------------------------------------------------

type dbEntry struct {
	UID     imap.UID
	Msg     imap.InternalMessageID
	Remote  imap.MessageID
	Recent  bool
	Deleted bool
}

type dbMbox struct {
	ID          imap.InternalMailboxID
	RemoteID    imap.MailboxID
	Name        string
	UIDValidity imap.UID
	Subscribed  bool
	Flags       map[string]bool
	PermFlags   map[string]bool
	Attrs       map[string]bool
	LastUID     imap.UID // highest UID ever assigned (AUTOINCREMENT)
	Entries     []dbEntry
}

type dbMsg struct {
	ID        imap.InternalMessageID
	RemoteID  imap.MessageID
	Date      time.Time
	Size      int
	Body      string
	Structure string
	Envelope  string
	Deleted   bool
	Flags     map[string]bool // lower-case
}

type dbModel struct {
	Mboxes      map[imap.InternalMailboxID]*dbMbox
	Msgs        map[imap.InternalMessageID]*dbMsg
	DeletedSubs map[string]imap.MailboxID // name -> remote id
	Settings    string
	HasSettings bool
}

func newDBModel() *dbModel {
	return &dbModel{Mboxes: map[imap.InternalMailboxID]*dbMbox{}, Msgs: map[imap.InternalMessageID]*dbMsg{}, DeletedSubs: map[string]imap.MailboxID{}}
}

func cloneSet(m map[string]bool) map[string]bool {
	out := make(map[string]bool, len(m))
	for k, v := range m {
		out[k] = v
	}

	return out
}

func (m *dbModel) clone() *dbModel {
	out := newDBModel()

	for id, mb := range m.Mboxes {
		c := *mb
		c.Flags, c.PermFlags, c.Attrs = cloneSet(mb.Flags), cloneSet(mb.PermFlags), cloneSet(mb.Attrs)
		c.Entries = append([]dbEntry{}, mb.Entries...)
		out.Mboxes[id] = &c
	}

	for id, msg := range m.Msgs {
		c := *msg
		c.Flags = cloneSet(msg.Flags)
		out.Msgs[id] = &c
	}

	for k, v := range m.DeletedSubs {
		out.DeletedSubs[k] = v
	}

	out.Settings, out.HasSettings = m.Settings, m.HasSettings

	return out
}

func (m *dbModel) mboxByRemote(id imap.MailboxID) *dbMbox {
	for _, mb := range m.Mboxes {
		if mb.RemoteID == id {
			return mb
		}
	}

	return nil
}

func (m *dbModel) mboxByName(name string) *dbMbox {
	for _, mb := range m.Mboxes {
		if mb.Name == name {
			return mb
		}
	}

	return nil
}

func (m *dbModel) msgByRemote(id imap.MessageID) *dbMsg {
	for _, msg := range m.Msgs {
		if msg.RemoteID == id {
			return msg
		}
	}

	return nil
}

func (mb *dbMbox) has(id imap.InternalMessageID) bool {
	for _, e := range mb.Entries {
		if e.Msg == id {
			return true
		}
	}

	return false
}

func lowerSet(flags imap.FlagSet) map[string]bool {
	out := map[string]bool{}
	for _, f := range flags.ToSliceUnsorted() {
		out[strings.ToLower(f)] = true
	}

	return out
}

func setKey(m map[string]bool) string {
	var k []string
	for f := range m {
		k = append(k, f)
	}

	sort.Strings(k)

	return strings.Join(k, ",")
}

func flagSetKey(fs imap.FlagSet) string { return setKey(lowerSet(fs)) }

func flagStringKey(s string) string {
	if s == "" {
		return ""
	}

	m := map[string]bool{}
	for _, f := range strings.Split(s, db.FlagSeparator) {
		m[strings.ToLower(f)] = true
	}

	return setKey(m)
}

// dump renders the whole model canonically.
func (m *dbModel) dump() []string {
	var out []string

	var mids []imap.InternalMailboxID
	for id := range m.Mboxes {
		mids = append(mids, id)
	}

	sort.Slice(mids, func(i, j int) bool { return mids[i] < mids[j] })

	for _, id := range mids {
		mb := m.Mboxes[id]
		out = append(out, fmt.Sprintf("mbox %d remote=%s name=%q uidv=%d sub=%v flags=[%s] perm=[%s] attrs=[%s] uidnext=%d count=%d",
			mb.ID, mb.RemoteID, mb.Name, mb.UIDValidity, mb.Subscribed, setKey(mb.Flags), setKey(mb.PermFlags), setKey(mb.Attrs), mb.LastUID+1, len(mb.Entries)))

		for _, e := range mb.Entries {
			flags := ""
			if msg := m.Msgs[e.Msg]; msg != nil {
				flags = setKey(msg.Flags)
			}

			out = append(out, fmt.Sprintf("  mbox %d uid=%d msg=%s remote=%s recent=%v deleted=%v flags=[%s]", mb.ID, e.UID, e.Msg.ShortID(), e.Remote, e.Recent, e.Deleted, flags))
		}
	}

	var ids []string

	byStr := map[string]*dbMsg{}
	for id, msg := range m.Msgs {
		ids = append(ids, id.String())
		byStr[id.String()] = msg
	}

	sort.Strings(ids)

	for _, s := range ids {
		msg := byStr[s]

		var in []string
		for _, id := range mids {
			if m.Mboxes[id].has(msg.ID) {
				in = append(in, fmt.Sprint(id))
			}
		}

		out = append(out, fmt.Sprintf("msg %s remote=%s date=%d size=%d body=%q struct=%q env=%q deleted=%v flags=[%s] in=%v",
			msg.ID.ShortID(), msg.RemoteID, msg.Date.Unix(), msg.Size, msg.Body, msg.Structure, msg.Envelope, msg.Deleted, setKey(msg.Flags), in))
	}

	var subs []string
	for n, id := range m.DeletedSubs {
		subs = append(subs, fmt.Sprintf("delsub %q=%s", n, id))
	}

	sort.Strings(subs)
	out = append(out, subs...)
	out = append(out, fmt.Sprintf("settings %q %v", m.Settings, m.HasSettings))

	return out
}

// dumpDB renders the database through its getters in the same canonical form.
func dumpDB(ctx context.Context, rd db.ReadOnly) ([]string, error) {
	var out []string

	mboxes, err := rd.GetAllMailboxesWithAttr(ctx)
	if err != nil {
		return nil, fmt.Errorf("GetAllMailboxesWithAttr: %w", err)
	}

	sort.Slice(mboxes, func(i, j int) bool { return mboxes[i].ID < mboxes[j].ID })

	for _, mb := range mboxes {
		flags, err := rd.GetMailboxFlags(ctx, mb.ID)
		if err != nil {
			return nil, fmt.Errorf("GetMailboxFlags: %w", err)
		}

		perm, err := rd.GetMailboxPermanentFlags(ctx, mb.ID)
		if err != nil {
			return nil, fmt.Errorf("GetMailboxPermanentFlags: %w", err)
		}

		count, uid, err := rd.GetMailboxMessageCountAndUID(ctx, mb.ID)
		if err != nil {
			return nil, fmt.Errorf("GetMailboxMessageCountAndUID: %w", err)
		}

		out = append(out, fmt.Sprintf("mbox %d remote=%s name=%q uidv=%d sub=%v flags=[%s] perm=[%s] attrs=[%s] uidnext=%d count=%d",
			mb.ID, mb.RemoteID, mb.Name, mb.UIDValidity, mb.Subscribed, flagSetKey(flags), flagSetKey(perm), flagSetKey(mb.Attributes), uid, count))

		rows, err := rd.GetMailboxMessageForNewSnapshot(ctx, mb.ID)
		if err != nil {
			return nil, fmt.Errorf("GetMailboxMessageForNewSnapshot: %w", err)
		}

		for _, e := range rows {
			out = append(out, fmt.Sprintf("  mbox %d uid=%d msg=%s remote=%s recent=%v deleted=%v flags=[%s]", mb.ID, e.UID, e.InternalID.ShortID(), e.RemoteID, e.Recent, e.Deleted, flagStringKey(e.Flags)))
		}
	}

	all, err := rd.GetAllMessagesIDsAsMap(ctx)
	if err != nil {
		return nil, fmt.Errorf("GetAllMessagesIDsAsMap: %w", err)
	}

	var ids []string

	byStr := map[string]imap.InternalMessageID{}
	for id := range all {
		ids = append(ids, id.String())
		byStr[id.String()] = id
	}

	sort.Strings(ids)

	for _, s := range ids {
		id := byStr[s]

		msg, err := rd.GetMessageNoEdges(ctx, id)
		if err != nil {
			return nil, fmt.Errorf("GetMessageNoEdges: %w", err)
		}

		fl, err := rd.GetMessagesFlags(ctx, []imap.InternalMessageID{id})
		if err != nil {
			return nil, fmt.Errorf("GetMessagesFlags: %w", err)
		}

		if len(fl) != 1 {
			return nil, fmt.Errorf("GetMessagesFlags(1 existing id) returned %d rows", len(fl))
		}

		in, err := rd.GetMessageMailboxIDs(ctx, id)
		if err != nil {
			return nil, fmt.Errorf("GetMessageMailboxIDs: %w", err)
		}

		sort.Slice(in, func(i, j int) bool { return in[i] < in[j] })

		var inS []string
		for _, x := range in {
			inS = append(inS, fmt.Sprint(x))
		}

		out = append(out, fmt.Sprintf("msg %s remote=%s date=%d size=%d body=%q struct=%q env=%q deleted=%v flags=[%s] in=%v",
			msg.ID.ShortID(), msg.RemoteID, msg.Date.Unix(), msg.Size, msg.Body, msg.BodyStructure, msg.Envelope, msg.Deleted, flagSetKey(fl[0].FlagSet), inS))
	}

	ds, err := rd.GetDeletedSubscriptionSet(ctx)
	if err != nil {
		return nil, fmt.Errorf("GetDeletedSubscriptionSet: %w", err)
	}

	var subs []string
	for _, s := range ds {
		subs = append(subs, fmt.Sprintf("delsub %q=%s", s.Name, s.RemoteID))
	}

	sort.Strings(subs)
	out = append(out, subs...)

	v, has, err := rd.GetConnectorSettings(ctx)
	if err != nil {
		return nil, fmt.Errorf("GetConnectorSettings: %w", err)
	}

	out = append(out, fmt.Sprintf("settings %q %v", v, has))

	return out, nil
}

func firstDiff(a, b []string) string {
	for i := 0; i < len(a) || i < len(b); i++ {
		var x, y string
		if i < len(a) {
			x = a[i]
		}

		if i < len(b) {
			y = b[i]
		}

		if x != y {
			return fmt.Sprintf("line %d: model %q / database %q", i, shorten(x, 300), shorten(y, 300))
		}
	}

	return ""
}

// ---- the check -----------------------------------------------------------------------

type c08Case struct {
	r      *ev.Run
	label  string
	rng    *rand.Rand
	client db.Client
	model  *dbModel
	log    []string
	failed bool
	nMbox  int
	nMsg   int
}

func (c *c08Case) logf(format string, a ...any) {
	c.log = append(c.log, fmt.Sprintf(format, a...))
	if len(c.log) > 300 {
		c.log = c.log[len(c.log)-300:]
	}
}

func (c *c08Case) violate(sig, what string) {
	if c.failed {
		return
	}

	c.failed = true
	c.r.Violate(sig, what, c.label, map[string]any{"ops": c.log})
}

type seqUIDGen struct{ n uint32 }

func (g *seqUIDGen) Generate() (imap.UID, error) { g.n++; return imap.UID(g.n), nil }

func c08Open(r *ev.Run, label string) (db.Client, string, error) {
	dir := caseDir(r, label)

	client, _, err := verifhooks.NewSQLiteClientInterface().New(dir, "c08user")
	if err != nil {
		return nil, dir, err
	}

	if err := client.Init(context.Background(), &seqUIDGen{n: 1000}); err != nil {
		return nil, dir, err
	}

	return client, dir, nil
}

func runC08(r *ev.Run) {
	r.SetRule("PRNG sequences of db.Transaction / db.ReadOnly calls made directly on the SQLite client (every method of the interface), each return value compared with an in-memory relational model and the whole database dumped through its getters after every write transaction; transactions aborted at a PRNG-chosen point (the callback returns its own error, a wrapped one, db.ErrNotFound, context.Canceled / DeadlineExceeded of a nested call, an I/O error) must leave the dump unchanged; plus every list-taking method at argument lengths around the batching limit. distinct = distinct (method, outcome class, argument-length class) tuples observed")
	r.Assume("operations are only called where the interface contract is defined (e.g. DeleteMessages only for messages that are in no mailbox); error-returning calls abort their transaction, as gluon's callers do",
		"flag values are compared case-insensitively, as imap.FlagSet does")

	seqs := r.Pick(120, 4000)
	opsPer := r.Pick(60, 80)

	ev.Parallel(seqs, 12, func(i int) {
		label := fmt.Sprintf("seq-%d", i)
		if r.OnlyCase != "" && r.OnlyCase != label {
			return
		}

		c08Sequence(r, label, opsPer)
	})

	lengths := []int{0, 1, 2, 500, 501, 1000, 1001, 2001}
	if r.Thorough() {
		lengths = []int{0, 1, 2, 499, 500, 501, 999, 1000, 1001, 1999, 2000, 2001, 2500}
	}

	ev.Parallel(len(lengths), 8, func(i int) {
		label := fmt.Sprintf("len-%d", lengths[i])
		if r.OnlyCase != "" && r.OnlyCase != label {
			return
		}

		c08Lengths(r, label, lengths[i])
	})
}

func lenClass(n int) string {
	switch {
	case n == 0:
		return "0"
	case n == 1:
		return "1"
	case n <= 500:
		return "2..500"
	case n <= 1000:
		return "501..1000"
	case n <= 2000:
		return "1001..2000"
	default:
		return ">2000"
	}
}

var errAbort = errors.New("verif: abort transaction")

// abortErr is what the caller's callback returns to abort: whatever kind of error a callback of gluon may come
// back with (its own, a wrapped one, a "not found" of a nested read, a cancelled or timed-out remote call made
// under a derived context, an I/O error) - the transaction's own context stays alive in every case.
func (c *c08Case) abortErr() error {
	switch k := c.rng.Intn(7); k {
	case 0:
		return fmt.Errorf("remote call failed: %w", errAbort)
	case 1:
		return fmt.Errorf("sub-operation cancelled: %w", context.Canceled)
	case 2:
		return context.Canceled
	case 3:
		return fmt.Errorf("remote call timed out: %w", context.DeadlineExceeded)
	case 4:
		return fmt.Errorf("lookup: %w", db.ErrNotFound)
	case 5:
		return io.ErrUnexpectedEOF
	default:
		return errAbort
	}
}

// write runs one write transaction; fn returns (abort?) and may report mismatches itself.
func (c *c08Case) write(name string, fn func(ctx context.Context, tx db.Transaction, m *dbModel) error) {
	ctx := context.Background()
	work := c.model.clone()

	var opErr error

	func() {
		defer func() {
			if v := recover(); v != nil {
				opErr = fmt.Errorf("panic: %v", v)
				c.logf("%s -> PANIC %v", name, v)
				c.violate("C08 panic "+strings.Fields(name)[0], fmt.Sprintf("%s panicked: %v", name, v))
			}
		}()

		opErr = c.client.Write(ctx, func(ctx context.Context, tx db.Transaction) error {
			return fn(ctx, tx, work)
		})
	}()

	if c.failed {
		return
	}

	if opErr == nil {
		c.model = work
	}

	c.checkDump(name)
}

func (c *c08Case) checkDump(after string) {
	if c.failed {
		return
	}

	var got []string

	err := c.client.Read(context.Background(), func(ctx context.Context, rd db.ReadOnly) error {
		var err error
		got, err = dumpDB(ctx, rd)

		return err
	})
	if err != nil {
		c.violate("C08 dump-failed "+errClass(err), fmt.Sprintf("reading the database back after %q failed: %v", after, err))
		return
	}

	if d := firstDiff(c.model.dump(), got); d != "" {
		c.violate("C08 state-differs after "+strings.Fields(after)[0], fmt.Sprintf("database differs from the relational model after %q: %s", after, d))
	}
}

func errClass(err error) string {
	s := err.Error()
	if i := strings.Index(s, ":"); i > 0 {
		s = s[:i]
	}

	return s
}

func (c *c08Case) newMsgReq(flags []string) *db.CreateMessageReq {
	c.nMsg++
	id := imap.NewInternalMessageID()

	return &db.CreateMessageReq{
		Message:     imap.Message{ID: imap.MessageID(fmt.Sprintf("%s-rm%d", c.label, c.nMsg)), Flags: imap.NewFlagSet(flags...), Date: time.Unix(1136214245+int64(c.nMsg)*3600, 0).UTC()},
		InternalID:  id,
		LiteralSize: 100 + c.nMsg,
		Body:        fmt.Sprintf("(body %d)", c.nMsg),
		Structure:   fmt.Sprintf("(structure %d)", c.nMsg),
		Envelope:    fmt.Sprintf("(envelope %d)", c.nMsg),
	}
}

func modelCreateMsg(m *dbModel, req *db.CreateMessageReq, keepDeletedFlag bool) *dbMsg {
	fl := lowerSet(req.Message.Flags)
	if !keepDeletedFlag {
		delete(fl, `\deleted`)
	}

	msg := &dbMsg{ID: req.InternalID, RemoteID: req.Message.ID, Date: req.Message.Date, Size: req.LiteralSize, Body: req.Body, Structure: req.Structure, Envelope: req.Envelope, Flags: fl}
	m.Msgs[msg.ID] = msg

	return msg
}

var c08Flags = []string{`\Seen`, `\Flagged`, `\Answered`, `\Draft`, "kw1", "Kw2", "kw,3"}

func (c *c08Case) someFlags(max int) []string {
	n := c.rng.Intn(max + 1)
	perm := c.rng.Perm(len(c08Flags))

	var out []string
	for _, p := range perm[:n] {
		out = append(out, c08Flags[p])
	}

	return out
}

func (c *c08Case) anyMbox() *dbMbox {
	if len(c.model.Mboxes) == 0 {
		return nil
	}

	var ids []imap.InternalMailboxID
	for id := range c.model.Mboxes {
		ids = append(ids, id)
	}

	sort.Slice(ids, func(i, j int) bool { return ids[i] < ids[j] })

	return c.model.Mboxes[ids[c.rng.Intn(len(ids))]]
}

func (c *c08Case) sortedMsgIDs() []imap.InternalMessageID {
	var ids []imap.InternalMessageID
	for id := range c.model.Msgs {
		ids = append(ids, id)
	}

	sort.Slice(ids, func(i, j int) bool { return ids[i].String() < ids[j].String() })

	return ids
}

func (c *c08Case) anyMsg() *dbMsg {
	ids := c.sortedMsgIDs()
	if len(ids) == 0 {
		return nil
	}

	return c.model.Msgs[ids[c.rng.Intn(len(ids))]]
}

func (c *c08Case) someMsgIDs(max int) []imap.InternalMessageID {
	ids := c.sortedMsgIDs()
	c.rng.Shuffle(len(ids), func(i, j int) { ids[i], ids[j] = ids[j], ids[i] })

	if len(ids) > max {
		ids = ids[:max]
	}

	if len(ids) > 0 {
		ids = ids[:c.rng.Intn(len(ids)+1)]
	}

	return ids
}

// expect compares a returned value with the model's prediction.
func (c *c08Case) expect(op string, got, want any) bool {
	g, w := fmt.Sprint(got), fmt.Sprint(want)
	if g != w {
		c.logf("%s -> %s (model: %s)", op, shorten(g, 200), shorten(w, 200))
		c.violate("C08 result-differs "+strings.Fields(op)[0], fmt.Sprintf("%s returned %s, the relational model says %s", op, shorten(g, 300), shorten(w, 300)))

		return false
	}

	return true
}

func (c *c08Case) expectErr(op string, err error, wantNotFound bool) bool {
	if wantNotFound {
		if !db.IsErrNotFound(err) {
			c.logf("%s -> err=%v (model: not found)", op, err)
			c.violate("C08 result-differs "+strings.Fields(op)[0]+" notfound", fmt.Sprintf("%s on a missing object returned err=%v, expected db.ErrNotFound", op, err))

			return false
		}

		return false
	}

	if err != nil {
		c.logf("%s -> err=%v (model: success)", op, err)
		c.violate("C08 unexpected-error "+strings.Fields(op)[0], fmt.Sprintf("%s failed although its preconditions hold: %v", op, err))

		return false
	}

	return true
}

func c08Sequence(r *ev.Run, label string, nOps int) {
	client, dir, err := c08Open(r, label)
	if err != nil {
		r.Inconclusive("%s: opening database: %v", label, err)
		return
	}

	defer func() { _ = client.Close(); _ = removeAll(dir) }()

	c := &c08Case{r: r, label: label, rng: r.Rand(label), client: client, model: newDBModel()}
	r.Eval(1)

	// The migrations leave an empty database.
	c.checkDump("Init")

	for i := 0; i < nOps && !c.failed; i++ {
		c.randomWrite()

		if c.failed {
			break
		}

		if c.rng.Intn(2) == 0 {
			c.randomReads(6)
		}

		// Every now and then several readers at once: Read only takes a shared lock, so this
		// makes the client use several pooled connections; later transactions may run on any of them.
		if c.rng.Intn(8) == 0 {
			c.concurrentReaders(2 + c.rng.Intn(4))
		}
	}

	if !c.failed && r.WantSample() {
		tail := c.log
		if len(tail) > 40 {
			tail = tail[:40]
		}

		r.Sample(map[string]any{"case": label, "first_ops": tail, "final_rows": len(c.model.dump())})
	}
}

func (c *c08Case) note(op, outcome string, n int) {
	c.r.Distinct(fmt.Sprintf("%s %s len=%s", op, outcome, lenClass(n)))
}

// concurrentReaders dumps the database from n goroutines at once; every dump must equal the model.
func (c *c08Case) concurrentReaders(n int) {
	want := c.model.dump()

	var (
		wg    sync.WaitGroup
		mu    sync.Mutex
		diffs []string
	)

	gate := make(chan struct{})

	for i := 0; i < n; i++ {
		wg.Add(1)

		go func() {
			defer wg.Done()

			_ = c.client.Read(context.Background(), func(ctx context.Context, rd db.ReadOnly) error {
				<-gate // all readers are inside Read (holding a connection each) before any proceeds

				got, err := dumpDB(ctx, rd)

				mu.Lock()
				defer mu.Unlock()

				if err != nil {
					diffs = append(diffs, "error: "+err.Error())
				} else if d := firstDiff(want, got); d != "" {
					diffs = append(diffs, d)
				}

				return nil
			})
		}()
	}

	time.Sleep(2 * time.Millisecond)
	close(gate)
	wg.Wait()

	c.logf("%d concurrent readers", n)
	c.r.Distinct(fmt.Sprintf("concurrent-readers n=%d", n))

	if len(diffs) > 0 {
		c.violate("C08 state-differs concurrent-readers", fmt.Sprintf("a concurrent reader saw a database that differs from the model: %s", diffs[0]))
	}
}

// randomWrite performs one write transaction consisting of 1-3 operations, possibly aborted.
func (c *c08Case) randomWrite() {
	nOps := 1 + c.rng.Intn(3)
	abortAt := -1

	if c.rng.Intn(6) == 0 {
		abortAt = c.rng.Intn(nOps + 1)
	}

	name := ""

	c.write("tx", func(ctx context.Context, tx db.Transaction, m *dbModel) error {
		for k := 0; k < nOps; k++ {
			if k == abortAt {
				err := c.abortErr()
				c.logf("  (transaction aborted by the caller before op %d with %q)", k, err)
				c.note("abort", "rolled-back "+errClass(err), 1)

				return err
			}

			op, err := c.oneWriteOp(ctx, tx, m)
			name = op

			if c.failed {
				return errAbort
			}

			if err != nil {
				// An operation that reports an error aborts the transaction (what gluon does).
				return err
			}
		}

		if abortAt == nOps {
			err := c.abortErr()
			c.logf("  (transaction aborted by the caller at the end with %q)", err)
			c.note("abort", "rolled-back "+errClass(err), 1)

			return err
		}

		return nil
	})

	_ = name
}

func pairsOf(m *dbModel, ids []imap.InternalMessageID) []db.MessageIDPair {
	out := make([]db.MessageIDPair, 0, len(ids))
	for _, id := range ids {
		out = append(out, db.MessageIDPair{InternalID: id, RemoteID: m.Msgs[id].RemoteID})
	}

	return out
}

func uidRowsKey(rows []db.UIDWithFlags) []string {
	out := make([]string, len(rows))
	for i, r := range rows {
		out[i] = fmt.Sprintf("%d:%s:%s:r=%v:d=%v:[%s]", r.UID, r.InternalID.ShortID(), r.RemoteID, r.Recent, r.Deleted, flagStringKey(r.Flags))
	}

	return out
}

func modelAdd(m *dbModel, mb *dbMbox, pairs []db.MessageIDPair) []string {
	var out []string

	for _, p := range pairs {
		mb.LastUID++
		e := dbEntry{UID: mb.LastUID, Msg: p.InternalID, Remote: p.RemoteID, Recent: true}
		mb.Entries = append(mb.Entries, e)
		out = append(out, fmt.Sprintf("%d:%s:%s:r=%v:d=%v:[%s]", e.UID, e.Msg.ShortID(), e.Remote, true, false, setKey(m.Msgs[p.InternalID].Flags)))
	}

	return out
}

func modelRemove(mb *dbMbox, ids []imap.InternalMessageID) {
	rm := map[imap.InternalMessageID]bool{}
	for _, id := range ids {
		rm[id] = true
	}

	var keep []dbEntry

	for _, e := range mb.Entries {
		if !rm[e.Msg] {
			keep = append(keep, e)
		}
	}

	mb.Entries = keep
}

func (c *c08Case) inNoMailbox(m *dbModel, id imap.InternalMessageID) bool {
	for _, mb := range m.Mboxes {
		if mb.has(id) {
			return false
		}
	}

	return true
}

// oneWriteOp performs one PRNG-chosen write operation on tx and the working model m.
func (c *c08Case) oneWriteOp(ctx context.Context, tx db.Transaction, m *dbModel) (string, error) {
	rng := c.rng

	pickMbox := func() *dbMbox {
		mb := c.anyMbox()
		if mb == nil {
			return nil
		}

		return m.Mboxes[mb.ID] // may be nil if deleted earlier in this tx
	}

	pickMsg := func() *dbMsg {
		msg := c.anyMsg()
		if msg == nil {
			return nil
		}

		return m.Msgs[msg.ID]
	}

	for {
		switch k := rng.Intn(30); k {
		case 0, 1, 2: // CreateMailbox & friends
			c.nMbox++
			remote := imap.MailboxID(fmt.Sprintf("%s-rb%d", c.label, c.nMbox))
			name := fmt.Sprintf("Box %d/%%x", c.nMbox)
			dupName, dupRemote := false, false

			if existing := pickMbox(); existing != nil && rng.Intn(5) == 0 {
				if rng.Intn(2) == 0 {
					name, dupName = existing.Name, true
				} else {
					remote, dupRemote = existing.RemoteID, true
				}
			}

			// sometimes re-use the name of a deleted, still subscribed mailbox: the new mailbox takes the name over
			if !dupName && !dupRemote && len(m.DeletedSubs) > 0 && rng.Intn(3) == 0 {
				var names []string
				for n := range m.DeletedSubs {
					if m.mboxByName(n) == nil {
						names = append(names, n)
					}
				}

				sort.Strings(names)

				if len(names) > 0 {
					name = names[rng.Intn(len(names))]
				}
			}

			flags, perm, attrs := c.someFlags(3), c.someFlags(3), []string{`\Noinferiors`, `\Drafts`}[:rng.Intn(3)]
			uidv := imap.UID(5000 + c.nMbox)
			variant := rng.Intn(4)

			var (
				mbox *db.Mailbox
				err  error
				op   string
			)

			switch variant {
			case 0:
				op = "CreateMailbox"
				mbox, err = tx.CreateMailbox(ctx, remote, name, imap.NewFlagSet(flags...), imap.NewFlagSet(perm...), imap.NewFlagSet(attrs...), uidv)
			case 1:
				op = "GetOrCreateMailbox"
				mbox, err = tx.GetOrCreateMailbox(ctx, remote, name, imap.NewFlagSet(flags...), imap.NewFlagSet(perm...), imap.NewFlagSet(attrs...), uidv)
			case 2:
				op = "GetOrCreateMailboxAlt"
				mbox, err = tx.GetOrCreateMailboxAlt(ctx, imap.Mailbox{ID: remote, Name: strings.Split(name, "/"), Flags: imap.NewFlagSet(flags...), PermanentFlags: imap.NewFlagSet(perm...), Attributes: imap.NewFlagSet(attrs...)}, "/", uidv)
			default:
				op = "CreateMailboxIfNotExists"
				err = tx.CreateMailboxIfNotExists(ctx, imap.Mailbox{ID: remote, Name: strings.Split(name, "/"), Flags: imap.NewFlagSet(flags...), PermanentFlags: imap.NewFlagSet(perm...), Attributes: imap.NewFlagSet(attrs...)}, "/", uidv)
			}

			full := fmt.Sprintf("%s remote=%s name=%q dupName=%v dupRemote=%v", op, remote, name, dupName, dupRemote)
			c.logf("%s -> err=%v", full, err)

			getExisting := variant != 0 && dupRemote

			switch {
			case getExisting:
				c.note(op, "existing", 1)

				if !c.expectErr(full, err, false) {
					return full, err
				}

				if mbox != nil {
					ex := m.mboxByRemote(remote)
					c.expect(full, fmt.Sprintf("%d %s %q %d %v", mbox.ID, mbox.RemoteID, mbox.Name, mbox.UIDValidity, mbox.Subscribed), fmt.Sprintf("%d %s %q %d %v", ex.ID, ex.RemoteID, ex.Name, ex.UIDValidity, ex.Subscribed))
				}

				return full, nil
			case dupName || dupRemote:
				c.note(op, "constraint-error", 1)

				if err == nil {
					c.violate("C08 missing-error "+op, fmt.Sprintf("%s succeeded although name/remote id is already taken", full))
				}

				return full, err
			}

			c.note(op, "created", 1)

			if !c.expectErr(full, err, false) {
				return full, err
			}

			var newID imap.InternalMailboxID

			if mbox != nil {
				newID = mbox.ID
				c.expect(full, fmt.Sprintf("%s %q %d %v", mbox.RemoteID, mbox.Name, mbox.UIDValidity, mbox.Subscribed), fmt.Sprintf("%s %q %d %v", remote, name, uidv, true))
			} else {
				id, err := tx.GetMailboxIDFromRemoteID(ctx, remote)
				if !c.expectErr("GetMailboxIDFromRemoteID after "+full, err, false) {
					return full, err
				}

				newID = id
			}

			if _, taken := m.Mboxes[newID]; taken {
				c.violate("C08 mailbox-id-reused", fmt.Sprintf("%s returned internal id %d which another mailbox has", full, newID))
				return full, nil
			}

			// a new mailbox takes over the name: the subscription of a deleted namesake goes
			if _, had := m.DeletedSubs[name]; had {
				c.note(op, "takes-over-deleted-subscription", 1)
			}

			delete(m.DeletedSubs, name)

			m.Mboxes[newID] = &dbMbox{ID: newID, RemoteID: remote, Name: name, UIDValidity: uidv, Subscribed: true,
				Flags: lowerSet(imap.NewFlagSet(flags...)), PermFlags: lowerSet(imap.NewFlagSet(perm...)), Attrs: lowerSet(imap.NewFlagSet(attrs...))}

			return full, nil

		case 3: // RenameMailboxWithRemoteID
			mb := pickMbox()
			remote := imap.MailboxID("no-such-remote")
			name := fmt.Sprintf("Renamed %d", rng.Intn(1000))

			if mb != nil && rng.Intn(5) != 0 {
				remote = mb.RemoteID
			}

			collide := false
			if other := pickMbox(); other != nil && rng.Intn(5) == 0 && (mb == nil || other.ID != mb.ID) {
				name, collide = other.Name, true
			}

			full := fmt.Sprintf("RenameMailboxWithRemoteID %s -> %q", remote, name)
			err := tx.RenameMailboxWithRemoteID(ctx, remote, name)
			c.logf("%s -> err=%v", full, err)

			target := m.mboxByRemote(remote)

			switch {
			case target == nil:
				c.note("RenameMailboxWithRemoteID", "missing", 1)

				if err == nil {
					c.violate("C08 missing-error RenameMailboxWithRemoteID", full+" succeeded for an unknown remote id")
				}

				return full, err
			case collide || (m.mboxByName(name) != nil && m.mboxByName(name) != target):
				c.note("RenameMailboxWithRemoteID", "constraint-error", 1)

				if err == nil {
					c.violate("C08 missing-error RenameMailboxWithRemoteID", full+" succeeded although the name is taken")
				}

				return full, err
			}

			c.note("RenameMailboxWithRemoteID", "ok", 1)

			if !c.expectErr(full, err, false) {
				return full, err
			}

			target.Name = name
			delete(m.DeletedSubs, name)

			return full, nil

		case 4: // DeleteMailboxWithRemoteID
			mb := pickMbox()
			remote := imap.MailboxID("no-such-remote")

			if mb != nil && rng.Intn(4) != 0 {
				remote = mb.RemoteID
			}

			target := m.mboxByRemote(remote)

			// Keep the deleted-subscription table's unique constraints satisfiable.
			if target != nil && target.Subscribed {
				for n, rid := range m.DeletedSubs {
					if rid == target.RemoteID && n != target.Name {
						target = nil
						remote = "no-such-remote"

						break
					}
				}
			}

			full := fmt.Sprintf("DeleteMailboxWithRemoteID %s", remote)
			err := tx.DeleteMailboxWithRemoteID(ctx, remote)
			c.logf("%s -> err=%v", full, err)

			if !c.expectErr(full, err, false) {
				return full, err
			}

			if target == nil {
				c.note("DeleteMailboxWithRemoteID", "missing", 1)
				return full, nil
			}

			c.note("DeleteMailboxWithRemoteID", fmt.Sprintf("ok subscribed=%v", target.Subscribed), len(target.Entries))

			if target.Subscribed {
				m.DeletedSubs[target.Name] = target.RemoteID
			}

			delete(m.Mboxes, target.ID)

			return full, nil

		case 5, 6, 7: // CreateMessages
			n := rng.Intn(4)

			var reqs []*db.CreateMessageReq
			for i := 0; i < n; i++ {
				fl := c.someFlags(3)
				if rng.Intn(6) == 0 {
					fl = append(fl, `\Deleted`)
				}

				reqs = append(reqs, c.newMsgReq(fl))
			}

			full := fmt.Sprintf("CreateMessages x%d", n)
			err := tx.CreateMessages(ctx, reqs...)
			c.logf("%s -> err=%v", full, err)
			c.note("CreateMessages", "ok", n)

			if !c.expectErr(full, err, false) {
				return full, err
			}

			for _, req := range reqs {
				modelCreateMsg(m, req, true)
			}

			return full, nil

		case 8, 9: // CreateMessageAndAddToMailbox
			mb := pickMbox()
			if mb == nil {
				continue
			}

			fl := c.someFlags(3)
			withDeleted := rng.Intn(4) == 0

			if withDeleted {
				fl = append(fl, `\Deleted`)
			}

			req := c.newMsgReq(fl)
			full := fmt.Sprintf("CreateMessageAndAddToMailbox mbox=%d flags=%v", mb.ID, fl)
			uid, flags, err := tx.CreateMessageAndAddToMailbox(ctx, mb.ID, req)
			c.logf("%s -> uid=%d flags=%v err=%v", full, uid, flags.ToSlice(), err)
			c.note("CreateMessageAndAddToMailbox", fmt.Sprintf("ok deleted=%v", withDeleted), len(fl))

			if !c.expectErr(full, err, false) {
				return full, err
			}

			msg := modelCreateMsg(m, req, false)
			mb.LastUID++
			mb.Entries = append(mb.Entries, dbEntry{UID: mb.LastUID, Msg: msg.ID, Remote: msg.RemoteID, Recent: true, Deleted: withDeleted})

			wantFlags := lowerSet(req.Message.Flags)
			wantFlags[`\recent`] = true

			c.expect(full, fmt.Sprintf("uid=%d flags=[%s]", uid, flagSetKey(flags)), fmt.Sprintf("uid=%d flags=[%s]", mb.LastUID, setKey(wantFlags)))

			return full, nil

		case 10, 11, 12: // AddMessagesToMailbox
			mb := pickMbox()
			if mb == nil {
				continue
			}

			ids := c.someMsgIDs(5)

			var valid []imap.InternalMessageID

			present := false

			for _, id := range ids {
				if m.Msgs[id] == nil {
					continue
				}

				if mb.has(id) {
					present = true
				}

				valid = append(valid, id)
			}

			if present && rng.Intn(3) != 0 {
				// Mostly respect the precondition (not yet in the mailbox).
				var v2 []imap.InternalMessageID

				for _, id := range valid {
					if !mb.has(id) {
						v2 = append(v2, id)
					}
				}

				valid, present = v2, false
			}

			pairs := pairsOf(m, valid)
			full := fmt.Sprintf("AddMessagesToMailbox mbox=%d n=%d alreadyPresent=%v", mb.ID, len(pairs), present)
			rows, err := tx.AddMessagesToMailbox(ctx, mb.ID, pairs)
			c.logf("%s -> %d rows err=%v", full, len(rows), err)

			if present {
				c.note("AddMessagesToMailbox", "constraint-error", len(pairs))

				if err == nil {
					c.violate("C08 missing-error AddMessagesToMailbox", full+" succeeded although a message is already in the mailbox")
				}

				return full, err
			}

			c.note("AddMessagesToMailbox", "ok", len(pairs))

			if !c.expectErr(full, err, false) {
				return full, err
			}

			want := modelAdd(m, mb, pairs)
			c.expect(full, uidRowsKey(rows), want)

			return full, nil

		case 13, 14: // RemoveMessagesFromMailbox
			mb := pickMbox()
			if mb == nil {
				continue
			}

			ids := c.someMsgIDs(5)
			full := fmt.Sprintf("RemoveMessagesFromMailbox mbox=%d n=%d", mb.ID, len(ids))
			err := tx.RemoveMessagesFromMailbox(ctx, mb.ID, ids)
			c.logf("%s -> err=%v", full, err)
			c.note("RemoveMessagesFromMailbox", "ok", len(ids))

			if !c.expectErr(full, err, false) {
				return full, err
			}

			modelRemove(mb, ids)

			return full, nil

		case 15: // recent flags
			mb := pickMbox()
			if mb == nil {
				continue
			}

			if rng.Intn(2) == 0 {
				full := fmt.Sprintf("ClearRecentFlagsInMailbox mbox=%d", mb.ID)
				err := tx.ClearRecentFlagsInMailbox(ctx, mb.ID)
				c.logf("%s -> err=%v", full, err)
				c.note("ClearRecentFlagsInMailbox", "ok", len(mb.Entries))

				if !c.expectErr(full, err, false) {
					return full, err
				}

				for i := range mb.Entries {
					mb.Entries[i].Recent = false
				}

				return full, nil
			}

			msg := pickMsg()
			if msg == nil {
				continue
			}

			full := fmt.Sprintf("ClearRecentFlagInMailboxOnMessage mbox=%d msg=%s", mb.ID, msg.ID.ShortID())
			err := tx.ClearRecentFlagInMailboxOnMessage(ctx, mb.ID, msg.ID)
			c.logf("%s -> err=%v", full, err)
			c.note("ClearRecentFlagInMailboxOnMessage", fmt.Sprintf("member=%v", mb.has(msg.ID)), 1)

			if !c.expectErr(full, err, false) {
				return full, err
			}

			for i := range mb.Entries {
				if mb.Entries[i].Msg == msg.ID {
					mb.Entries[i].Recent = false
				}
			}

			return full, nil

		case 16: // SetMailboxMessagesDeletedFlag
			mb := pickMbox()
			if mb == nil {
				continue
			}

			ids := c.someMsgIDs(5)
			val := rng.Intn(2) == 0
			full := fmt.Sprintf("SetMailboxMessagesDeletedFlag mbox=%d n=%d %v", mb.ID, len(ids), val)
			err := tx.SetMailboxMessagesDeletedFlag(ctx, mb.ID, ids, val)
			c.logf("%s -> err=%v", full, err)
			c.note("SetMailboxMessagesDeletedFlag", fmt.Sprint(val), len(ids))

			if !c.expectErr(full, err, false) {
				return full, err
			}

			set := map[imap.InternalMessageID]bool{}
			for _, id := range ids {
				set[id] = true
			}

			for i := range mb.Entries {
				if set[mb.Entries[i].Msg] {
					mb.Entries[i].Deleted = val
				}
			}

			return full, nil

		case 17: // mailbox attributes
			mb := pickMbox()
			if mb == nil {
				continue
			}

			switch rng.Intn(3) {
			case 0:
				val := rng.Intn(2) == 0
				full := fmt.Sprintf("SetMailboxSubscribed mbox=%d %v", mb.ID, val)
				err := tx.SetMailboxSubscribed(ctx, mb.ID, val)
				c.logf("%s -> err=%v", full, err)
				c.note("SetMailboxSubscribed", fmt.Sprint(val), 1)

				if !c.expectErr(full, err, false) {
					return full, err
				}

				mb.Subscribed = val

				return full, nil
			case 1:
				v := imap.UID(9000 + rng.Intn(1000))
				id := mb.ID
				missing := rng.Intn(5) == 0

				if missing {
					id = 987654
				}

				full := fmt.Sprintf("SetMailboxUIDValidity mbox=%d %d", id, v)
				err := tx.SetMailboxUIDValidity(ctx, id, v)
				c.logf("%s -> err=%v", full, err)
				c.note("SetMailboxUIDValidity", fmt.Sprintf("missing=%v", missing), 1)

				if missing {
					if err == nil {
						c.violate("C08 missing-error SetMailboxUIDValidity", full+" succeeded for an unknown mailbox")
					}

					return full, err
				}

				if !c.expectErr(full, err, false) {
					return full, err
				}

				mb.UIDValidity = v

				return full, nil
			default:
				c.nMbox++
				newRemote := imap.MailboxID(fmt.Sprintf("%s-rb%d", c.label, c.nMbox))
				id := mb.ID
				missing := rng.Intn(5) == 0

				if missing {
					id = 987654
				}

				full := fmt.Sprintf("UpdateRemoteMailboxID mbox=%d -> %s", id, newRemote)
				err := tx.UpdateRemoteMailboxID(ctx, id, newRemote)
				c.logf("%s -> err=%v", full, err)
				c.note("UpdateRemoteMailboxID", fmt.Sprintf("missing=%v", missing), 1)

				if missing {
					if err == nil {
						c.violate("C08 missing-error UpdateRemoteMailboxID", full+" succeeded for an unknown mailbox")
					}

					return full, err
				}

				if !c.expectErr(full, err, false) {
					return full, err
				}

				mb.RemoteID = newRemote

				return full, nil
			}

		case 18: // flags on all mailboxes
			fl := c.someFlags(2)
			if len(fl) == 0 {
				fl = []string{"kwall"}
			}

			perm := rng.Intn(2) == 0
			name := "AddFlagsToAllMailboxes"

			var err error

			if perm {
				name = "AddPermFlagsToAllMailboxes"
				err = tx.AddPermFlagsToAllMailboxes(ctx, fl...)
			} else {
				err = tx.AddFlagsToAllMailboxes(ctx, fl...)
			}

			full := fmt.Sprintf("%s %v", name, fl)
			c.logf("%s -> err=%v", full, err)
			c.note(name, "ok", len(m.Mboxes))

			if !c.expectErr(full, err, false) {
				return full, err
			}

			for _, mb := range m.Mboxes {
				for _, f := range fl {
					if perm {
						mb.PermFlags[strings.ToLower(f)] = true
					} else {
						mb.Flags[strings.ToLower(f)] = true
					}
				}
			}

			return full, nil

		case 19, 20: // mark deleted
			msg := pickMsg()

			switch rng.Intn(3) {
			case 0:
				if msg == nil {
					continue
				}

				full := fmt.Sprintf("MarkMessageAsDeleted %s", msg.ID.ShortID())
				err := tx.MarkMessageAsDeleted(ctx, msg.ID)
				c.logf("%s -> err=%v", full, err)
				c.note("MarkMessageAsDeleted", "ok", 1)

				if !c.expectErr(full, err, false) {
					return full, err
				}

				msg.Deleted = true

				return full, nil
			case 1:
				remote := imap.MessageID("no-such-remote-message")
				if msg != nil && rng.Intn(4) != 0 {
					remote = msg.RemoteID
				}

				full := fmt.Sprintf("MarkMessageAsDeletedWithRemoteID %s", remote)
				err := tx.MarkMessageAsDeletedWithRemoteID(ctx, remote)
				c.logf("%s -> err=%v", full, err)
				c.note("MarkMessageAsDeletedWithRemoteID", fmt.Sprintf("known=%v", m.msgByRemote(remote) != nil), 1)

				if !c.expectErr(full, err, false) {
					return full, err
				}

				if t := m.msgByRemote(remote); t != nil {
					t.Deleted = true
				}

				return full, nil
			default:
				if msg == nil {
					continue
				}

				full := fmt.Sprintf("MarkMessageAsDeletedAndAssignRandomRemoteID %s", msg.ID.ShortID())
				err := tx.MarkMessageAsDeletedAndAssignRandomRemoteID(ctx, msg.ID)
				c.logf("%s -> err=%v", full, err)
				c.note("MarkMessageAsDeletedAndAssignRandomRemoteID", "ok", 1)

				if !c.expectErr(full, err, false) {
					return full, err
				}

				newRemote, err := tx.GetMessageRemoteID(ctx, msg.ID)
				if !c.expectErr("GetMessageRemoteID after "+full, err, false) {
					return full, err
				}

				if !strings.HasPrefix(string(newRemote), "DELETED-") || m.msgByRemote(newRemote) != nil {
					c.violate("C08 result-differs MarkMessageAsDeletedAndAssignRandomRemoteID", fmt.Sprintf("%s left remote id %q (want a fresh DELETED-... id)", full, newRemote))
					return full, nil
				}

				msg.Deleted = true
				msg.RemoteID = newRemote

				return full, nil
			}

		case 21: // DeleteMessages (only messages that are in no mailbox, plus unknown ids)
			var ids []imap.InternalMessageID

			for _, id := range c.someMsgIDs(6) {
				if m.Msgs[id] != nil && c.inNoMailbox(m, id) {
					ids = append(ids, id)
				}
			}

			if rng.Intn(3) == 0 {
				ids = append(ids, imap.NewInternalMessageID())
			}

			full := fmt.Sprintf("DeleteMessages n=%d", len(ids))
			err := tx.DeleteMessages(ctx, ids)
			c.logf("%s -> err=%v", full, err)
			c.note("DeleteMessages", "ok", len(ids))

			if !c.expectErr(full, err, false) {
				return full, err
			}

			for _, id := range ids {
				delete(m.Msgs, id)
			}

			return full, nil

		case 22: // UpdateRemoteMessageID
			msg := pickMsg()
			id := imap.NewInternalMessageID()
			missing := true

			if msg != nil && rng.Intn(4) != 0 {
				id, missing = msg.ID, false
			}

			c.nMsg++
			newRemote := imap.MessageID(fmt.Sprintf("%s-rm%d", c.label, c.nMsg))
			full := fmt.Sprintf("UpdateRemoteMessageID %s -> %s missing=%v", id.ShortID(), newRemote, missing)
			err := tx.UpdateRemoteMessageID(ctx, id, newRemote)
			c.logf("%s -> err=%v", full, err)
			c.note("UpdateRemoteMessageID", fmt.Sprintf("missing=%v", missing), 1)

			if missing {
				if err == nil {
					c.violate("C08 missing-error UpdateRemoteMessageID", full+" succeeded for an unknown message")
				}

				return full, err
			}

			if !c.expectErr(full, err, false) {
				return full, err
			}

			msg.RemoteID = newRemote

			return full, nil

		case 23, 24, 25: // message flags
			var ids []imap.InternalMessageID

			for _, id := range c.someMsgIDs(5) {
				if m.Msgs[id] != nil {
					ids = append(ids, id)
				}
			}

			flag := c08Flags[rng.Intn(len(c08Flags))]
			if rng.Intn(3) == 0 {
				flag = strings.ToUpper(flag)
			}

			switch rng.Intn(3) {
			case 0:
				full := fmt.Sprintf("AddFlagToMessages n=%d %s", len(ids), flag)
				err := tx.AddFlagToMessages(ctx, ids, flag)
				c.logf("%s -> err=%v", full, err)
				c.note("AddFlagToMessages", "ok", len(ids))

				if !c.expectErr(full, err, false) {
					return full, err
				}

				for _, id := range ids {
					m.Msgs[id].Flags[strings.ToLower(flag)] = true
				}

				return full, nil
			case 1:
				full := fmt.Sprintf("RemoveFlagFromMessages n=%d %s", len(ids), flag)
				err := tx.RemoveFlagFromMessages(ctx, ids, flag)
				c.logf("%s -> err=%v", full, err)
				c.note("RemoveFlagFromMessages", "ok", len(ids))

				if !c.expectErr(full, err, false) {
					return full, err
				}

				for _, id := range ids {
					delete(m.Msgs[id].Flags, strings.ToLower(flag))
				}

				return full, nil
			default:
				fl := c.someFlags(3)
				if len(fl) == 0 {
					fl = []string{flag}
				}

				full := fmt.Sprintf("SetFlagsOnMessages n=%d %v", len(ids), fl)
				err := tx.SetFlagsOnMessages(ctx, ids, imap.NewFlagSet(fl...))
				c.logf("%s -> err=%v", full, err)
				c.note("SetFlagsOnMessages", fmt.Sprintf("ok nflags=%d", len(fl)), len(ids))

				if !c.expectErr(full, err, false) {
					return full, err
				}

				for _, id := range ids {
					m.Msgs[id].Flags = lowerSet(imap.NewFlagSet(fl...))
				}

				return full, nil
			}

		case 26, 27: // deleted subscriptions
			name := fmt.Sprintf("Gone %d", rng.Intn(4))

			if rng.Intn(2) == 0 {
				remote := imap.MailboxID("gone-" + name)
				full := fmt.Sprintf("AddDeletedSubscription %q %s", name, remote)
				err := tx.AddDeletedSubscription(ctx, name, remote)
				c.logf("%s -> err=%v", full, err)
				c.note("AddDeletedSubscription", fmt.Sprintf("known=%v", m.DeletedSubs[name] != ""), 1)

				if !c.expectErr(full, err, false) {
					return full, err
				}

				m.DeletedSubs[name] = remote

				return full, nil
			}

			// Also names left behind by deleted mailboxes.
			if len(m.DeletedSubs) > 0 && rng.Intn(2) == 0 {
				var names []string
				for n := range m.DeletedSubs {
					names = append(names, n)
				}

				sort.Strings(names)
				name = names[rng.Intn(len(names))]
			}

			full := fmt.Sprintf("RemoveDeletedSubscriptionWithName %q", name)
			n, err := tx.RemoveDeletedSubscriptionWithName(ctx, name)
			c.logf("%s -> %d err=%v", full, n, err)

			if !c.expectErr(full, err, false) {
				return full, err
			}

			want := 0
			if _, ok := m.DeletedSubs[name]; ok {
				want = 1
			}

			c.note("RemoveDeletedSubscriptionWithName", fmt.Sprint(want), 1)
			c.expect(full, n, want)
			delete(m.DeletedSubs, name)

			return full, nil

		default: // StoreConnectorSettings
			v := fmt.Sprintf("settings-%d", rng.Intn(1000))
			full := "StoreConnectorSettings " + v
			err := tx.StoreConnectorSettings(ctx, v)
			c.logf("%s -> err=%v", full, err)
			c.note("StoreConnectorSettings", "ok", 1)

			if !c.expectErr(full, err, false) {
				return full, err
			}

			m.Settings, m.HasSettings = v, true

			return full, nil
		}
	}
}

func removeAll(dir string) error { return osRemoveAll(dir) }

// randomReads calls n PRNG-chosen read methods (inside Read or inside a Write transaction,
// which exposes the same ReadOnly interface) and compares each result with the model.
func (c *c08Case) randomReads(n int) {
	ctx := context.Background()
	m := c.model

	body := func(ctx context.Context, rd db.ReadOnly) error {
		for i := 0; i < n && !c.failed; i++ {
			c.oneRead(ctx, rd, m)
		}

		return nil
	}

	var err error

	func() {
		defer func() {
			if v := recover(); v != nil {
				c.violate("C08 panic read", fmt.Sprintf("a read operation panicked: %v", v))
			}
		}()

		if c.rng.Intn(3) == 0 {
			err = c.client.Write(ctx, func(ctx context.Context, tx db.Transaction) error { return body(ctx, tx) })
		} else {
			err = c.client.Read(ctx, body)
		}
	}()

	if err != nil && !c.failed {
		c.violate("C08 unexpected-error read-transaction", fmt.Sprintf("read transaction failed: %v", err))
	}
}

func mboxRowKey(mb *db.Mailbox) string {
	if mb == nil {
		return "<nil>"
	}

	return fmt.Sprintf("%d %s %q %d %v", mb.ID, mb.RemoteID, mb.Name, mb.UIDValidity, mb.Subscribed)
}

func modelRowKey(mb *dbMbox) string {
	return fmt.Sprintf("%d %s %q %d %v", mb.ID, mb.RemoteID, mb.Name, mb.UIDValidity, mb.Subscribed)
}

func (c *c08Case) oneRead(ctx context.Context, rd db.ReadOnly, m *dbModel) {
	rng := c.rng

	mb := c.anyMbox()
	msg := c.anyMsg()
	missingMbox := mb == nil || rng.Intn(5) == 0
	missingMsg := msg == nil || rng.Intn(5) == 0

	mbID, mbRemote, mbName := imap.InternalMailboxID(987654), imap.MailboxID("no-such-remote"), "No Such Name"
	if !missingMbox {
		mbID, mbRemote, mbName = mb.ID, mb.RemoteID, mb.Name
	}

	msgID, msgRemote := imap.NewInternalMessageID(), imap.MessageID("no-such-remote-message")
	if !missingMsg {
		msgID, msgRemote = msg.ID, msg.RemoteID
	}

	tag := func(op string, missing bool) string {
		c.r.Distinct(fmt.Sprintf("%s missing=%v", op, missing))
		return op
	}

	switch rng.Intn(34) {
	case 0:
		got, err := rd.MailboxExistsWithID(ctx, mbID)
		if c.expectErr(tag("MailboxExistsWithID", missingMbox), err, false) {
			c.expect("MailboxExistsWithID", got, !missingMbox)
		}
	case 1:
		got, err := rd.MailboxExistsWithRemoteID(ctx, mbRemote)
		if c.expectErr(tag("MailboxExistsWithRemoteID", missingMbox), err, false) {
			c.expect("MailboxExistsWithRemoteID", got, !missingMbox)
		}
	case 2:
		got, err := rd.MailboxExistsWithName(ctx, mbName)
		if c.expectErr(tag("MailboxExistsWithName", missingMbox), err, false) {
			c.expect("MailboxExistsWithName", got, !missingMbox)
		}
	case 3:
		got, err := rd.GetMailboxIDFromRemoteID(ctx, mbRemote)
		if c.expectErr(tag("GetMailboxIDFromRemoteID", missingMbox), err, missingMbox) {
			c.expect("GetMailboxIDFromRemoteID", got, mbID)
		}
	case 4:
		got, err := rd.GetMailboxName(ctx, mbID)
		if c.expectErr(tag("GetMailboxName", missingMbox), err, missingMbox) {
			c.expect("GetMailboxName", got, mbName)
		}
	case 5:
		got, err := rd.GetMailboxNameWithRemoteID(ctx, mbRemote)
		if c.expectErr(tag("GetMailboxNameWithRemoteID", missingMbox), err, missingMbox) {
			c.expect("GetMailboxNameWithRemoteID", got, mbName)
		}
	case 6:
		if missingMbox {
			return
		}

		got, err := rd.GetMailboxMessageIDPairs(ctx, mbID)
		if c.expectErr(tag("GetMailboxMessageIDPairs", false), err, false) {
			var g, w []string
			for _, p := range got {
				g = append(g, p.InternalID.ShortID()+"/"+string(p.RemoteID))
			}

			for _, e := range mb.Entries {
				w = append(w, e.Msg.ShortID()+"/"+string(e.Remote))
			}

			sort.Strings(g)
			sort.Strings(w)
			c.expect("GetMailboxMessageIDPairs", g, w)
		}
	case 7:
		got, err := rd.GetAllMailboxesAsRemoteIDs(ctx)
		if c.expectErr(tag("GetAllMailboxesAsRemoteIDs", false), err, false) {
			var g, w []string
			for _, id := range got {
				g = append(g, string(id))
			}

			for _, x := range m.Mboxes {
				w = append(w, string(x.RemoteID))
			}

			sort.Strings(g)
			sort.Strings(w)
			c.expect("GetAllMailboxesAsRemoteIDs", g, w)
		}
	case 8:
		got, err := rd.GetMailboxByName(ctx, mbName)
		if c.expectErr(tag("GetMailboxByName", missingMbox), err, missingMbox) {
			c.expect("GetMailboxByName", mboxRowKey(got), modelRowKey(mb))
		}
	case 9:
		got, err := rd.GetMailboxByID(ctx, mbID)
		if c.expectErr(tag("GetMailboxByID", missingMbox), err, missingMbox) {
			c.expect("GetMailboxByID", mboxRowKey(got), modelRowKey(mb))
		}
	case 10:
		got, err := rd.GetMailboxByRemoteID(ctx, mbRemote)
		if c.expectErr(tag("GetMailboxByRemoteID", missingMbox), err, missingMbox) {
			c.expect("GetMailboxByRemoteID", mboxRowKey(got), modelRowKey(mb))
		}
	case 11:
		if missingMbox {
			return
		}

		got, err := rd.GetMailboxRecentCount(ctx, mbID)
		if c.expectErr(tag("GetMailboxRecentCount", false), err, false) {
			want := 0
			for _, e := range mb.Entries {
				if e.Recent {
					want++
				}
			}

			c.expect("GetMailboxRecentCount", got, want)
		}
	case 12:
		if missingMbox {
			return
		}

		got, err := rd.GetMailboxMessageCount(ctx, mbID)
		if c.expectErr(tag("GetMailboxMessageCount", false), err, false) {
			c.expect("GetMailboxMessageCount", got, len(mb.Entries))
		}
	case 13:
		got, err := rd.GetMailboxMessageCountWithRemoteID(ctx, mbRemote)
		if c.expectErr(tag("GetMailboxMessageCountWithRemoteID", missingMbox), err, missingMbox) {
			c.expect("GetMailboxMessageCountWithRemoteID", got, len(mb.Entries))
		}
	case 14:
		if missingMbox {
			return
		}

		got, err := rd.GetMailboxAttributes(ctx, mbID)
		if c.expectErr(tag("GetMailboxAttributes", false), err, false) {
			c.expect("GetMailboxAttributes", flagSetKey(got), setKey(mb.Attrs))
		}
	case 15:
		if missingMbox {
			return
		}

		got, err := rd.GetMailboxUID(ctx, mbID)
		if c.expectErr(tag("GetMailboxUID", false), err, false) {
			c.expect("GetMailboxUID", got, mb.LastUID+1)
		}
	case 16:
		var (
			ids  []imap.MailboxID
			want []string
		)

		for _, x := range m.Mboxes {
			if rng.Intn(2) == 0 {
				ids = append(ids, x.RemoteID)
				want = append(want, fmt.Sprint(x.ID))
			}
		}

		ids = append(ids, "no-such-remote")

		got, err := rd.MailboxTranslateRemoteIDs(ctx, ids)
		if c.expectErr(tag("MailboxTranslateRemoteIDs", false), err, false) {
			var g []string
			for _, id := range got {
				g = append(g, fmt.Sprint(id))
			}

			sort.Strings(g)
			sort.Strings(want)
			c.expect("MailboxTranslateRemoteIDs", g, want)
		}
	case 17:
		if missingMbox {
			return
		}

		ids := c.someMsgIDs(6)
		ids = append(ids, imap.NewInternalMessageID())

		var pairs []db.MessageIDPair
		for _, id := range ids {
			pairs = append(pairs, db.MessageIDPair{InternalID: id})
		}

		got, err := rd.MailboxFilterContains(ctx, mbID, pairs)
		if c.expectErr(tag("MailboxFilterContains", false), err, false) {
			var g, w []string
			for _, id := range got {
				g = append(g, id.ShortID())
			}

			for _, id := range ids {
				if mb.has(id) {
					w = append(w, id.ShortID())
				}
			}

			sort.Strings(g)
			sort.Strings(w)
			c.expect("MailboxFilterContains", g, w)
		}
	case 18:
		got, err := rd.GetMailboxCount(ctx)
		if c.expectErr(tag("GetMailboxCount", false), err, false) {
			c.expect("GetMailboxCount", got, len(m.Mboxes))
		}
	case 19:
		got, err := rd.GetAllMailboxesNameAndRemoteID(ctx)
		if c.expectErr(tag("GetAllMailboxesNameAndRemoteID", false), err, false) {
			var g, w []string
			for _, x := range got {
				g = append(g, x.Name+"|"+string(x.RemoteID))
			}

			for _, x := range m.Mboxes {
				w = append(w, x.Name+"|"+string(x.RemoteID))
			}

			sort.Strings(g)
			sort.Strings(w)
			c.expect("GetAllMailboxesNameAndRemoteID", g, w)
		}
	case 20:
		got, err := rd.MessageExists(ctx, msgID)
		if c.expectErr(tag("MessageExists", missingMsg), err, false) {
			c.expect("MessageExists", got, !missingMsg)
		}
	case 21:
		got, err := rd.MessageExistsWithRemoteID(ctx, msgRemote)
		if c.expectErr(tag("MessageExistsWithRemoteID", missingMsg), err, false) {
			c.expect("MessageExistsWithRemoteID", got, !missingMsg)
		}
	case 22:
		got, err := rd.GetMessageNoEdges(ctx, msgID)
		if c.expectErr(tag("GetMessageNoEdges", missingMsg), err, missingMsg) {
			c.expect("GetMessageNoEdges", fmt.Sprintf("%s %s %d %d %q %q %q %v", got.ID.ShortID(), got.RemoteID, got.Date.Unix(), got.Size, got.Body, got.BodyStructure, got.Envelope, got.Deleted),
				fmt.Sprintf("%s %s %d %d %q %q %q %v", msg.ID.ShortID(), msg.RemoteID, msg.Date.Unix(), msg.Size, msg.Body, msg.Structure, msg.Envelope, msg.Deleted))
		}
	case 23:
		got, err := rd.GetTotalMessageCount(ctx)
		if c.expectErr(tag("GetTotalMessageCount", false), err, false) {
			c.expect("GetTotalMessageCount", got, len(m.Msgs))
		}
	case 24:
		got, err := rd.GetMessageRemoteID(ctx, msgID)
		if c.expectErr(tag("GetMessageRemoteID", missingMsg), err, missingMsg) {
			c.expect("GetMessageRemoteID", got, msgRemote)
		}
	case 25:
		got, err := rd.GetImportedMessageData(ctx, msgID)
		if c.expectErr(tag("GetImportedMessageData", missingMsg), err, missingMsg) {
			c.expect("GetImportedMessageData", fmt.Sprintf("%s %s %d %d [%s]", got.ID.ShortID(), got.RemoteID, got.Date.Unix(), got.Size, flagSetKey(got.Flags)),
				fmt.Sprintf("%s %s %d %d [%s]", msg.ID.ShortID(), msg.RemoteID, msg.Date.Unix(), msg.Size, setKey(msg.Flags)))
		}
	case 26:
		d, sz, err := rd.GetMessageDateAndSize(ctx, msgID)
		if c.expectErr(tag("GetMessageDateAndSize", missingMsg), err, missingMsg) {
			c.expect("GetMessageDateAndSize", fmt.Sprintf("%d %d", d.Unix(), sz), fmt.Sprintf("%d %d", msg.Date.Unix(), msg.Size))
		}
	case 27:
		ids := c.someMsgIDs(6)
		ids = append(ids, imap.NewInternalMessageID())

		got, err := rd.GetMessagesFlags(ctx, ids)
		if c.expectErr(tag("GetMessagesFlags", false), err, false) {
			var g, w []string
			for _, f := range got {
				g = append(g, fmt.Sprintf("%s %s [%s]", f.ID.ShortID(), f.RemoteID, flagSetKey(f.FlagSet)))
			}

			for _, id := range ids {
				if x := m.Msgs[id]; x != nil {
					w = append(w, fmt.Sprintf("%s %s [%s]", x.ID.ShortID(), x.RemoteID, setKey(x.Flags)))
				}
			}

			sort.Strings(g)
			sort.Strings(w)
			c.expect("GetMessagesFlags", g, w)
		}
	case 28:
		got, err := rd.GetMessageIDsMarkedAsDelete(ctx)
		if c.expectErr(tag("GetMessageIDsMarkedAsDelete", false), err, false) {
			var g, w []string
			for _, id := range got {
				g = append(g, id.ShortID())
			}

			for _, x := range m.Msgs {
				if x.Deleted {
					w = append(w, x.ID.ShortID())
				}
			}

			sort.Strings(g)
			sort.Strings(w)
			c.expect("GetMessageIDsMarkedAsDelete", g, w)
		}
	case 29:
		got, err := rd.GetMessageIDFromRemoteID(ctx, msgRemote)
		if c.expectErr(tag("GetMessageIDFromRemoteID", missingMsg), err, missingMsg) {
			c.expect("GetMessageIDFromRemoteID", got.ShortID(), msgID.ShortID())
		}
	case 30:
		got, err := rd.GetMessageDeletedFlag(ctx, msgID)
		if c.expectErr(tag("GetMessageDeletedFlag", missingMsg), err, missingMsg) {
			c.expect("GetMessageDeletedFlag", got, msg.Deleted)
		}
	case 31:
		got, err := rd.GetMessageMailboxIDs(ctx, msgID)
		if c.expectErr(tag("GetMessageMailboxIDs", missingMsg), err, false) {
			var g, w []string
			for _, id := range got {
				g = append(g, fmt.Sprint(id))
			}

			for _, x := range m.Mboxes {
				if !missingMsg && x.has(msgID) {
					w = append(w, fmt.Sprint(x.ID))
				}
			}

			sort.Strings(g)
			sort.Strings(w)
			c.expect("GetMessageMailboxIDs", g, w)
		}
	case 32:
		if missingMbox {
			return
		}

		got, err := rd.GetMailboxFlags(ctx, mbID)
		if c.expectErr(tag("GetMailboxFlags", false), err, false) {
			c.expect("GetMailboxFlags", flagSetKey(got), setKey(mb.Flags))
		}
	default:
		if missingMbox {
			return
		}

		got, err := rd.GetMailboxPermanentFlags(ctx, mbID)
		if c.expectErr(tag("GetMailboxPermanentFlags", false), err, false) {
			c.expect("GetMailboxPermanentFlags", flagSetKey(got), setKey(mb.PermFlags))
		}
	}
}

// c08Lengths calls every list-taking method with an argument list of length n.
func c08Lengths(r *ev.Run, label string, n int) {
	client, dir, err := c08Open(r, label)
	if err != nil {
		r.Inconclusive("%s: opening database: %v", label, err)
		return
	}

	defer func() { _ = client.Close(); _ = removeAll(dir) }()

	c := &c08Case{r: r, label: label, rng: r.Rand(label), client: client, model: newDBModel()}
	r.Eval(1)

	var (
		boxA, boxB imap.InternalMailboxID
		reqs       []*db.CreateMessageReq
		ids        []imap.InternalMessageID
	)

	for i := 0; i < n; i++ {
		req := c.newMsgReq([]string{`\Seen`, "kw1"}[:i%3%2+i%2])
		reqs = append(reqs, req)
		ids = append(ids, req.InternalID)
	}

	// A few messages that are never part of the argument lists (bystanders).
	var extra []*db.CreateMessageReq
	for i := 0; i < 3; i++ {
		extra = append(extra, c.newMsgReq([]string{`\Flagged`}))
	}

	c.write("setup", func(ctx context.Context, tx db.Transaction, m *dbModel) error {
		for i, name := range []string{"LenA", "LenB"} {
			mb, err := tx.CreateMailbox(ctx, imap.MailboxID(label+"-"+name), name, imap.NewFlagSet(), imap.NewFlagSet(), imap.NewFlagSet(), imap.UID(77+i))
			if err != nil {
				return err
			}

			m.Mboxes[mb.ID] = &dbMbox{ID: mb.ID, RemoteID: mb.RemoteID, Name: name, UIDValidity: imap.UID(77 + i), Subscribed: true, Flags: map[string]bool{}, PermFlags: map[string]bool{}, Attrs: map[string]bool{}}

			if i == 0 {
				boxA = mb.ID
			} else {
				boxB = mb.ID
			}
		}

		if err := tx.CreateMessages(ctx, extra...); err != nil {
			return err
		}

		for _, req := range extra {
			modelCreateMsg(m, req, true)
		}

		// The bystanders live in both mailboxes.
		for _, box := range []imap.InternalMailboxID{boxA, boxB} {
			var pairs []db.MessageIDPair
			for _, req := range extra {
				pairs = append(pairs, db.MessageIDPair{InternalID: req.InternalID, RemoteID: req.Message.ID})
			}

			if _, err := tx.AddMessagesToMailbox(ctx, box, pairs); err != nil {
				return err
			}

			modelAdd(m, m.Mboxes[box], pairs)
		}

		return nil
	})

	if c.failed {
		return
	}

	step := func(name string, fn func(ctx context.Context, tx db.Transaction, m *dbModel) error) {
		if c.failed {
			return
		}

		c.logf("%s (n=%d)", name, n)
		c.r.Distinct(fmt.Sprintf("length %s len=%d", name, n))

		c.write(name+fmt.Sprintf(" len=%s", lenClass(n)), func(ctx context.Context, tx db.Transaction, m *dbModel) error {
			err := fn(ctx, tx, m)
			if err != nil {
				c.violate(fmt.Sprintf("C08 unexpected-error %s len=%s", name, lenClass(n)), fmt.Sprintf("%s with %d arguments failed: %v", name, n, err))
			}

			return err
		})
	}

	step("CreateMessages", func(ctx context.Context, tx db.Transaction, m *dbModel) error {
		if err := tx.CreateMessages(ctx, reqs...); err != nil {
			return err
		}

		for _, req := range reqs {
			modelCreateMsg(m, req, true)
		}

		return nil
	})

	step("AddMessagesToMailbox", func(ctx context.Context, tx db.Transaction, m *dbModel) error {
		pairs := pairsOf(m, ids)

		rows, err := tx.AddMessagesToMailbox(ctx, boxA, pairs)
		if err != nil {
			return err
		}

		want := modelAdd(m, m.Mboxes[boxA], pairs)
		c.expect(fmt.Sprintf("AddMessagesToMailbox len=%s", lenClass(n)), uidRowsKey(rows), want)

		rows, err = tx.AddMessagesToMailbox(ctx, boxB, pairs)
		if err != nil {
			return err
		}

		want = modelAdd(m, m.Mboxes[boxB], pairs)
		c.expect(fmt.Sprintf("AddMessagesToMailbox len=%s", lenClass(n)), uidRowsKey(rows), want)

		return nil
	})

	step("MailboxFilterContains+GetMessagesFlags+MailboxTranslateRemoteIDs", func(ctx context.Context, tx db.Transaction, m *dbModel) error {
		got, err := tx.MailboxFilterContains(ctx, boxA, pairsOf(m, ids))
		if err != nil {
			return err
		}

		c.expect(fmt.Sprintf("MailboxFilterContains len=%s", lenClass(n)), len(got), n)

		fl, err := tx.GetMessagesFlags(ctx, ids)
		if err != nil {
			return err
		}

		c.expect(fmt.Sprintf("GetMessagesFlags len=%s", lenClass(n)), len(fl), n)

		remotes := []imap.MailboxID{m.Mboxes[boxA].RemoteID}
		for i := 0; i < n; i++ {
			remotes = append(remotes, imap.MailboxID(fmt.Sprintf("fake-%d", i)))
		}

		remotes = append(remotes, m.Mboxes[boxB].RemoteID)

		tr, err := tx.MailboxTranslateRemoteIDs(ctx, remotes)
		if err != nil {
			return err
		}

		c.expect(fmt.Sprintf("MailboxTranslateRemoteIDs len=%s", lenClass(n)), len(tr), 2)

		return nil
	})

	step("AddFlagToMessages", func(ctx context.Context, tx db.Transaction, m *dbModel) error {
		if err := tx.AddFlagToMessages(ctx, ids, "kwlen"); err != nil {
			return err
		}

		for _, id := range ids {
			m.Msgs[id].Flags["kwlen"] = true
		}

		return nil
	})

	step("SetFlagsOnMessages", func(ctx context.Context, tx db.Transaction, m *dbModel) error {
		if err := tx.SetFlagsOnMessages(ctx, ids, imap.NewFlagSet(`\Answered`, "kwset")); err != nil {
			return err
		}

		for _, id := range ids {
			m.Msgs[id].Flags = map[string]bool{`\answered`: true, "kwset": true}
		}

		return nil
	})

	step("RemoveFlagFromMessages", func(ctx context.Context, tx db.Transaction, m *dbModel) error {
		if err := tx.RemoveFlagFromMessages(ctx, ids, "kwset"); err != nil {
			return err
		}

		for _, id := range ids {
			delete(m.Msgs[id].Flags, "kwset")
		}

		return nil
	})

	step("SetMailboxMessagesDeletedFlag", func(ctx context.Context, tx db.Transaction, m *dbModel) error {
		if err := tx.SetMailboxMessagesDeletedFlag(ctx, boxA, ids, true); err != nil {
			return err
		}

		set := map[imap.InternalMessageID]bool{}
		for _, id := range ids {
			set[id] = true
		}

		mb := m.Mboxes[boxA]
		for i := range mb.Entries {
			if set[mb.Entries[i].Msg] {
				mb.Entries[i].Deleted = true
			}
		}

		return nil
	})

	step("RemoveMessagesFromMailbox", func(ctx context.Context, tx db.Transaction, m *dbModel) error {
		if err := tx.RemoveMessagesFromMailbox(ctx, boxA, ids); err != nil {
			return err
		}

		modelRemove(m.Mboxes[boxA], ids)

		if err := tx.RemoveMessagesFromMailbox(ctx, boxB, ids); err != nil {
			return err
		}

		modelRemove(m.Mboxes[boxB], ids)

		return nil
	})

	step("DeleteMessages", func(ctx context.Context, tx db.Transaction, m *dbModel) error {
		if err := tx.DeleteMessages(ctx, ids); err != nil {
			return err
		}

		for _, id := range ids {
			delete(m.Msgs, id)
		}

		return nil
	})

	if !c.failed && r.WantSample() {
		r.Sample(map[string]any{"case": label, "argument_list_length": n, "steps": c.log})
	}
}

package checks

import (
	"bytes"
	"encoding/base64"
	"encoding/json"
	"fmt"
	"math/rand"
	"os"
	"path/filepath"
	"sort"
	"strconv"
	"strings"
	"time"
	"unsafe"

	"github.com/ProtonMail/gluon/imap"
	"github.com/ProtonMail/gluon/rfc5322"
	"github.com/ProtonMail/gluon/rfc822"

	"verifharness/ev"
)

func init() {
	register("C12", "exploration", runC12)
	ChildModes["c12"] = c12Child
}

// ---- child: runs gluon's parsers on one input after the other ---------------------------------

type c12Section struct {
	Path      []int `json:"path"`
	Off       int64 `json:"off"` // offset of the part's bytes in the message
	Len       int   `json:"len"`
	ParentOff int64 `json:"poff"` // offset / length of the parent's body
	ParentLen int   `json:"plen"`
	HdrLen    int   `json:"hlen"`
	BodyLen   int   `json:"blen"`
}

type c12Result struct {
	Name      string       `json:"name"`
	ParseErr  string       `json:"parse_err,omitempty"`
	Envelope  string       `json:"env,omitempty"` // base64
	Body      string       `json:"body,omitempty"`
	Structure string       `json:"structure,omitempty"`
	WalkErr   string       `json:"walk_err,omitempty"`
	Sections  []c12Section `json:"sections,omitempty"`
	PartCalls int          `json:"part_calls"`
	AddrErr   string       `json:"addr_err,omitempty"`
	Addrs     int          `json:"addrs"`
	CPUMillis int64        `json:"cpu_ms"` // CPU time of the process spent on this input
}

func c12Child(args []string) int {
	if len(args) < 1 {
		return 2
	}

	files, _ := filepath.Glob(filepath.Join(args[0], "*.in"))
	sort.Strings(files)

	for _, f := range files {
		name := strings.TrimSuffix(filepath.Base(f), ".in")

		data, err := os.ReadFile(f)
		if err != nil {
			continue
		}

		os.Stdout.WriteString("BEGIN " + name + "\n")

		res := c12Result{Name: name}
		cpu0 := cpuMillis()

		if strings.Contains(name, "addr") {
			list, err := rfc5322.ParseAddressList(string(data))
			if err != nil {
				res.AddrErr = err.Error()
			}

			res.Addrs = len(list)
		} else {
			c12One(data, &res)
		}

		res.CPUMillis = cpuMillis() - cpu0

		b, _ := json.Marshal(res)
		os.Stdout.WriteString("RESULT " + string(b) + "\n")
	}

	os.Stdout.WriteString("DONE\n")

	return 0
}

func c12One(data []byte, res *c12Result) {
	pm, err := imap.NewParsedMessage(data)
	if err != nil {
		res.ParseErr = err.Error()
	} else {
		res.Envelope = base64.StdEncoding.EncodeToString([]byte(pm.Envelope))
		res.Body = base64.StdEncoding.EncodeToString([]byte(pm.Body))
		res.Structure = base64.StdEncoding.EncodeToString([]byte(pm.Structure))
	}

	root := rfc822.Parse(data)

	base := uintptr(0)
	if len(data) > 0 {
		base = uintptr(unsafe.Pointer(unsafe.SliceData(data)))
	}

	off := func(b []byte) int64 {
		if len(b) == 0 || base == 0 {
			return 0
		}

		return int64(uintptr(unsafe.Pointer(unsafe.SliceData(b)))) - int64(base)
	}

	// Walk by hand: the parent of a part is the section whose Children() returned it. (Section.Identifier() is not
	// used: siblings can end up sharing one identifier slice.)
	var walk func(sec *rfc822.Section, path []int, parentOff int64, parentLen int) error

	walk = func(sec *rfc822.Section, path []int, parentOff int64, parentLen int) error {
		if len(res.Sections) >= 3000 || len(path) > 64 {
			return nil
		}

		lit := sec.Literal()
		body := sec.Body()
		entry := c12Section{Path: append([]int{}, path...), Off: off(lit), Len: len(lit), ParentOff: parentOff, ParentLen: parentLen, HdrLen: len(sec.Header()), BodyLen: len(body)}

		if parentLen == 0 {
			entry.ParentOff = entry.Off
		}

		res.Sections = append(res.Sections, entry)

		children, err := sec.Children()
		if err != nil {
			return err
		}

		for i, ch := range children {
			if err := walk(ch, append(append([]int{}, path...), i+1), off(body), len(body)); err != nil {
				return err
			}
		}

		return nil
	}

	if err := walk(root, nil, 0, len(data)); err != nil {
		res.WalkErr = err.Error()
	}

	// the library's own Walk has to survive the input as well
	visited := 0
	_ = root.Walk(func(*rfc822.Section) error { visited++; return nil })

	// part addressing as FETCH BODY[p] does it, also for parts that do not exist
	for a := 0; a <= 3; a++ {
		for b := 0; b <= 3; b++ {
			var path []int

			if a > 0 {
				path = append(path, a)
			}

			if b > 0 {
				path = append(path, b)
			}

			if p, err := root.Part(path...); err == nil && p != nil {
				_ = p.Header()
				_ = p.Body()
				_, _ = p.ParseHeader()
				_, _, _ = p.ContentType()
				_, _ = p.Children()
				_, _ = p.DecodedBody()
			}

			res.PartCalls++
		}
	}
}

// ---- a strict reader of parenthesised IMAP lists -----------------------------------------------

type pNode struct {
	Kind string // list, quoted, literal, nil, number, atom
	Str  string
	Kids []*pNode
}

func (n *pNode) isNil() bool { return n != nil && n.Kind == "nil" }

func (n *pNode) text() string {
	if n == nil {
		return ""
	}

	return n.Str
}

type pReader struct {
	b   []byte
	pos int
}

func (p *pReader) errf(f string, a ...any) error {
	lo := p.pos - 20
	if lo < 0 {
		lo = 0
	}

	hi := p.pos + 20
	if hi > len(p.b) {
		hi = len(p.b)
	}

	return fmt.Errorf("%s at byte %d (near %q)", fmt.Sprintf(f, a...), p.pos, p.b[lo:hi])
}

func (p *pReader) item() (*pNode, error) {
	if p.pos >= len(p.b) {
		return nil, p.errf("unexpected end")
	}

	switch c := p.b[p.pos]; {
	case c == '(':
		p.pos++
		n := &pNode{Kind: "list"}

		if p.pos < len(p.b) && p.b[p.pos] == ')' {
			p.pos++
			return n, nil
		}

		for {
			kid, err := p.item()
			if err != nil {
				return nil, err
			}

			n.Kids = append(n.Kids, kid)

			if p.pos >= len(p.b) {
				return nil, p.errf("list not closed")
			}

			switch {
			case p.b[p.pos] == ')':
				p.pos++
				return n, nil
			case p.b[p.pos] == ' ':
				p.pos++

				if p.pos < len(p.b) && (p.b[p.pos] == ' ' || p.b[p.pos] == ')') {
					return nil, p.errf("stray space")
				}
			case p.b[p.pos] == '(' && kid.Kind == "list":
				// body parts of a multipart follow each other without a space
			default:
				return nil, p.errf("items not separated by a space")
			}
		}
	case c == '"':
		p.pos++

		var sb []byte

		for {
			if p.pos >= len(p.b) {
				return nil, p.errf("quoted string not closed")
			}

			ch := p.b[p.pos]

			switch {
			case ch == '"':
				p.pos++
				return &pNode{Kind: "quoted", Str: string(sb)}, nil
			case ch == '\\':
				if p.pos+1 >= len(p.b) || (p.b[p.pos+1] != '"' && p.b[p.pos+1] != '\\') {
					return nil, p.errf("bad escape in quoted string")
				}

				sb = append(sb, p.b[p.pos+1])
				p.pos += 2
			case ch == '\r' || ch == '\n' || ch == 0:
				return nil, p.errf("CR, LF or NUL (0x%02x) inside a quoted string", ch)
			default:
				sb = append(sb, ch)
				p.pos++
			}
		}
	case c == '{':
		end := bytes.IndexByte(p.b[p.pos:], '}')
		if end < 0 {
			return nil, p.errf("literal prefix not closed")
		}

		n, err := strconv.Atoi(string(p.b[p.pos+1 : p.pos+end]))
		if err != nil || n < 0 {
			return nil, p.errf("bad literal length")
		}

		p.pos += end + 1

		if !bytes.HasPrefix(p.b[p.pos:], []byte("\r\n")) {
			return nil, p.errf("literal prefix not followed by CRLF")
		}

		p.pos += 2

		if p.pos+n > len(p.b) {
			return nil, p.errf("literal of %d bytes runs past the end", n)
		}

		s := string(p.b[p.pos : p.pos+n])
		p.pos += n

		return &pNode{Kind: "literal", Str: s}, nil
	default:
		start := p.pos

		for p.pos < len(p.b) {
			ch := p.b[p.pos]
			if ch == ' ' || ch == '(' || ch == ')' || ch == '"' || ch == '{' || ch < 0x20 || ch == 0x7f || ch == '%' || ch == '*' || ch == '\\' {
				break
			}

			p.pos++
		}

		if p.pos == start {
			return nil, p.errf("unexpected byte 0x%02x", p.b[p.pos])
		}

		s := string(p.b[start:p.pos])

		switch {
		case strings.EqualFold(s, "NIL"):
			return &pNode{Kind: "nil", Str: s}, nil
		case strings.Trim(s, "0123456789") == "":
			return &pNode{Kind: "number", Str: s}, nil
		}

		return &pNode{Kind: "atom", Str: s}, nil
	}
}

func parseIMAPList(b []byte) (*pNode, error) {
	p := &pReader{b: b}

	n, err := p.item()
	if err != nil {
		return nil, err
	}

	if n.Kind != "list" {
		return nil, fmt.Errorf("not a parenthesised list")
	}

	if p.pos != len(b) {
		return nil, p.errf("trailing bytes after the list")
	}

	return n, nil
}

func isNString(n *pNode) bool {
	return n.Kind == "nil" || n.Kind == "quoted" || n.Kind == "literal"
}

// checkEnvelope: 10 fields; date, subject, in-reply-to, message-id are nstrings; the six address
// fields are NIL or lists of 4-nstring addresses.
func checkEnvelope(n *pNode) error {
	if len(n.Kids) != 10 {
		return fmt.Errorf("ENVELOPE has %d fields instead of 10", len(n.Kids))
	}

	for _, i := range []int{0, 1, 8, 9} {
		if !isNString(n.Kids[i]) {
			return fmt.Errorf("ENVELOPE field %d is not an nstring", i+1)
		}
	}

	for i := 2; i <= 7; i++ {
		f := n.Kids[i]
		if f.Kind == "nil" {
			continue
		}

		// (an empty list where the grammar wants NIL is still a well-formed list: tolerated)
		if f.Kind != "list" {
			return fmt.Errorf("ENVELOPE address field %d is neither NIL nor a list", i+1)
		}

		for _, a := range f.Kids {
			if a.Kind != "list" || len(a.Kids) != 4 {
				return fmt.Errorf("ENVELOPE address field %d holds an address that is not a 4-element list", i+1)
			}

			for _, x := range a.Kids {
				if !isNString(x) {
					return fmt.Errorf("ENVELOPE address field %d holds an address element that is not an nstring", i+1)
				}
			}
		}
	}

	return nil
}

// checkBodyShape: the recursive shape of BODY / BODYSTRUCTURE.
func checkBodyShape(n *pNode, depth int) error {
	if n.Kind != "list" || len(n.Kids) == 0 {
		return fmt.Errorf("body is not a non-empty list")
	}

	if n.Kids[0].Kind == "list" {
		// multipart: 1*body SP subtype [extensions]
		i := 0
		for i < len(n.Kids) && n.Kids[i].Kind == "list" {
			if err := checkBodyShape(n.Kids[i], depth+1); err != nil {
				return err
			}

			i++
		}

		if i >= len(n.Kids) || !(n.Kids[i].Kind == "quoted" || n.Kids[i].Kind == "literal") {
			return fmt.Errorf("multipart body without a subtype string after its %d parts", i)
		}

		return nil
	}

	if len(n.Kids) < 7 {
		return fmt.Errorf("single-part body with %d fields (at least 7 needed)", len(n.Kids))
	}

	// (NIL for the media type of a part whose Content-Type is garbage is tolerated: still a well-formed list)
	for i := 0; i < 2; i++ {
		if !isNString(n.Kids[i]) {
			return fmt.Errorf("single-part body: field %d (media type) is not a string", i+1)
		}
	}

	if p := n.Kids[2]; p.Kind != "nil" {
		// (an empty list where the grammar wants NIL is tolerated)
		if p.Kind != "list" || len(p.Kids)%2 != 0 {
			return fmt.Errorf("body parameter list is neither NIL nor a list of pairs")
		}

		for _, x := range p.Kids {
			if !isNString(x) {
				return fmt.Errorf("body parameter list holds a non-string")
			}
		}
	}

	for i := 3; i <= 5; i++ {
		if !isNString(n.Kids[i]) {
			return fmt.Errorf("single-part body: field %d is not an nstring", i+1)
		}
	}

	if n.Kids[6].Kind != "number" {
		return fmt.Errorf("single-part body: size is not a number")
	}

	typ, sub := strings.ToLower(n.Kids[0].Str), strings.ToLower(n.Kids[1].Str)

	switch {
	case typ == "message" && sub == "rfc822":
		if len(n.Kids) < 10 {
			return fmt.Errorf("message/rfc822 body with %d fields (envelope, body and lines needed)", len(n.Kids))
		}

		if n.Kids[7].Kind != "list" {
			return fmt.Errorf("message/rfc822 body: envelope is not a list")
		}

		if err := checkEnvelope(n.Kids[7]); err != nil {
			return fmt.Errorf("embedded %v", err)
		}

		if err := checkBodyShape(n.Kids[8], depth+1); err != nil {
			return err
		}

		if n.Kids[9].Kind != "number" {
			return fmt.Errorf("message/rfc822 body: line count is not a number")
		}
	case typ == "text":
		if len(n.Kids) < 8 || n.Kids[7].Kind != "number" {
			return fmt.Errorf("text body without a line count")
		}
	}

	return nil
}

// ---- inputs ---------------------------------------------------------------------------------------

type c12Input struct {
	name string
	data []byte
	gen  *mimePart // non-nil: built by the generator, the tree is known
	kind string
}

var c12Tokens = []string{
	"Content-Type: multipart/mixed; boundary=b\r\n", "Content-Type: multipart/mixed; boundary=\"b\"\r\n", "Content-Type: message/rfc822\r\n", "Content-Type: text/plain; charset=utf-8\r\n",
	"Content-Type: multipart/alternative;\r\n boundary=b\r\n", "Content-Type: multipart/mixed; boundary=\r\n", "Content-Type: ;\r\n", "Content-Type: text/plain; name*0=\"a\"; name*1=\"b\"\r\n",
	"Content-Transfer-Encoding: base64\r\n", "Content-Transfer-Encoding: quoted-printable\r\n", "Content-Disposition: attachment; filename=\"x\r\n", "Content-Disposition: inline; filename*=utf-8''%e2%82%ac\r\n",
	"--b\r\n", "--b--\r\n", "--b", "--b--", "\r\n--b\r\n", "\n--b\n", "--b \t\r\n", "--bb\r\n",
	"\r\n", "\n", "\r", "\r\n\r\n", "\n\n", " ", "\t", "\x00", "\xff\xfe", ":", ": ", " : x\r\n",
	"From: a@b.c\r\n", "From: \"A \\\"q\\\" B\" <a@b.c>, group: x@y.z, <q@r>;\r\n", "From: =?utf-8?q?=C3=A9?= <e@x>\r\n", "To: undisclosed-recipients:;\r\n", "Cc: (comment (nested)) a@b (c)\r\n", "Sender: <>\r\n",
	"Subject: s\r\n", "Subject: folded\r\n over\r\n\tlines\r\n", "Subject: lf fold\n over\n", "Date: Mon, 02 Jan 2006 15:04:05 +0000\r\n", "Date: yesterday\r\n", "Message-Id: <x@y>\r\n", "In-Reply-To: <a@b> <c@d>\r\n",
	"X: " + strings.Repeat("a", 300) + "\r\n", "Received: from a\r\n by b\r\n ; date\r\n", "NoColonHeaderLine\r\n", "body text\r\n", "SGVsbG8=\r\n", "=E9=\r\n",
}

func c12Garbage(rng *rand.Rand) []byte {
	var b bytes.Buffer

	for i := 0; i < 1+rng.Intn(40); i++ {
		if rng.Intn(12) == 0 {
			junk := make([]byte, rng.Intn(30))
			rng.Read(junk)
			b.Write(junk)
		} else {
			b.WriteString(c12Tokens[rng.Intn(len(c12Tokens))])
		}
	}

	return b.Bytes()
}

func c12Mutate(rng *rand.Rand, in []byte) []byte {
	out := append([]byte{}, in...)

	for i := 0; i < 1+rng.Intn(5) && len(out) > 0; i++ {
		p := rng.Intn(len(out))

		switch rng.Intn(9) {
		case 0:
			out[p] ^= 1 << uint(rng.Intn(8))
		case 1:
			q := p + rng.Intn(len(out)-p+1)
			out = append(out[:p], out[q:]...)
		case 2:
			q := p + rng.Intn(minInt(len(out)-p, 200)+1)
			out = append(out[:q], append(append([]byte{}, out[p:q]...), out[q:]...)...)
		case 3:
			tok := c12Tokens[rng.Intn(len(c12Tokens))]
			out = append(out[:p], append([]byte(tok), out[p:]...)...)
		case 4:
			out = out[:p]
		case 5:
			out = bytes.ReplaceAll(out, []byte("\r\n"), []byte("\n"))
		case 6:
			out = bytes.Replace(out, []byte("\r\n"), []byte("\r"), 1+rng.Intn(3))
		case 7:
			out[p] = []byte{0, '\r', '\n', '"', '\\', '(', ')', '{', 0xff}[rng.Intn(9)]
		default:
			out = bytes.Replace(out, []byte("\r\n\r\n"), []byte("\r\n"), 1)
		}
	}

	return out
}

func minInt(a, b int) int {
	if a < b {
		return a
	}

	return b
}

func c12Deep(rng *rand.Rand, depth int, kind int) []byte {
	var b bytes.Buffer

	b.WriteString("From: a@b.c\r\nTo: d@e.f\r\nSubject: deep\r\nDate: Mon, 02 Jan 2006 15:04:05 +0000\r\n")

	switch kind {
	case 0: // nested multiparts
		for i := 0; i < depth; i++ {
			fmt.Fprintf(&b, "Content-Type: multipart/mixed; boundary=b%d\r\n\r\n--b%d\r\n", i, i)
		}

		b.WriteString("Content-Type: text/plain\r\n\r\nleaf\r\n")

		for i := depth - 1; i >= 0; i-- {
			fmt.Fprintf(&b, "--b%d--\r\n", i)
		}
	case 1: // nested message/rfc822
		for i := 0; i < depth; i++ {
			b.WriteString("Content-Type: message/rfc822\r\n\r\nSubject: inner\r\n")
		}

		b.WriteString("\r\nleaf\r\n")
	default: // very wide
		b.WriteString("Content-Type: multipart/mixed; boundary=w\r\n\r\n")

		for i := 0; i < depth; i++ {
			b.WriteString("--w\r\n\r\nx\r\n")
		}

		b.WriteString("--w--\r\n")
	}

	return b.Bytes()
}

// c12HeaderEdges builds a message whose header fields exercise the edges of field syntax: blanks after
// the colon, an empty or blank first line, CRLF / LF / CR line ends, folds, blank continuation lines.
func c12HeaderEdges(rng *rand.Rand) []byte {
	var b bytes.Buffer

	names := []string{"From", "To", "Cc", "Bcc", "Sender", "Reply-To", "Subject", "Date", "Message-Id", "In-Reply-To", "Content-Type", "Content-Disposition", "Content-Transfer-Encoding", "Content-Id", "Content-Description", "Content-Language", "Content-Location", "Content-MD5", "X-Other"}
	values := map[string][]string{
		"Content-Type":        {"text/plain; charset=utf-8", "multipart/mixed; boundary=b", "message/rfc822", "text/html;\x00", "multipart/mixed;"},
		"Content-Disposition": {"attachment; filename=\"a b.txt\"", "inline"},
		"Date":                {"Mon, 02 Jan 2006 15:04:05 +0000", "junk"},
	}
	nl := []string{"\r\n", "\r\n", "\n", "\n", "\r"}[rng.Intn(5)]

	for _, p := range rng.Perm(len(names))[:3+rng.Intn(len(names)-3)] {
		name := names[p]
		vals := values[name]

		if vals == nil {
			vals = []string{"alice@example.com", "Alice <alice@example.com>, bob@example.org", "some words here", "<id@host>"}
		}

		val := vals[rng.Intn(len(vals))]
		if rng.Intn(4) == 0 {
			name = []string{strings.ToUpper(name), strings.ToLower(name)}[rng.Intn(2)]
		}

		b.WriteString(name)
		b.WriteString([]string{":", ": ", ":\t", ":  ", " :", ": \t "}[rng.Intn(6)])

		words := strings.Fields(val)

		switch rng.Intn(5) {
		case 0: // value on the first line
			b.WriteString(val + nl)
		case 1: // empty first line, the value on a continuation line
			b.WriteString(nl + []string{" ", "\t", "   "}[rng.Intn(3)] + val + nl)
		case 2: // folded between the words
			for i, w := range words {
				if i > 0 {
					b.WriteString(nl + []string{" ", "\t"}[rng.Intn(2)])
				}

				b.WriteString(w)
			}

			b.WriteString(nl)
		case 3: // no value at all
			b.WriteString(nl)
		default: // blank continuation lines around the value
			b.WriteString(nl + " " + nl + "\t" + val + nl + " " + nl)
		}
	}

	b.WriteString(nl)

	if rng.Intn(2) == 0 {
		b.WriteString("--b" + nl + "Content-Type:" + []string{" ", "\t", ""}[rng.Intn(3)] + nl + " text/html" + nl + nl + "part" + nl + "--b--" + nl)
	} else {
		b.WriteString("body" + nl)
	}

	return b.Bytes()
}

// c12Encoded builds a message whose header values are *encoded* (RFC 2047 words in display names and
// unstructured fields, RFC 2231 extended parameters): what the value decodes to - NUL, CR, LF, quotes,
// backslashes, braces, parentheses, 8-bit bytes in any mix - can be put into a value no raw header line
// can carry, and it is the decoded value that ENVELOPE and BODYSTRUCTURE have to render.
func c12Encoded(rng *rand.Rand) []byte {
	hostile := []byte{0, 0, '\n', '\n', '\r', '"', '\\', '{', '}', '(', ')', ' ', '\t', 0x7f, 0xe9, 0xff, '%', '=', '?', '_', 'a', 'b', 'Z', '1'}
	payload := func() []byte {
		b := make([]byte, rng.Intn(12))
		for i := range b {
			b[i] = hostile[rng.Intn(len(hostile))]
		}

		return b
	}
	word := func() string { // RFC 2047
		cs := []string{"utf-8", "UTF-8", "iso-8859-1", "us-ascii", "x-unknown"}[rng.Intn(5)]
		p := payload()

		if rng.Intn(2) == 0 {
			return "=?" + cs + "?b?" + base64.StdEncoding.EncodeToString(p) + "?="
		}

		var q strings.Builder
		for _, c := range p {
			fmt.Fprintf(&q, "=%02X", c)
		}

		return "=?" + cs + "?q?" + q.String() + "?="
	}
	ext := func(name string) string { // RFC 2231
		cs := []string{"utf-8", "UTF-8", "iso-8859-1", "", "x-unknown"}[rng.Intn(5)]

		var q strings.Builder
		for _, c := range payload() {
			fmt.Fprintf(&q, "%%%02X", c)
		}

		if rng.Intn(4) == 0 { // continuation form
			return name + "*0*=" + cs + "''" + q.String() + "; " + name + "*1*=%00%0A; " + name + "*2=\"tail\""
		}

		return name + "*=" + cs + "'" + []string{"", "en"}[rng.Intn(2)] + "'" + q.String()
	}

	var b bytes.Buffer

	for _, h := range []string{"From", "To", "Cc", "Bcc", "Sender", "Reply-To"} {
		if rng.Intn(2) == 0 {
			switch rng.Intn(3) {
			case 0:
				fmt.Fprintf(&b, "%s: %s <u@example.com>\r\n", h, word())
			case 1:
				fmt.Fprintf(&b, "%s: %s %s <u@example.com>, \"q\" <v@example.com>\r\n", h, word(), word())
			default:
				fmt.Fprintf(&b, "%s: %s: %s <u@example.com>;\r\n", h, word(), word())
			}
		}
	}

	fmt.Fprintf(&b, "Subject: %s\r\nMessage-Id: <%s@x>\r\nIn-Reply-To: %s\r\nDate: Mon, 02 Jan 2006 15:04:05 +0000\r\n", word(), word(), word())

	part := func() string {
		return fmt.Sprintf("Content-Type: %s; %s; charset=utf-8\r\nContent-Disposition: %s; %s\r\nContent-Description: %s\r\nContent-Id: %s\r\nContent-Language: %s\r\nContent-Location: %s\r\n",
			[]string{"text/plain", "application/octet-stream", "image/png"}[rng.Intn(3)], ext([]string{"name", "x-p", "charset"}[rng.Intn(3)]),
			[]string{"attachment", "inline"}[rng.Intn(2)], ext([]string{"filename", "x-q"}[rng.Intn(2)]), word(), word(), word(), word())
	}

	if rng.Intn(2) == 0 {
		b.WriteString(part() + "\r\nbody\r\n")
	} else {
		fmt.Fprintf(&b, "Content-Type: multipart/mixed; boundary=b; %s\r\n\r\n--b\r\n%s\r\none\r\n--b\r\n%s\r\ntwo\r\n--b--\r\n", ext("x-r"), part(), part())
	}

	return b.Bytes()
}

func c12Address(rng *rand.Rand) []byte {
	toks := []string{"a@b.c", "<a@b.c>", "\"Q \\\" x\" <q@r.s>", "group:", ";", ",", " ", "(c)", "(c (n))", "=?utf-8?q?=C3=A9?=", "<", ">", "@", ".", "\"", "\\", "\r\n ", "[1.2.3.4]", "user@[ipv6:::1]", "a..b@c", "\x00", "\xe9", ":", "undisclosed-recipients:;", "<@route:a@b>", "very.long." + strings.Repeat("x", 200) + "@d"}

	var b bytes.Buffer
	for i := 0; i < 1+rng.Intn(12); i++ {
		b.WriteString(toks[rng.Intn(len(toks))])
	}

	return b.Bytes()
}

// ---- expected structure of a generated message ---------------------------------------------------

func lineCountOK(body []byte, got int) bool {
	n := bytes.Count(body, []byte("\n"))
	if len(body) > 0 && body[len(body)-1] != '\n' {
		return got == n+1 || got == n
	}

	return got == n
}

// errEmbeddedAsMultipart marks the recorded finding: gluon describes a message/rfc822 part whose embedded
// message is a multipart as ("multipart" "rfc822") (its own test suite asserts that shape).
type errEmbeddedAsMultipart struct{ path string }

func (e errEmbeddedAsMultipart) Error() string {
	return fmt.Sprintf("part %q: built as message/rfc822 holding a multipart message; the structure shows a multipart with subtype \"rfc822\" instead of (\"message\" \"rfc822\" ... envelope body lines)", e.path)
}

func compareStructure(n *pNode, p *mimePart, path string) error {
	if n == nil || n.Kind != "list" {
		return fmt.Errorf("part %q: no list", path)
	}

	if p.IsMessage() && p.Embedded != nil && p.Embedded.IsMultipart() && len(p.Embedded.Children) > 0 && len(n.Kids) > 0 && n.Kids[0].Kind == "list" {
		k := 0
		for k < len(n.Kids) && n.Kids[k].Kind == "list" {
			k++
		}

		if k < len(n.Kids) && strings.EqualFold(n.Kids[k].Str, "rfc822") {
			return errEmbeddedAsMultipart{path}
		}
	}

	if p.IsMultipart() && len(p.Children) > 0 {
		var kids []*pNode

		i := 0
		for i < len(n.Kids) && n.Kids[i].Kind == "list" {
			kids = append(kids, n.Kids[i])
			i++
		}

		if len(kids) != len(p.Children) {
			return fmt.Errorf("part %q: multipart/%s was built with %d parts, the structure shows %d", path, p.Sub, len(p.Children), len(kids))
		}

		if i >= len(n.Kids) || !strings.EqualFold(n.Kids[i].Str, p.Sub) {
			return fmt.Errorf("part %q: multipart subtype %q expected, got %q", path, p.Sub, n.Kids[minInt(i, len(n.Kids)-1)].Str)
		}

		for k, c := range p.Children {
			if err := compareStructure(kids[k], c, fmt.Sprintf("%s.%d", path, k+1)); err != nil {
				return err
			}
		}

		return nil
	}

	if n.Kids[0].Kind == "list" {
		return fmt.Errorf("part %q: built as %s/%s, the structure shows a multipart", path, p.Type, p.Sub)
	}

	if len(n.Kids) < 7 {
		return fmt.Errorf("part %q: too few fields", path)
	}

	if p.Type != "" {
		if !strings.EqualFold(n.Kids[0].Str, p.Type) || !strings.EqualFold(n.Kids[1].Str, p.Sub) {
			return fmt.Errorf("part %q: built as %s/%s, the structure says %s/%s", path, p.Type, p.Sub, n.Kids[0].Str, n.Kids[1].Str)
		}

		want := map[string]string{}
		for _, kv := range p.Params {
			want[strings.ToLower(kv[0])] = kv[1]
		}

		got := map[string]string{}

		if n.Kids[2].Kind == "list" {
			for i := 0; i+1 < len(n.Kids[2].Kids); i += 2 {
				got[strings.ToLower(n.Kids[2].Kids[i].Str)] = n.Kids[2].Kids[i+1].Str
			}
		}

		if fmt.Sprint(want) != fmt.Sprint(got) {
			return fmt.Errorf("part %q: content-type parameters %v expected, the structure says %v", path, want, got)
		}
	}

	size, _ := strconv.Atoi(n.Kids[6].Str)
	if size != len(p.Body) {
		return fmt.Errorf("part %q: body of %d bytes, the structure says %d", path, len(p.Body), size)
	}

	typ, sub := strings.ToLower(n.Kids[0].Str), strings.ToLower(n.Kids[1].Str)

	// extension data (BODYSTRUCTURE only): the disposition must be the part's own
	if p.Type != "" {
		base := 7

		switch {
		case typ == "message" && sub == "rfc822":
			base = 10
		case typ == "text":
			base = 8
		}

		if len(n.Kids) > base+1 {
			squash := func(s string) string { return strings.Join(strings.Fields(s), " ") }
			dsp := n.Kids[base+1]
			got := "NIL"

			if dsp.Kind == "list" && len(dsp.Kids) > 0 {
				got = strings.ToLower(dsp.Kids[0].Str)

				if len(dsp.Kids) > 1 && dsp.Kids[1].Kind == "list" {
					for i := 0; i+1 < len(dsp.Kids[1].Kids); i += 2 {
						got += fmt.Sprintf(" %s=%s", strings.ToLower(dsp.Kids[1].Kids[i].Str), squash(dsp.Kids[1].Kids[i+1].Str))
					}
				}
			}

			want := "NIL"
			if p.Disp != "" {
				want = strings.ToLower(p.Disp)
				for _, kv := range p.DispParam {
					want += fmt.Sprintf(" %s=%s", strings.ToLower(kv[0]), squash(kv[1]))
				}
			}

			if got != want {
				return fmt.Errorf("part %q: built with the disposition %q, the structure says %q", path, want, got)
			}
		}
	}

	switch {
	case typ == "message" && sub == "rfc822" && p.Embedded != nil:
		if len(n.Kids) < 10 {
			return fmt.Errorf("part %q: message/rfc822 without envelope/body/lines", path)
		}

		lines, _ := strconv.Atoi(n.Kids[9].Str)
		if !lineCountOK(p.Body, lines) {
			return fmt.Errorf("part %q: message/rfc822 body has %d line ends, the structure says %d lines", path, bytes.Count(p.Body, []byte("\n")), lines)
		}

		return compareStructure(n.Kids[8], p.Embedded, path+"(embedded)")
	case typ == "text":
		if len(n.Kids) < 8 {
			return fmt.Errorf("part %q: text without line count", path)
		}

		lines, _ := strconv.Atoi(n.Kids[7].Str)
		if !lineCountOK(p.Body, lines) {
			return fmt.Errorf("part %q: text body has %d line ends, the structure says %d lines", path, bytes.Count(p.Body, []byte("\n")), lines)
		}
	}

	return nil
}

// ---- the check ---------------------------------------------------------------------------------------

func runC12(r *ev.Run) {
	r.SetRule("inputs: generated MIME trees (structure known by construction), mutations of them (bit flips, cuts, duplications, inserted tokens, truncation, LF / bare CR line ends, NUL and list-syntax bytes), token soup of MIME/header fragments, encoded header values (RFC 2047 words and RFC 2231 extended parameters that decode to NUL, CR, LF, quotes, backslashes, braces, parentheses, 8-bit bytes), header-field edge cases (blanks after the colon, empty or blank first line, CRLF/LF/CR ends, folds, blank continuation lines for every field ENVELOPE and BODYSTRUCTURE read), random bytes, deep nesting in doubling series (message/rfc822 to 2000 / 4000 levels, multiparts to 1500 / 20000 levels), very wide multiparts, huge header lines, and address-list soup for rfc5322.ParseAddressList. A child process runs imap.NewParsedMessage, rfc822.Parse/Walk/Part (incl. part paths that do not exist) on each input and logs BEGIN/RESULT lines; the parent decides: the child must not die or hang on any input; ENVELOPE / BODY / BODYSTRUCTURE must read as strict parenthesised lists (balanced, quoted strings without CR/LF/NUL and with proper escapes, literals of the announced length, single spaces) of the ENVELOPE (10 fields, address 4-tuples) and body shapes; every walked part must lie inside the message and inside its parent's body; for generated messages the structure must equal the tree (types, parameters, sizes, line counts, nesting, each part's own disposition); the CPU time per input (reported by the child) may not more than triple when the nesting depth doubles. distinct = distinct (input kind, outcome, structure shape class) tuples")
	r.Assume("a non-terminating parse is reported only after the single input, re-run alone in a fresh process, still has not finished after 60 s (inputs are below 3 MB); an error return from NewParsedMessage is a legitimate outcome for malformed input")

	rng := r.Rand("inputs")
	nGen := r.Pick(300, 4000)
	nMut := r.Pick(900, 15000)
	nSoup := r.Pick(600, 10000)
	nRand := r.Pick(200, 3000)
	nAddr := r.Pick(400, 6000)
	maxDepth := r.Pick(1500, 20000)

	var inputs []c12Input

	add := func(kind string, data []byte, gen *mimePart) {
		inputs = append(inputs, c12Input{name: fmt.Sprintf("%06d-%s", len(inputs), kind), data: data, gen: gen, kind: kind})
	}

	var gens [][]byte

	for i := 0; i < nGen; i++ {
		g := &mimeGen{rng: rng, nl: []string{"\r\n", "\r\n", "\n"}[rng.Intn(3)], maxDepth: 1 + rng.Intn(4), eightBit: rng.Intn(2) == 0}
		m := g.message(0, fmt.Sprintf("c12-%d", i))
		b := m.Bytes()
		gens = append(gens, b)
		add("gen", b, m)
	}

	for i := 0; i < nMut; i++ {
		add("mutated", c12Mutate(rng, gens[rng.Intn(len(gens))]), nil)
	}

	for i := 0; i < nSoup; i++ {
		add("soup", c12Garbage(rng), nil)
	}

	for i := 0; i < r.Pick(800, 12000); i++ {
		add("hdredge", c12HeaderEdges(rng), nil)
	}

	for i := 0; i < r.Pick(600, 8000); i++ {
		add("encoded", c12Encoded(rng), nil)
	}

	for i := 0; i < nRand; i++ {
		b := make([]byte, rng.Intn(2000))
		rng.Read(b)
		add("random", b, nil)
	}

	// doubling series: besides crash/hang they feed the cost monitor (CPU time per input as the child reports it)
	depths := []int{1, 2, 10, 125, 250, 500, 1000, 2000}
	if maxDepth > 2000 {
		depths = append(depths, 4000)
	}

	for _, d := range depths {
		for k := 0; k < 3; k++ {
			add(fmt.Sprintf("deep%d-%d", k, d), c12Deep(rng, d, k), nil)
		}
	}

	// multiparts are cheap: they go much deeper
	add(fmt.Sprintf("deep0-%d", maxDepth), c12Deep(rng, maxDepth, 0), nil)
	add(fmt.Sprintf("deep2-%d", maxDepth*5), c12Deep(rng, maxDepth*5, 2), nil)

	add("longline", []byte("From: a@b.c\r\nSubject: "+strings.Repeat("x", 1<<20)+"\r\nDate: Mon, 02 Jan 2006 15:04:05 +0000\r\n\r\nbody"), nil)
	add("manyheaders", []byte(strings.Repeat("X-H: v\r\n", 50000)+"\r\nbody"), nil)
	add("empty", nil, nil)

	for i := 0; i < nAddr; i++ {
		add("addr", c12Address(rng), nil)
	}

	byName := map[string]*c12Input{}
	for i := range inputs {
		byName[inputs[i].name] = &inputs[i]
	}

	// batches, one child each
	const batchSize = 400

	nBatches := (len(inputs) + batchSize - 1) / batchSize
	results := make([]map[string]*c12Result, nBatches)
	crashed := make([][]string, nBatches)
	crashInfo := make([]map[string]string, nBatches)

	ev.Parallel(nBatches, 12, func(bi int) {
		lo, hi := bi*batchSize, minInt((bi+1)*batchSize, len(inputs))
		results[bi] = map[string]*c12Result{}
		crashInfo[bi] = map[string]string{}
		pending := inputs[lo:hi]

		for round := 0; len(pending) > 0 && round < 50; round++ {
			dir := filepath.Join(r.WorkDir(), fmt.Sprintf("batch-%d-%d", bi, round))
			_ = os.MkdirAll(dir, 0o755)

			for _, in := range pending {
				_ = os.WriteFile(filepath.Join(dir, in.name+".in"), in.data, 0o644)
			}

			cr := runChild(dir, false, 5*time.Minute, nil, "c12", dir)

			begun, done := "", map[string]bool{}

			for _, line := range strings.Split(cr.Stdout, "\n") {
				switch {
				case strings.HasPrefix(line, "BEGIN "):
					begun = strings.TrimPrefix(line, "BEGIN ")
				case strings.HasPrefix(line, "RESULT "):
					var res c12Result
					if json.Unmarshal([]byte(strings.TrimPrefix(line, "RESULT ")), &res) == nil {
						results[bi][res.Name] = &res
						done[res.Name] = true
					}
				}
			}

			var rest []c12Input

			for _, in := range pending {
				if !done[in.name] && in.name != begun {
					rest = append(rest, in)
				}
			}

			if begun != "" && !done[begun] {
				// the child died or hung on this input: run it alone
				one := filepath.Join(dir, "alone")
				_ = os.MkdirAll(one, 0o755)
				_ = os.WriteFile(filepath.Join(one, begun+".in"), byName[begun].data, 0o644)

				cr1 := runChild(one, false, 60*time.Second, nil, "c12", one)

				switch {
				case strings.Contains(cr1.Stdout, "RESULT "):
					// finished alone: the batch death was something else (e.g. the batch watchdog)
					for _, line := range strings.Split(cr1.Stdout, "\n") {
						if strings.HasPrefix(line, "RESULT ") {
							var res c12Result
							if json.Unmarshal([]byte(strings.TrimPrefix(line, "RESULT ")), &res) == nil {
								results[bi][res.Name] = &res
							}
						}
					}
				case cr1.TimedOut:
					crashed[bi] = append(crashed[bi], begun)
					crashInfo[bi][begun] = "no result after 60 s alone in a fresh process\n" + lastLines(cr1.Stderr, 25)
				default:
					crashed[bi] = append(crashed[bi], begun)
					crashInfo[bi][begun] = fmt.Sprintf("%s (exit code %d signal %q)\n%s", firstLine(firstPanicLines(cr1.Stderr)), cr1.ExitCode, cr1.Signal, firstPanicLines(cr1.Stderr))
				}
			}

			pending = rest

			_ = os.RemoveAll(dir)
		}
	})

	// judge
	for bi := range results {
		for _, name := range crashed[bi] {
			in := byName[name]
			sig := "C12 process-died " + in.kind

			if strings.HasPrefix(crashInfo[bi][name], "no result") {
				sig = "C12 no-termination " + in.kind
			}

			r.Violate(sig, fmt.Sprintf("the parsers did not survive input %s (%d bytes): %s", name, len(in.data), firstLine(crashInfo[bi][name])), name, map[string]any{"input_base64": base64.StdEncoding.EncodeToString(truncBytes(in.data, 200000)), "stderr": crashInfo[bi][name]})
		}
	}

	// cost monitor: CPU time against nesting depth. Doubling the depth may double the work, not quadruple it.
	type costPoint struct {
		depth int
		cpu   int64
	}

	series := map[string][]costPoint{}

	for bi := range results {
		for name, res := range results[bi] {
			if i := strings.Index(name, "-deep"); i >= 0 {
				var kind, depth int
				if _, err := fmt.Sscanf(name[i+1:], "deep%d-%d", &kind, &depth); err == nil {
					k := []string{"nested multipart", "nested message/rfc822", "wide multipart"}[kind]
					series[k] = append(series[k], costPoint{depth, res.CPUMillis})
				}
			}
		}
	}

	for kind, pts := range series {
		sort.Slice(pts, func(i, j int) bool { return pts[i].depth < pts[j].depth })

		var desc []string
		for _, p := range pts {
			desc = append(desc, fmt.Sprintf("%d levels: %d ms", p.depth, p.cpu))
		}

		r.Set("cpu_by_depth "+kind, desc)

		for i := 0; i+1 < len(pts); i++ {
			a, b := pts[i], pts[i+1]
			if b.depth == 2*a.depth && a.cpu >= 1000 && b.cpu >= 3*a.cpu+200 {
				r.Violate("C12 superlinear-cost "+kind, fmt.Sprintf("structure/envelope computation of %s: %d levels cost %d ms CPU, %d levels %d ms (x%.1f for twice the input): at this rate a message of a few MB keeps a CPU busy for hours", kind, a.depth, a.cpu, b.depth, b.cpu, float64(b.cpu)/float64(a.cpu)), "cost-"+kind, map[string]any{"cpu_by_depth": desc})

				break
			}
		}
	}

	for i := range inputs {
		in := &inputs[i]

		var res *c12Result
		for bi := range results {
			if x, ok := results[bi][in.name]; ok {
				res = x
			}
		}

		if res == nil {
			continue
		}

		r.Eval(1)
		c12Judge(r, in, res)
	}
}

func truncBytes(b []byte, n int) []byte {
	if len(b) > n {
		return b[:n]
	}

	return b
}

func lastLines(s string, n int) string {
	l := strings.Split(strings.TrimSpace(s), "\n")
	if len(l) > n {
		l = l[len(l)-n:]
	}

	return strings.Join(l, "\n")
}

func firstPanicLines(s string) string {
	i := strings.Index(s, "panic:")
	if j := strings.Index(s, "fatal error:"); j >= 0 && (i < 0 || j < i) {
		i = j
	}

	if i < 0 {
		return lastLines(s, 20)
	}

	l := strings.Split(s[i:], "\n")
	if len(l) > 30 {
		l = l[:30]
	}

	return strings.Join(l, "\n")
}

func shapeClass(n *pNode, depth int) string {
	if n == nil || n.Kind != "list" || len(n.Kids) == 0 {
		return "?"
	}

	if n.Kids[0].Kind == "list" {
		k := 0
		for k < len(n.Kids) && n.Kids[k].Kind == "list" {
			k++
		}

		if depth >= 2 {
			return "mp" + lenClass(k)
		}

		return "mp" + lenClass(k) + "[" + shapeClass(n.Kids[0], depth+1) + "]"
	}

	return strings.ToLower(n.Kids[0].Str + "/" + n.Kids[1].Str)
}

func c12Judge(r *ev.Run, in *c12Input, res *c12Result) {
	witness := func() map[string]any {
		return map[string]any{"input_base64": base64.StdEncoding.EncodeToString(truncBytes(in.data, 200000)), "result": res}
	}

	if in.kind == "addr" {
		r.Distinct(fmt.Sprintf("addr err=%v n=%s", res.AddrErr != "", lenClass(res.Addrs)))
		return
	}

	if res.ParseErr != "" {
		r.Distinct(fmt.Sprintf("%s parse-error %s", kindClass(in.kind), shorten(res.ParseErr, 40)))

		if in.gen != nil {
			r.Violate("C12 wellformed-message-refused", fmt.Sprintf("NewParsedMessage failed on the generated message %s: %s", in.name, res.ParseErr), in.name, witness())
		}
	} else {
		env, _ := base64.StdEncoding.DecodeString(res.Envelope)
		body, _ := base64.StdEncoding.DecodeString(res.Body)
		st, _ := base64.StdEncoding.DecodeString(res.Structure)

		en, err := parseIMAPList(env)
		if err == nil {
			err = checkEnvelope(en)
		}

		if err != nil {
			r.Violate("C12 envelope-malformed "+kindClass(in.kind), fmt.Sprintf("ENVELOPE of %s is not well-formed: %v: %q", in.name, err, shorten(string(env), 300)), in.name, witness())
			return
		}

		var bn *pNode

		for which, txt := range map[string][]byte{"BODY": body, "BODYSTRUCTURE": st} {
			n, err := parseIMAPList(txt)
			if err == nil {
				err = checkBodyShape(n, 0)
			}

			if err != nil {
				r.Violate("C12 "+strings.ToLower(which)+"-malformed "+kindClass(in.kind), fmt.Sprintf("%s of %s is not well-formed: %v: %q", which, in.name, err, shorten(string(txt), 300)), in.name, witness())
				return
			}

			if which == "BODYSTRUCTURE" {
				bn = n
			}
		}

		r.Distinct(fmt.Sprintf("%s ok %s", kindClass(in.kind), shapeClass(bn, 0)))

		if in.gen != nil {
			for which, txt := range map[string][]byte{"BODY": body, "BODYSTRUCTURE": st} {
				n, _ := parseIMAPList(txt)
				if err := compareStructure(n, in.gen, ""); err != nil {
					if _, ok := err.(errEmbeddedAsMultipart); ok {
						r.Violate("C12 embedded-multipart-message-described-as-multipart/rfc822", fmt.Sprintf("%s of the generated message %s: %v", which, in.name, err), in.name, witness())
						r.Count("generated_messages_hitting_the_recorded_finding", 1)

						break
					}

					r.Violate("C12 structure-differs-from-tree", fmt.Sprintf("%s of the generated message %s: %v", which, in.name, err), in.name, witness())

					return
				}
			}
		}
	}

	// containment of the walked parts
	for _, s := range res.Sections {
		if s.Len == 0 {
			continue
		}

		if s.Off < 0 || s.Off+int64(s.Len) > int64(len(in.data)) {
			r.Violate("C12 part-outside-message "+kindClass(in.kind), fmt.Sprintf("%s: part %v covers bytes %d..%d of a message of %d bytes", in.name, s.Path, s.Off, s.Off+int64(s.Len), len(in.data)), in.name, witness())
			return
		}

		if len(s.Path) > 0 && (s.Off < s.ParentOff || s.Off+int64(s.Len) > s.ParentOff+int64(s.ParentLen)) {
			r.Violate("C12 part-outside-parent "+kindClass(in.kind), fmt.Sprintf("%s: part %v covers bytes %d..%d, its parent's body %d..%d", in.name, s.Path, s.Off, s.Off+int64(s.Len), s.ParentOff, s.ParentOff+int64(s.ParentLen)), in.name, witness())
			return
		}

		if s.HdrLen+s.BodyLen > s.Len {
			r.Violate("C12 header-and-body-exceed-part "+kindClass(in.kind), fmt.Sprintf("%s: part %v has %d bytes but a header of %d and a body of %d", in.name, s.Path, s.Len, s.HdrLen, s.BodyLen), in.name, witness())
			return
		}
	}

	r.Count("parts_walked", len(res.Sections))
}

func kindClass(k string) string {
	if strings.HasPrefix(k, "deep") {
		return "deep"
	}

	return k
}

package checks

import (
	"fmt"
	"sort"
	"strconv"
	"strings"

	"verifharness/ev"
	"verifharness/imapc"
	"verifharness/srv"
)

// C03 "live" histories: sessions keep their mailbox selected (no re-SELECT before a command), so
// their views can lag behind: they may still hold messages that another session expunged. Commands
// are UID-based and restricted to what the issuing session's view contains (read with a FETCH,
// which holds expunges back), so the reference model stays deterministic:
//   - on messages the mailbox still holds, the command has its normal effect;
//   - on messages that were already expunged elsewhere ("ghosts") a MOVE / UID EXPUNGE has no effect.

type liveView struct {
	uid   uint32
	flags string
}

func c03LiveHistory(r *ev.Run, label string, steps int) {
	rng := r.Rand(label)

	w, err := newWorld(r, "C03", label, 3, c03Boxes, func(o *srv.Options) {})
	if err != nil {
		r.Inconclusive("%s: %v", label, err)
		return
	}

	defer w.close()

	w.noRefile = true

	c := &c03Case{r: r, label: label, rng: rng, s: w.s, model: newMailModel(c03Boxes...)}
	uidOf := map[string]map[uint32]string{}   // box -> uid -> marker (current)
	everUID := map[string]map[uint32]string{} // box -> uid -> marker (ever)

	for _, b := range c03Boxes {
		uidOf[b] = map[uint32]string{}
		everUID[b] = map[uint32]string{}
	}

	violate := func(sig, what string) {
		c.log = w.getLog()
		c.violate(sig, what)

		w.mu.Lock()
		w.failed = true
		w.mu.Unlock()
	}

	// refresh compares the authoritative content of the given boxes with the model and re-reads the UID map.
	refresh := func(boxes []string, unordered map[string][][]string, after string) bool {
		for _, b := range boxes {
			v, err := freshView(w.s, 0, b, false)
			if err != nil {
				violate("C03 live fresh-view-failed", fmt.Sprintf("fresh view of %s: %v", b, err))
				return false
			}

			if kind, diff := compareBox(c.model.box(b), v, unordered[b], false, nil); diff != "" {
				violate("C03 live content-differs "+kind, fmt.Sprintf("mailbox %s differs from the reference model after %q: %s", b, after, diff))
				return false
			}

			// adopt the server's order inside unordered batches and record UIDs
			byMarker := map[string]*mEntry{}
			for _, e := range c.model.box(b).Entries {
				byMarker[e.Msg.Marker] = e
			}

			var entries []*mEntry

			uidOf[b] = map[uint32]string{}

			for _, m := range v.Msgs {
				entries = append(entries, byMarker[m.Marker])
				uidOf[b][m.UID] = m.Marker
				everUID[b][m.UID] = m.Marker
			}

			c.model.box(b).Entries = entries
		}

		return true
	}

	for _, s := range w.sess {
		w.selectBox(s, c03Boxes[rng.Intn(len(c03Boxes))], false)
	}

	r.Eval(1)

	ghostsUsed := 0

	for step := 0; step < steps && !w.isFailed(); step++ {
		s := w.sess[rng.Intn(len(w.sess))]
		box := s.box

		if box == "" {
			w.selectBox(s, c03Boxes[rng.Intn(len(c03Boxes))], false)
			continue
		}

		if !mustQuiesce(r, w.s, 0, label) {
			return
		}

		// What does the session see? (A FETCH absorbs new arrivals and flag changes, holds expunges.)
		// Read until the FETCH's own flush brings nothing new (what it announces is only in the next read).
		for round := 0; round < 4; round++ {
			res := s.c.Cmd("UID FETCH 1:* (UID FLAGS)")
			if res.Err != nil || !res.OK() {
				if len(w.s.Panics()) == 0 {
					r.Inconclusive("%s: view read failed: %v %s", label, res.Err, res.Text)
				}

				return
			}

			w.absorbQuiet(s, "UID FETCH", res)

			if w.isFailed() {
				return
			}

			unknown := false

			for _, e := range s.mir.Entries {
				if e.UID == 0 || !e.FlagsKnown {
					unknown = true
				}
			}

			if !unknown {
				break
			}
		}

		var view []liveView

		for _, e := range s.mir.Entries {
			if e.UID == 0 {
				continue
			}

			view = append(view, liveView{uid: e.UID, flags: e.flagKey()})
		}

		mb := c.model.box(box)
		posOf := map[string]int{}

		for i, e := range mb.Entries {
			posOf[e.Msg.Marker] = i
		}

		var live, ghosts []liveView

		flagsAgree := true
		refiledInView := false

		for _, v := range view {
			if mk, ok := uidOf[box][v.uid]; ok {
				live = append(live, v)

				if mb.Entries[posOf[mk]].flagKey() != v.flags {
					flagsAgree = false
				}
			} else if mk, known := everUID[box][v.uid]; known {
				// A message that was re-filed inside the mailbox (same message, new UID) is not a ghost:
				// gluon identifies messages internally and would act on the new incarnation. Not judged.
				if _, still := posOf[mk]; !still {
					ghosts = append(ghosts, v)
				} else {
					refiledInView = true
				}
			}
		}

		pick := func(from []liveView, max int) []liveView {
			if len(from) == 0 {
				return nil
			}

			k := 1 + rng.Intn(max)
			if k > len(from) {
				k = len(from)
			}

			var out []liveView
			for _, i := range rng.Perm(len(from))[:k] {
				out = append(out, from[i])
			}

			return out
		}

		uidSet := func(vs []liveView) string {
			var p []string
			for _, v := range vs {
				p = append(p, strconv.FormatUint(uint64(v.uid), 10))
			}

			return strings.Join(p, ",")
		}

		positions := func(vs []liveView) []int {
			p := []int{} // never nil: the model reads a nil list as "every message"
			for _, v := range vs {
				if mk, ok := uidOf[box][v.uid]; ok {
					p = append(p, posOf[mk])
				}
			}

			return p
		}

		dst := c03Boxes[rng.Intn(len(c03Boxes))]
		for dst == box {
			dst = c03Boxes[rng.Intn(len(c03Boxes))]
		}

		k := rng.Intn(100)

		switch {
		case k < 22 || (len(live) == 0 && k < 90):
			tbox := c03Boxes[rng.Intn(len(c03Boxes))]
			mk := w.marker()
			body := simpleMessage(mk, rng)
			fl := pickFlags(rng, true)
			fp := ""

			if len(fl) > 0 {
				fp = "(" + strings.Join(fl, " ") + ") "
			}

			cres := w.exec(s, fmt.Sprintf("APPEND %s %s", imapc.Quote(tbox), fp), imapc.Lit(body))
			r.Distinct("live APPEND " + cres.Status)

			if cres.OK() {
				c.model.appendMsg(tbox, mk, body, fl)
			} else if !w.isFailed() {
				violate("C03 live refused-valid APPEND", fmt.Sprintf("valid APPEND refused: %s", cres.Text))
			}

			if !refresh([]string{tbox}, nil, "APPEND") {
				return
			}
		case k < 45: // UID STORE on messages the mailbox still holds
			t := pick(live, 3)
			action := []string{"+", "-", ""}[rng.Intn(3)]
			fl := pickFlags(rng, action == "")
			cmd := fmt.Sprintf("UID STORE %s %sFLAGS.SILENT (%s)", uidSet(t), action, strings.Join(fl, " "))
			cres := w.exec(s, cmd)
			r.Distinct(fmt.Sprintf("live UID STORE %q ghosts-in-view=%v %s", action, len(ghosts) > 0, cres.Status))

			if cres.OK() {
				a := action
				if a == "" {
					a = "="
				}

				c.model.store(box, positions(t), a, fl)
				applySilentStore(&s.mir, nil, "", nil)
			} else if !w.isFailed() {
				violate("C03 live refused-valid UID STORE", fmt.Sprintf("%q refused: %s", cmd, cres.Text))
			}

			if !refresh(c03Boxes, nil, cmd) {
				return
			}
		case k < 60: // UID COPY (live only)
			t := pick(live, 3)
			cmd := fmt.Sprintf("UID COPY %s %s", uidSet(t), imapc.Quote(dst))
			cres := w.exec(s, cmd)
			r.Distinct(fmt.Sprintf("live UID COPY ghosts-in-view=%v %s", len(ghosts) > 0, cres.Status))

			var un map[string][][]string

			if cres.OK() {
				batch := c.model.copyTo(box, positions(t), dst, false)
				un = map[string][][]string{dst: {batch}}
			} else if !w.isFailed() {
				violate("C03 live refused-valid UID COPY", fmt.Sprintf("%q refused: %s", cmd, cres.Text))
			}

			if !refresh([]string{box, dst}, un, cmd) {
				return
			}
		case k < 80: // UID MOVE, possibly including ghosts
			t := pick(live, 2)
			g := pick(ghosts, 2)

			if len(g) > 0 {
				ghostsUsed++
			}

			all := append(append([]liveView{}, t...), g...)
			sort.Slice(all, func(i, j int) bool { return all[i].uid < all[j].uid })

			cmd := fmt.Sprintf("UID MOVE %s %s", uidSet(all), imapc.Quote(dst))
			cres := w.exec(s, cmd)
			r.Distinct(fmt.Sprintf("live UID MOVE live=%d ghosts=%d %s", len(t), len(g), cres.Status))

			var un map[string][][]string

			if cres.OK() {
				batch := c.model.copyTo(box, positions(t), dst, true)
				un = map[string][][]string{dst: {batch}}
			} else if !w.isFailed() {
				violate("C03 live refused-valid UID MOVE", fmt.Sprintf("%q refused: %s", cmd, cres.Text))
			}

			if !refresh([]string{box, dst}, un, cmd) {
				return
			}
		case k < 92: // EXPUNGE / UID EXPUNGE (only when the view's flags are current)
			// With a stale entry of a re-filed message in the view a plain EXPUNGE is a listed finding
			// (directed scenario below); not part of the random histories.
			if !flagsAgree || refiledInView {
				w.exec(s, "NOOP")
				continue
			}

			if rng.Intn(2) == 0 {
				cres := w.exec(s, "EXPUNGE")
				r.Distinct(fmt.Sprintf("live EXPUNGE ghosts-in-view=%v %s", len(ghosts) > 0, cres.Status))

				if cres.OK() {
					c.model.expunge(box, positions(live))
				}
			} else {
				t := append(pick(live, 3), pick(ghosts, 1)...)
				cmd := "UID EXPUNGE " + uidSet(t)
				cres := w.exec(s, cmd)
				r.Distinct(fmt.Sprintf("live UID EXPUNGE ghosts=%v %s", len(ghosts) > 0, cres.Status))

				if cres.OK() {
					c.model.expunge(box, positions(t))
				}
			}

			if !refresh([]string{box}, nil, "EXPUNGE") {
				return
			}
		default:
			w.exec(s, []string{"NOOP", "CHECK"}[rng.Intn(2)])
		}
	}

	r.Count("live_moves_and_expunges_over_ghost_messages", ghostsUsed)

	if !w.isFailed() && r.WantSample() {
		l := w.getLog()
		if len(l) > 40 {
			l = l[:40]
		}

		r.Sample(map[string]any{"case": label, "mode": "live (no re-SELECT, UID commands over the session's own view)", "first_events": l})
	}
}

// c03DirectedStaleExpunge: A flags m \Deleted in X; B moves m out of X and back (new UID, not
// \Deleted); A, which has not been told yet, issues EXPUNGE. The reference semantics: UID 1 is
// gone already, the message now in X is not \Deleted and stays.
func c03DirectedStaleExpunge(r *ev.Run) {
	label := "directed-stale-expunge"
	if r.OnlyCase != "" && r.OnlyCase != label {
		return
	}

	w, err := newWorld(r, "C03", label, 2, []string{"INBOX", "X", "Y"}, nil)
	if err != nil {
		r.Inconclusive("%s: %v", label, err)
		return
	}

	defer w.close()

	a, b := w.sess[0], w.sess[1]
	mk := w.marker()

	w.exec(a, "APPEND X ", imapc.Lit(simpleMessage(mk, nil)))
	w.selectBox(a, "X", false)
	w.selectBox(b, "X", false)
	w.exec(a, `STORE 1 +FLAGS (\Deleted)`)
	mustQuiesce(r, w.s, 0, label)
	w.exec(b, "NOOP")
	w.exec(b, "MOVE 1 Y")
	w.selectBox(b, "Y", false)
	w.exec(b, "MOVE 1 X")
	mustQuiesce(r, w.s, 0, label)
	w.exec(a, "FETCH 1 (FLAGS)") // no expunge permitted: A still shows UID 1 as \Deleted
	w.exec(a, "EXPUNGE")

	r.Eval(1)
	r.Distinct("directed stale-expunge")

	if w.isFailed() {
		return
	}

	v, err := freshView(w.s, 0, "X", false)
	if err != nil {
		r.Inconclusive("%s: %v", label, err)
		return
	}

	if len(v.Msgs) != 1 || v.Msgs[0].Marker != mk {
		w.violate("C03 directed stale-EXPUNGE-removes-refiled-message", fmt.Sprintf("A flagged UID 1 \\Deleted, B moved the message out of X and back (new UID, not \\Deleted); A's EXPUNGE, issued before A was told, removed the message: X now holds %v", v.Summary()), nil)
	}
}

// c03DirectedCrossMailbox: one message lives in two mailboxes; a session that has one of them selected
// marks it \Deleted there (or finds it so), another session changes its flags through the OTHER
// mailbox, the first session learns of it in one of several ways and then expunges. The reference
// model (shared flags, \Deleted per mailbox) decides what both mailboxes must hold afterwards.
func c03DirectedCrossMailbox(r *ev.Run) {
	type combo struct {
		deletedBy string // who marks \Deleted in Y: "A-before" (before B selects), "B-after"
		change    string // A's STORE in X
		flush     string // how B learns: none (barrier only), NOOP, FETCH, IDLE
		remove    string // EXPUNGE, UID EXPUNGE, CLOSE
	}

	var combos []combo

	for _, d := range []string{"A-before", "B-after"} {
		for _, ch := range []string{`+FLAGS (\Seen)`, `-FLAGS (\Flagged)`, `FLAGS (\Answered)`, `FLAGS ()`, `+FLAGS (\Deleted)`, `+FLAGS.SILENT (kwx)`} {
			for _, fl := range []string{"none", "NOOP", "FETCH", "IDLE"} {
				for _, rm := range []string{"EXPUNGE", "UID EXPUNGE", "CLOSE"} {
					combos = append(combos, combo{d, ch, fl, rm})
				}
			}
		}
	}

	ev.Parallel(len(combos), 10, func(i int) {
		cb := combos[i]

		label := fmt.Sprintf("cross-%d", i)
		if r.OnlyCase != "" && r.OnlyCase != label {
			return
		}

		w, err := newWorld(r, "C03", label, 2, []string{"INBOX", "X", "Y"}, nil)
		if err != nil {
			r.Inconclusive("%s: %v", label, err)
			return
		}

		defer w.close()

		a, b := w.sess[0], w.sess[1]
		model := newMailModel("INBOX", "X", "Y")
		mk, other := w.marker(), w.marker()

		// two messages in X, both copied to Y
		w.exec(a, `APPEND X (\Flagged) `, imapc.Lit(simpleMessage(mk, nil)))
		model.appendMsg("X", mk, simpleMessage(mk, nil), []string{`\Flagged`})
		w.exec(a, "APPEND X ", imapc.Lit(simpleMessage(other, nil)))
		model.appendMsg("X", other, simpleMessage(other, nil), nil)
		w.selectBox(a, "X", false)
		w.exec(a, "COPY 1:2 Y")
		model.copyTo("X", []int{0, 1}, "Y", false)

		if cb.deletedBy == "A-before" {
			w.selectBox(a, "Y", false)
			w.exec(a, `STORE 1 +FLAGS (\Deleted)`)
			model.store("Y", []int{0}, "+", []string{`\Deleted`})
			w.selectBox(a, "X", false)
		}

		w.selectBox(b, "Y", false)

		if cb.deletedBy == "B-after" {
			w.exec(b, `STORE 1 +FLAGS (\Deleted)`)
			model.store("Y", []int{0}, "+", []string{`\Deleted`})
		}

		if !mustQuiesce(r, w.s, 0, label) {
			return
		}

		// A changes the message through X
		w.exec(a, "STORE 1 "+cb.change)

		f := strings.Fields(cb.change)
		action := map[byte]string{'+': "+", '-': "-", 'F': "="}[f[0][0]]
		flags := strings.Fields(strings.Trim(strings.Join(f[1:], " "), "()"))
		model.store("X", []int{0}, action, flags)

		if !mustQuiesce(r, w.s, 0, label) {
			return
		}

		switch cb.flush {
		case "NOOP":
			w.exec(b, "NOOP")
		case "FETCH":
			w.exec(b, "FETCH 1:* (FLAGS)")
		case "IDLE":
			ir := b.c.IdleStart()
			if ir.Err == nil && ir.Status == "" {
				ir = b.c.IdleDone(ir)
			}

			w.absorb(b, "IDLE", ir)
		}

		switch cb.remove {
		case "EXPUNGE":
			w.exec(b, "EXPUNGE")
		case "UID EXPUNGE":
			w.exec(b, "UID EXPUNGE 1:*")
		default:
			w.exec(b, "CLOSE")
			b.box = ""
		}

		model.expunge("Y", nil)

		r.Eval(1)
		r.Distinct(fmt.Sprintf("cross-mailbox %s | %s | %s | %s", cb.deletedBy, cb.change, cb.flush, cb.remove))

		if w.isFailed() || !mustQuiesce(r, w.s, 0, label) {
			return
		}

		for _, name := range []string{"X", "Y"} {
			v, err := freshView(w.s, 0, name, false)
			if err != nil {
				r.Inconclusive("%s: %v", label, err)
				return
			}

			if kind, diff := compareBox(model.box(name), v, nil, false, nil); diff != "" {
				w.violate("C03 cross-mailbox "+kind+" "+cb.flush+" "+cb.remove, fmt.Sprintf("a message in X and Y, \\Deleted in Y (%s); STORE 1 %s through X; the session on Y then %s / %s: mailbox %s differs from the reference model: %s", cb.deletedBy, cb.change, cb.flush, cb.remove, name, diff), nil)
				return
			}
		}
	})
}

// c03DirectedArrivalDeleted: a message arrives already flagged \Deleted in a mailbox that another session has
// selected; that session learns of it and expunges. The message must be gone (and nothing else).
func c03DirectedArrivalDeleted(r *ev.Run) {
	type combo struct {
		flags  string
		flush  string
		remove string
	}

	var combos []combo

	for _, fl := range []string{`\Deleted`, `\Seen \Deleted`, `\Deleted \Flagged kwz`} {
		for _, fs := range []string{"NOOP", "FETCH", "IDLE", "CHECK"} {
			for _, rm := range []string{"EXPUNGE", "UID EXPUNGE", "CLOSE"} {
				combos = append(combos, combo{fl, fs, rm})
			}
		}
	}

	ev.Parallel(len(combos), 10, func(i int) {
		cb := combos[i]

		label := fmt.Sprintf("arrival-deleted-%d", i)
		if r.OnlyCase != "" && r.OnlyCase != label {
			return
		}

		w, err := newWorld(r, "C03", label, 2, []string{"INBOX", "Y"}, nil)
		if err != nil {
			r.Inconclusive("%s: %v", label, err)
			return
		}

		defer w.close()

		a, b := w.sess[0], w.sess[1]
		model := newMailModel("INBOX", "Y")
		keep, gone := w.marker(), w.marker()

		w.exec(a, `APPEND Y (\Seen) `, imapc.Lit(simpleMessage(keep, nil)))
		model.appendMsg("Y", keep, simpleMessage(keep, nil), []string{`\Seen`})
		w.selectBox(b, "Y", false)

		w.exec(a, fmt.Sprintf("APPEND Y (%s) ", cb.flags), imapc.Lit(simpleMessage(gone, nil)))
		model.appendMsg("Y", gone, simpleMessage(gone, nil), strings.Fields(cb.flags))

		if !mustQuiesce(r, w.s, 0, label) {
			return
		}

		switch cb.flush {
		case "NOOP", "CHECK":
			w.exec(b, cb.flush)
		case "FETCH":
			w.exec(b, "FETCH 1:* (FLAGS)")
			w.exec(b, "NOOP")
		default:
			ir := b.c.IdleStart()
			if ir.Err == nil && ir.Status == "" {
				ir = b.c.IdleDone(ir)
			}

			w.absorb(b, "IDLE", ir)
		}

		switch cb.remove {
		case "EXPUNGE":
			w.exec(b, "EXPUNGE")
		case "UID EXPUNGE":
			w.exec(b, "UID EXPUNGE 1:*")
		default:
			w.exec(b, "CLOSE")
			b.box = ""
		}

		model.expunge("Y", nil)

		r.Eval(1)
		r.Distinct(fmt.Sprintf("arrival-deleted (%s) | %s | %s", cb.flags, cb.flush, cb.remove))

		if w.isFailed() || !mustQuiesce(r, w.s, 0, label) {
			return
		}

		v, err := freshView(w.s, 0, "Y", false)
		if err != nil {
			r.Inconclusive("%s: %v", label, err)
			return
		}

		if kind, diff := compareBox(model.box("Y"), v, nil, false, nil); diff != "" {
			w.violate("C03 arrival-deleted "+kind+" "+cb.flush+" "+cb.remove, fmt.Sprintf("a message was appended with (%s) to a mailbox another session had selected; that session did %s and then %s: the mailbox differs from the reference model: %s", cb.flags, cb.flush, cb.remove, diff), nil)
		}
	})
}

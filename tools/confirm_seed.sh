#!/bin/bash
# confirm_seed.sh <prop> <variant>   e.g. confirm_seed.sh C09 a
# Confirms a seeded change produced by a sub-agent in a scratch worktree:
#   suite passes with the change, demo fails with it, demo passes without it.
# Then files it under /verif/seeded/<prop>-<variant>/ (patch.diff, demo/, meta.json without detection info).
set -u
export GOFLAGS=-mod=mod GOPROXY=off GOSUMDB=off GOTOOLCHAIN=local
P=$1; V=$2
SRC=/tmp/mut/$P/_out/$V
WT=/tmp/confirm/$P-$V
OUT=/verif/seeded/$P-$V
[ -f "$SRC/patch.diff" ] || { echo "no patch for $P/$V"; exit 2; }
rm -rf "$WT"; mkdir -p /tmp/confirm
git -C /repo worktree add -q --detach "$WT" HEAD || exit 2
cleanup() { git -C /repo worktree remove --force "$WT" 2>/dev/null; rm -rf "$WT"; }
trap cleanup EXIT
cd "$WT"
# place demo files by their package clause
place_demo() {
  for f in "$SRC"/demo/*.go; do
    [ -f "$f" ] || continue
    pkg=$(grep -m1 '^package ' "$f" | awk '{print $2}')
    base=${pkg%_test}
    dest=""
    if [ "$pkg" = "main" ]; then dest="_demo_main"; mkdir -p "$dest";
    else
      dest=$(grep -rl --include='*.go' -m1 "^package $base\$" . 2>/dev/null | grep -v '^./_' | xargs -n1 dirname 2>/dev/null | sort | uniq -c | sort -rn | head -1 | awk '{print $2}')
    fi
    [ -n "$dest" ] || { echo "cannot place $f (package $pkg)"; return 1; }
    cp "$f" "$dest/"; echo "$dest/$(basename "$f")"
  done
}
run_demo() { # prints PASS or FAIL
  local files; files=$(place_demo) || { echo ERROR; return; }
  local rc=0
  for f in $files; do
    d=$(dirname "$f")
    if [ "$d" = "_demo_main" ]; then ( cd "$d" && timeout 600 go run . ) >/tmp/confirm/$P-$V.demo.log 2>&1 || rc=1
    else
      names=$(grep -ho '^func Test[A-Za-z0-9_]*' "$f" | sed 's/func //' | paste -sd'|')
      timeout 900 go test -vet=off -count=1 -timeout 10m -run "^($names)\$" "./$d/" >/tmp/confirm/$P-$V.demo.log 2>&1 || rc=1
    fi
  done
  for f in $files; do rm -f "$f"; done; rm -rf _demo_main
  [ $rc = 0 ] && echo PASS || echo FAIL
}
without=$(run_demo)
git apply "$SRC/patch.diff" || { echo "patch does not apply"; exit 2; }
go build ./... || { echo "does not build"; exit 2; }
with=$(run_demo)
suite=FAIL
for attempt in 1 2 3 4 5 6; do
  if timeout 400 go test -vet=off -count=1 -timeout 5m ./... >/tmp/confirm/$P-$V.suite.log 2>&1; then suite=PASS; break; fi
  # retry only the failing packages' flaky nature: simply rerun
done
echo "$P-$V: demo_without=$without demo_with=$with suite_with=$suite"
if [ "$without" = PASS ] && [ "$with" = FAIL ] && [ "$suite" = PASS ]; then
  mkdir -p "$OUT/demo"; cp "$SRC/patch.diff" "$OUT/"; cp "$SRC"/demo/* "$OUT/demo/" 2>/dev/null; cp "$SRC/README.md" "$OUT/agent-README.md" 2>/dev/null
  python3 - "$P" "$V" "$OUT" <<'PY'
import json,sys,os
p,v,out=sys.argv[1:4]
meta={"property":p,"variant":v,"confirmed":{"demo_without_change":"PASS","demo_with_change":"FAIL","existing_suite_with_change":"PASS"},
      "confirmed_by":"tools/confirm_seed.sh in a scratch worktree of /repo HEAD",
      "needs_to_manifest":"see agent-README.md"}
mp=os.path.join(out,"meta.json")
if os.path.exists(mp):
    old=json.load(open(mp)); old.update(meta); meta=old
json.dump(meta,open(mp,"w"),indent=1)
PY
  echo "filed under $OUT"
else
  echo "NOT CONFIRMED: $P-$V"; tail -5 /tmp/confirm/$P-$V.demo.log
fi

#!/usr/bin/env python3
"""Regenerates /verif/MANIFEST.json from the table below (keeps the manifest valid at all times)."""
import json, os, subprocess, sys

ROOT = os.path.dirname(os.path.dirname(os.path.abspath(__file__)))

# id -> (category, technique, level text, level note, design_ref)
CHECKS = {
 "C01": ("exploration",
         "online trace monitor: client-side mirror fed by every untagged EXISTS/EXPUNGE/FETCH, compared at PRNG-chosen probe points with UID FETCH 1:* of the same session; sequential (barrier after every command) and truly concurrent histories with failpoint delays",
         "Drives 2-6 sessions on 1-2 shared mailboxes plus connector updates (APPEND, STORE incl. .SILENT, EXPUNGE, COPY, MOVE, FETCH with and without \\Seen side effect, SEARCH, NOOP, CHECK, STATUS, IDLE...DONE, re-SELECT/EXAMINE/CLOSE/UNSELECT) against the real server; a mirror reconstructs each session's mailbox purely from the untagged responses and every probe must agree with it: row count, dense sequence numbers, strictly ascending UIDs, every learned UID and flag set; counts never shrink without EXPUNGE, EXPUNGE/FETCH stay in range. Held on the histories explored.",
         "Trusts the harness wire parser and mirror. Sequential histories use the verif quiescence barrier after every command (exact positions); in concurrent histories the listed design-level finding (late-arrival renumbering) cannot be excluded, so position/flag disagreements are only counted there while counts, density, UID order and range rules stay hard.",
         "DESIGN.md §4 C01"),
 "C02": ("exploration",
         "convergence monitor: observer view after quiescence barrier + NOOP compared with a fresh EXAMINE view; PRNG placement of the observer's flushes; directed table (arrival kind x targeting change x observer placement x source)",
         "While other sessions and the connector change the observed mailbox, a PRNG decides for every step whether the observer does nothing, only has its queue applied (verif barrier), or flushes with NOOP / FETCH / STORE. At quiescent points the observer's UID FETCH 1:* (UID FLAGS) must equal a fresh session's (same UIDs in order, same flags modulo \\Recent). A directed table runs every (how m arrives) x (what then targets m) x (observer placement) combination (160 scenarios) in both tiers.",
         "Trusts the quiescence hook (enqueued/applied counters per state) and the wire client. Connector updates never carry \\Deleted among the flags. One listed design-level finding (flag change while a re-filing inside the mailbox is unannounced) is recognised by its exact shape.",
         "DESIGN.md §4 C02"),
 "C03": ("exploration",
         "reference-model monitor over generated sequentialised command histories (fresh EXAMINE views vs executable model), bulk sizes around the SQL batching limit",
         "Runs the real server in-process and compares, after every few commands of PRNG-generated histories (APPEND/STORE/EXPUNGE/UID EXPUNGE/CLOSE/COPY/MOVE, valid and failing, 1-4 sessions, 3 mailboxes, same-mailbox and already-present destinations) after each bulk command at sizes 1..2001, in 'live' histories with lagging selections and UID commands, and in a directed 144-row table for a message that lives in two mailboxes (who marks it \\Deleted x flag change through the other mailbox x how the session learns of it x EXPUNGE/UID EXPUNGE/CLOSE), the authoritative content of every mailbox (order, flags, bytes) with a small reference model written from the property text. Held on the histories explored; exploration is the right level because the input space is unbounded command sequences.",
         "Trusts the harness wire client/parser and the reference model; each command is issued right after SELECT so the issuing view equals the authoritative content; order inside one multi-message COPY/MOVE batch is compared as a set.",
         "DESIGN.md §4 C03"),

 "C04": ("exploration",
         "online monitor over the wire: per (mailbox name, UIDVALIDITY) a UID->message function, monotone UIDNEXT, APPENDUID/COPYUID looked up through fresh views, per-name UIDVALIDITY order; histories with expunge-of-highest-UID, failing commands, DELETE+CREATE bursts, bumps and clean restarts",
         "Random histories (APPEND, COPY/MOVE incl. UID forms and failing ones, expunge of the highest UIDs, connector MessagesCreated, DELETE+CREATE of the same name 1-13 times in a row, UIDValidityBumped, clean server restarts on the same directories). After every step every mailbox is observed through a fresh EXAMINE (UIDVALIDITY, UIDNEXT, every UID with the X-Verif-Id marker of its message) and the monitor checks: a UID never denotes two messages within an epoch, every newly seen UID exceeds all earlier ones, UIDNEXT exceeds every UID ever seen and never decreases, APPENDUID/COPYUID name the UIDs (and UIDVALIDITY) the messages are then found under, UIDVALIDITY only changes on re-creation/bump and then to a strictly greater value.",
         "Restarts are clean close+reopen (process kills are C07's); UIDs assigned and expunged between two observations are seen only through UIDNEXT. Trusts fresh EXAMINE views as the authoritative content.",
         "DESIGN.md §4 C04"),
 "C05": ("exploration",
         "online trace monitor over the wire: command in flight vs untagged EXPUNGE, pending-removal bookkeeping via fresh authoritative views and the quiescence barrier, [EXPUNGEISSUED] check, duplicate-identity check in the mirror; random histories plus a removal x re-add x next-command x command-after table",
         "An observer keeps a mailbox selected while others (sessions, connector) remove messages and put them back. The monitor checks on every response: no EXPUNGE while FETCH/STORE/SEARCH (UID forms, failing ones too) is in flight; after a removal is committed and applied to the observer (barrier), the first OK command that permits expunges (NOOP, CHECK, EXPUNGE, MOVE, STATUS of the selected mailbox, APPEND to it, IDLE) announces it; the mirror never holds one message twice (re-add announced before removal); an OK FETCH/STORE/SEARCH that held removals back carries [EXPUNGEISSUED]. The table covers 4 removal kinds x 4 re-add kinds x 11-17 next commands x 2 follow-ups.",
         "Trusts the quiescence hook, the mirror and fresh EXAMINE views as the authoritative content.",
         "DESIGN.md §4 C05"),
 "C06": ("exploration",
         "remote-truth monitor: the harness connector is the reference state; every update's Waiter result recorded; fresh views, LIST and a selected observer's NOOP compared before/after valid updates of every kind, invalid ones, restatements/duplicates and delivered echoes of client commands; concurrent bursts of mixed updates",
         "Histories mix valid updates of every kind (MessagesCreated with new / known / known-only messages and ignored unknown mailboxes, MessageFlagsUpdated, MessageMailboxesUpdated, MessageDeleted, MessageUpdated with same bytes / new bytes / AllowCreate, MessageIDChanged, MailboxCreated/Deleted/Updated, Noop), 16 kinds of invalid ones (unknown IDs, protected recovery mailbox, taken names), restatements of the current state, duplicate deliveries and the remote echoes of client commands (APPEND, STORE, COPY, MOVE, EXPUNGE, CREATE). Every update must be acknowledged (a second acknowledgement panics and is recorded), valid ones with success; after each step every mailbox seen by a fresh session equals the remote (membership, flags, bytes), untouched messages keep their UIDs and LIST equals the remote names; invalid updates, restatements and echoes leave UIDs/UIDNEXT/flags/bytes unchanged and a selected observer's NOOP silent. Bursts from 2-6 goroutines check one acknowledgement each and convergence; updates submitted while the server is closed or the user removed must all be acknowledged once Close has returned.",
         "MailboxIDChanged is only exercised with unknown IDs (a connector cannot learn internal mailbox IDs). Echoes of intermediate states of multi-call commands are not restatements and are not delivered. Watchdog expiry on an acknowledgement is inconclusive, not a violation, for valid updates.",
         "DESIGN.md §4 C06"),
 "C07": ("exploration",
         "fault enumeration with process kills: a server child process with failpoints in every SQL step, around COMMIT, after the state/user commit and inside the store's Set, plus a store wrapper; reference run per operation, then one trial per (operation, point, k-th hit, crash|error), restart and full observation incl. the SQLite index",
         "A base state is copied for every trial. 23 operations (APPEND, COPY, MOVE, STORE variants, EXPUNGE, UID EXPUNGE, CLOSE, deep CREATE, DELETE, RENAME, RENAME INBOX, SUBSCRIBE/UNSUBSCRIBE, connector delivery of new and known messages, connector deletion) are first run undisturbed to count how often each failpoint and store call is reached. Trials kill the server process (SIGKILL from inside) or inject an error at the k-th hit of a point, kill or close survivors, sometimes kill again during the next start-up, and for operations that leave work to the start-up (messages marked for deletion) enumerate the start-up's own points. After the final restart: LIST, LSUB, UIDVALIDITY, UIDNEXT, UIDs, flags and bytes of every mailbox equal the state before or after the operation (after, when it was answered OK), every message is served with the bytes handed in, the store holds exactly one file per message row and no row is still marked for deletion.",
         "Process death is SIGKILL: what the kernel accepted survives (power loss / fsync ordering are out of reach). Quick samples 3 hit indices per point, thorough takes all. The harness remote lives in the server process and starts empty after a restart.",
         "DESIGN.md §4 C07"),
 "C08": ("exploration",
         "reference-model monitor: every db.Transaction/db.ReadOnly method called directly on the SQLite client (verif-tagged constructor), each result and a full getter dump compared with an in-memory relational model; aborted transactions; argument-length table around the batching limit",
         "Drives the real SQLite client with PRNG sequences over all ~70 interface methods (incl. the ones no IMAP script reaches), compares every return value and, after every write transaction, a dump of the whole database through its getters with a small relational model; transactions aborted at PRNG-chosen points must leave no trace; every list-taking method is called with 0..2500 arguments. Held on the sequences explored.",
         "Trusts the relational model (written from the interface's contract; methods are only called where the contract is defined, e.g. DeleteMessages for messages in no mailbox) and the getters used for the dump (each getter is itself cross-checked against the model individually).",
         "DESIGN.md §4 C08"),
 "C09": ("exploration",
         "round-trip vs map model at cipher-block-edge sizes; corruption sweep oracle (error or exact bytes); porcupine linearizability check of recorded concurrent Get/Set/Delete histories with unique self-describing values; Go race detector on the same workload",
         "(a) Set/Get/Delete/List of the real on-disk store against a map model for lengths at and around the 256 KiB compress-then-encrypt block edges (lengths computed with the same LZ4 options), four compressibility classes, overwrite/delete; (b) truncation at every probed offset, bit flips, block drop/duplicate/swap and a wrong passphrase must give an error or exactly the stored bytes; (c) 4-12 goroutines on 1-3 IDs through the WriteControlledStore: every returned value must be a complete written value and each per-ID history must be linearizable (porcupine, register-with-delete), with a failpoint sleep between truncate and the first block; the same workload runs under the race detector. Held on the cases explored.",
         "Trusts porcupine v1.3.0, the LZ4 length computation and the harness clock (one monotonic source); a porcupine timeout is reported as inconclusive; the sweep probes every offset only for small files (boundary neighbourhoods + PRNG sample for large ones).",
         "DESIGN.md §4 C09"),
 "C10": ("exploration",
         "grammar-based generation of valid commands with randomised encodings/chunkings; parse result compared with the generated abstract command (differential against the generator, metamorphic over renderings)",
         "Generates commands from the supported RFC 3501/2971/4315/6851/2177/3691 grammar subset (all 29 commands and UID forms, sequence sets, flag lists, fetch attributes/sections/partials, recursive search keys, date/date-time, ID lists), renders every string argument as atom, quoted string or literal where allowed, randomises keyword case, concatenates 1-5 commands and feeds the bytes in 1-byte/small/medium/whole chunks through the reader stack the server uses; command.Parser.Parse must return exactly the generated command. Quick: ~360k commands, thorough: ~9M.",
         "Trusts the generator's own reading of the grammar (only valid commands are generated; leniency of the parser beyond the grammar is not judged) and the reflective dump used for comparison.",
         "DESIGN.md §4 C10"),
 "C14": ("exploration",
         "reference-model monitor of the mailbox namespace: tagged results and LIST/LSUB output of every step compared with an executable hierarchy/subscription model and an RFC 3501 wildcard matcher",
         "Random histories of CREATE/DELETE/RENAME/SUBSCRIBE/UNSUBSCRIBE from 1-3 sessions and connector MailboxCreated/Deleted/Updated, names of depth 1-3 over a small alphabet (three INBOX spellings, quoted name with a space, modified UTF-7, leading/doubled/trailing delimiters, recovery mailbox), delimiter '/' or '.'. After every step the tagged answer is compared with the model and LIST \"\" * / LSUB \"\" * plus two reference/pattern pairs from a pool of 10 references x 32 patterns are compared exactly (names and \\Noselect).",
         "Where RFC 3501 leaves the outcome open the model follows the server's answer (listed in the evidence assumptions). The empty pattern is only checked for LIST. Component names equal to INBOX below the top level are not generated.",
         "DESIGN.md §4 C14"),
 "C15": ("exploration",
         "reference evaluator over the session's view: generated messages whose searchable data is known by construction, random key-expression trees evaluated by the harness and compared with SEARCH and UID SEARCH; metamorphic NOT/OR/AND relations on the server's own answers",
         "Mailboxes of 0-16 generated messages (flags, keywords, \\Recent vs old, sizes, internal dates at day edges, Date headers in several zones, address/subject/X-Tag headers present, absent, empty, folded; body words). The observer's view is read with FETCH (UID, FLAGS, RFC822.SIZE, INTERNALDATE), also after other sessions changed it. ~50 random expressions per mailbox over all RFC 3501 keys with NOT/OR/lists to depth 3 and 1-3 juxtaposed keys (optional CHARSET): SEARCH must return exactly the ascending sequence numbers the evaluator selects, UID SEARCH the UIDs of the same messages; NOT = complement, OR = union, (a b) = intersection checked on the server's answers.",
         "Internal dates are given in UTC; SENT* compares the date of the Date header as written. Sequence/UID sets that RFC 3501 lets fail or that the property does not judge (n:* above the highest UID) are not generated inside expressions (C16 covers sets).",
         "DESIGN.md §4 C15"),
 "C17": ("exploration",
         "online invariant monitor with small configured limits: fresh views and LIST after every step (bounds), before/after comparison for refused operations (no partial effect), count model for 'fits => accepted'; concurrent phase against a nearly full mailbox and the mailbox limit",
         "Servers with 4-8 mailboxes / 2-6 messages per mailbox / highest UID 6-16. Histories of CREATE with implicit parents, RENAME onto deep names, DELETE, APPEND, COPY/MOVE of 1-4 messages (UID forms too), EXPUNGE, connector MessagesCreated (1-4 messages, 1-2 mailboxes), MessageMailboxesUpdated, MailboxCreated; then 3-8 sessions APPEND/COPY into a nearly full mailbox and CREATE deep names at once. After every step: mailboxes, messages per mailbox and UIDs within the maxima; a refused operation left every mailbox and the mailbox list unchanged; an operation that fits by the counts before it was accepted.",
         "The hidden recovery mailbox is not counted for the bound (it is for 'fits'); the UID maximum is exclusive for 'fits' as gluon's own suite asserts. What the remote was told by a command that was then refused is undone in the harness connector (gluon calls the connector before its own check).",
         "DESIGN.md §4 C17"),
 "C18": ("exploration",
         "state-gating trace monitor and cross-user observation: random command batches per protocol state with full before/after observations of three users; wrong-credential table; isolation histories; jail scripts judged by a lower bound on elapsed time",
         "Servers with three users (same mailbox names, own content). Random batches of all 27 mailbox/message command kinds before LOGIN, after failed LOGINs, without a selection, after CLOSE/UNSELECT and after a failed SELECT: each must be answered NO/BAD, leak no data responses, and leave the complete observation of every user (LIST, LSUB, UIDs, flags, markers) unchanged; CAPABILITY/NOOP/ID still work. 15 wrong user/password combinations in quoted and literal forms never authenticate. One user's 25 random mutating commands (and another user's connector updates) never change what the other users see and no view shows a foreign message. 16 jail scripts (F/S/new-connection sequences, second rounds): the answer after three consecutive failures must not arrive earlier than jail time after the third failing LOGIN was sent.",
         "The jail oracle is a lower bound on wall time (load can only make it pass); it does not show that unjailed logins are prompt. AUTHENTICATE and STARTTLS are not exercised (no TLS configured).",
         "DESIGN.md §4 C18"),
 "C19": ("exploration",
         "Go race detector over a stress scenario in child processes, watchdogs with a blocked-vs-slow CPU criterion on every client call, RemoveUser and Close, goroutine count after Close",
         "Race-detector builds run rounds with two users, 6-12 sessions issuing random commands on shared mailboxes, LOGOUT/re-login, sockets dropped in the middle of a command, connections that never log in, two goroutines of connector updates, then RemoveUser of a busy user and Close of the server. Oracles: no race report (de-duplicated by the pair of outermost gluon frames), no panic or runtime fatal error, every call returns (an expired watchdog counts only when the process is idle, i.e. blocked), and 15 s after Close - with the listener closed but the Serve context still alive - the goroutine count is back at the level before the server was created.",
         "The harness connector rejects calls for messages the remote no longer has (as a real remote does) and the application side drains Server.GetErrorCh. MessageIDChanged/MailboxIDChanged updates are not part of the stress.",
         "DESIGN.md §4 C19"),
 "C20": ("exploration",
         "fault-schedule monitor: the harness connector rejects CreateMessage on a schedule; a model of normal mailboxes and of the recovery mailbox is compared with fresh views and LIST after every step",
         "Histories of APPEND (simple, generated MIME trees, undecodable text parts, odd charsets; normal and \\Drafts mailboxes) with the remote accepting, rejecting (plain and wrapped error) or rejecting for size; re-sends of rejected messages while they are in the recovery mailbox and after they left it (MOVE, UID MOVE, COPY, EXPUNGE); two sessions sending the same rejected message at once; APPEND/CREATE/RENAME/DELETE aimed at the recovery mailbox in several spellings; clean restarts. After every step: OK => message under the announced UID with its bytes; rejected => NO and exactly one copy with its bytes in the recovery mailbox; the recovery mailbox is listed exactly while non-empty; protected commands refused without effect; taken-out messages arrive with their bytes.",
         "For rejections because of size nothing is required (the model follows the server). Messages the server's own validation refuses (BAD) are not expected anywhere.",
         "DESIGN.md §4 C20"),
 "C16": ("exploration",
         "reference resolver monitor: generated message sets (hostile magnitudes, both range orders, '*', unions) against views with UID gaps; selected messages / BAD+no-effect compared with an RFC 3501 set resolver; exhaustive small-n table in thorough",
         "Runs the real server and, for views of 0-12 messages with UID gaps, issues FETCH/STORE/COPY/MOVE/SEARCH/UID EXPUNGE (sequence and UID forms) with generated sets whose numbers include 0, n+1, 2^31+-1, 2^32+-1, 2^32+k, 2^63+-1, 2^64+k, 10^30; the messages actually affected (rows returned, flags set, messages copied/moved/expunged, search results) must equal what an independent resolver computes, an invalid sequence number must give BAD and leave source and destination unchanged. Thorough adds all sets of <=2 ranges over {1..n+2,*} for n<=4.",
         "Trusts the resolver's reading of RFC 3501 (the n:* case above the highest UID is not judged, as the property says); numbers outside nz-number in UID sets may be refused or resolved mathematically.",
         "DESIGN.md §4 C16"),
 "C11": ("exploration",
         "hostile-client monitor against a server in a child process without panic handler: per-line completion accounting with NOOP probes, sentinel session of another user, goroutine/RSS/CPU sampling over a control port",
         "Hostile connections in three protocol states send grammar-generated valid commands, byte-level mutations, 49 hand-written extremes (deep nesting, 2^32/2^64 numbers, MiB-sized atoms, tag-less and empty lines), announced-then-cut literals, pipelined batches and lines cut by RST/close, following the literal protocol. Oracles: child alive; every completely sent line gets exactly one completion with its tag (or an untagged BAD/NO when it has none), verified by a NOOP probe behind it; the connection keeps answering unless the server said BYE after repeated errors; a sentinel session of another user keeps its FETCH answer; afterwards goroutines are back at the start level, the heap that is live after a forced collection stays under 400 MiB during the run and ends within 300 MiB of its start (RSS alone only triggers the measurement; hard cap 3 GiB), idle CPU < 1 s per 3 s.",
         "A missing completion is only a violation when the child burns CPU or the same bytes hang a second fresh connection (otherwise inconclusive). Work proportional to pattern size x name bytes (LIST with thousands of wildcards, hierarchies beyond ~1000 levels) is kept out of the stream; it is described in DESIGN.md.",
         "DESIGN.md §4 C11"),
 "C12": ("exploration",
         "crash/hang monitor over a child process plus strict reader of the produced IMAP lists and comparison with the generator's MIME tree",
         "Inputs: generated MIME trees, mutations of them, token soup, header-field edge cases, random bytes, nesting to 1500 (thorough 20000) levels, very wide multiparts, 1 MiB header lines, 50000 header fields, address-list soup. A child process runs imap.NewParsedMessage, rfc822.Parse/Walk/Part and rfc5322.ParseAddressList per input and logs BEGIN/RESULT; the parent decides: no death, no hang; ENVELOPE/BODY/BODYSTRUCTURE read as strict parenthesised lists (balanced, legal quoted strings and literals, single spaces) with ENVELOPE and body arities; every walked part inside the message and inside its parent's body; for generated messages types, parameters, sizes, line counts and nesting equal the tree; cost monitor: the CPU time per input (reported by the child) must not more than triple when the nesting depth doubles (doubling series to 2000/4000 levels).",
         "An empty list where the grammar wants NIL and NIL media types for garbage Content-Type values are tolerated (still well-formed lists). Non-termination is only reported after the single input failed to finish within 60 s alone in a fresh process.",
         "DESIGN.md §4 C12"),
 "C13": ("exploration",
         "wire-level relational monitor: generated MIME messages with section bytes known by construction; every FETCH relation of the property checked against the generator's bytes",
         "APPENDs generated MIME trees (multipart / message-rfc822 / leaf parts, nesting <= 4, folded headers, CRLF and LF, 8-bit data, a leaf across the store's 256 KiB block edge) to the real server and checks on the wire: BODY[] = appended bytes + one server ID line, RFC822 = BODY[], RFC822.SIZE, HEADER+TEXT, every BODY[p] / [p.MIME] / [p.HEADER] / [p.TEXT], partials with o,n in {0,1,len-1,len,len+1,2^31,2^63-1}, HEADER.FIELDS / .NOT partition, literal framing. Quick ~700 messages / 15k fetches.",
         "Trusts the generator's construction of part boundaries (the line break before a delimiter belongs to the delimiter) and the harness wire parser; top-level message/rfc822 content types are not generated (ambiguous numbering).",
         "DESIGN.md §4 C13"),
}

ALL = ["C%02d" % i for i in range(1, 21)]

def main():
    hooks_commits = subprocess.run(["git", "-C", "/repo", "log", "--format=%H", "--grep=^verif hooks"], capture_output=True, text=True).stdout.split()
    checks = []
    for cid in ALL:
        if cid not in CHECKS:
            continue
        cat, tech, text, note, ref = CHECKS[cid]
        checks.append({
            "property_id": cid,
            "quick_cmd": "./run %s quick" % cid,
            "thorough_cmd": "./run %s thorough" % cid,
            "evidence_file": "/verif/evidence/%s.json" % cid,
            "replay_cmd_template": "./run %s --replay {path}" % cid,
            "engine": "vcheck",
            "level_claimed": {"category": cat, "text": text, "design_ref": ref},
            "level_note": note,
            "technique": tech,
        })
    na = [{"property_id": cid, "reason": "runtime-monitoring check designed (DESIGN.md §4) but not yet built; nothing is claimed for it yet"} for cid in ALL if cid not in CHECKS]
    m = {
        "version": 1,
        "setup_cmd": "./setup.sh",
        "hooks": {
            "guard": "verif",
            "enable": "Go build tag: every ./run does `go build -tags verif` of /verif/harness, whose go.mod replaces github.com/ProtonMail/gluon with /repo, so /repo's current working tree is recompiled with the hooks on",
            "baseline_off_cmd": "cd /repo && GOFLAGS=-mod=mod GOPROXY=off GOSUMDB=off GOTOOLCHAIN=local go test -vet=off -count=1 -timeout 25m ./...",
            "source_commits": hooks_commits,
            "add_only": True,
        },
        "engines": [{"name": "vcheck", "path": "/verif/harness", "serves_properties": sorted(CHECKS), "kind_free_text": "Go harness: in-process and child-process gluon servers under generated workloads, wire-level monitors, reference models, failpoints, race detector, porcupine"}],
        "checks": checks,
        "notes": "Family of technique: runtime monitoring and sanitizers. See DESIGN.md; known-findings.txt lists findings/fixes; seeded/ holds the mutation experiments.",
        "not_applicable": na,
    }
    with open(os.path.join(ROOT, "MANIFEST.json"), "w") as f:
        json.dump(m, f, indent=1)
        f.write("\n")
    try:
        import jsonschema
        jsonschema.validate(m, json.load(open("/root/.vp/MANIFEST.schema.json")))
        print("manifest valid:", len(checks), "checks,", len(na), "not claimed")
    except ImportError:
        print("jsonschema not available; wrote manifest")

if __name__ == "__main__":
    main()

#!/bin/bash
# sweep.sh <tier> <seed> [seed ...]: run every claimed check at each seed; one line per (check, seed).
# A clean tree must show exit=0 and no VIOLATION line everywhere (KNOWN-FINDING lines are expected for C01 C02 C03 C04 C12).
tier=$1; shift
cd /verif
checks=$(python3 -c "import json;print(' '.join(c['property_id'] for c in json.load(open('MANIFEST.json'))['checks']))")
for seed in "$@"; do
  for c in $checks; do
    out=$(VERIF_SEED=$seed ./run $c $tier 2>&1); rc=$?
    v=$(echo "$out" | grep -c '^VIOLATION'); k=$(echo "$out" | grep -c '^KNOWN-FINDING'); inc=$(echo "$out" | grep -c 'inconclusive:')
    echo "seed=$seed $c exit=$rc violations=$v known=$k inconclusive=$inc :: $(echo "$out" | grep -m1 "^$c tier" | sed 's/.*evaluations/evaluations/' | cut -c1-120)"
    [ $rc -ne 0 ] || [ $inc -ne 0 ] && echo "$out" | grep -m3 'what:\|inconclusive:' | cut -c1-300
  done
done

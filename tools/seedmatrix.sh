#!/bin/bash
# seedmatrix.sh [seed-dir ...]: run every confirmed seed against the check of its property (quick tier),
# record in its meta.json what was run and what the check said. Patches that no longer apply are reported.
cd /verif
seeds=("$@"); [ ${#seeds[@]} -gt 0 ] || seeds=(/verif/seeded/*/)
for d in "${seeds[@]}"; do
  d=$(realpath "${d%/}"); name=$(basename "$d"); P=${name%-*}; V=${name#*-}
  [ -f "$d/patch.diff" ] || continue
  extra=""; case "$P" in C02) extra="C01";; C03) extra="C02";; esac
  if ! git -C /repo apply --check "$d/patch.diff" 2>/dev/null; then
    echo "$name: patch does not apply to the current tree"; python3 - "$d" <<'PY'
import json,sys,os
mp=os.path.join(sys.argv[1],"meta.json"); m=json.load(open(mp)) if os.path.exists(mp) else {}
m["applies_to_current_tree"]=False
json.dump(m,open(mp,"w"),indent=1)
PY
    continue
  fi
  git -C /repo apply "$d/patch.diff"
  res="{}"
  for c in $P $extra; do
    out=$(./run $c quick 2>&1); rc=$?
    nv=$(echo "$out" | grep -c '^VIOLATION')
    first=$(echo "$out" | grep -m1 'what:' | cut -c9-300)
    res=$(python3 - "$res" "$c" "$rc" "$nv" "$first" <<'PY'
import json,sys
r=json.loads(sys.argv[1]); r[sys.argv[2]]={"exit":int(sys.argv[3]),"violations":int(sys.argv[4]),"first":sys.argv[5]}
print(json.dumps(r))
PY
)
  done
  git -C /repo checkout -- .
  python3 - "$d" "$res" <<'PY'
import json,sys,os
d,res=sys.argv[1],json.loads(sys.argv[2])
mp=os.path.join(d,"meta.json"); m=json.load(open(mp)) if os.path.exists(mp) else {}
m["applies_to_current_tree"]=True
m["what_i_ran"]="git -C /repo apply seeded/%s/patch.diff; ./run <check> quick; git -C /repo checkout -- .  (tools/seedmatrix.sh)"%os.path.basename(d)
m["checks_run"]=res
m["detected_by"]=[c for c,v in res.items() if v["exit"]==1 and v["violations"]>0]
json.dump(m,open(mp,"w"),indent=1)
PY
  echo "$name: $(python3 -c "import json;m=json.load(open('$d/meta.json'));print('detected by',m['detected_by'])")"
done

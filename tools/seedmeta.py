#!/usr/bin/env python3
"""Writes the one-paragraph 'what it changes / what it needs to manifest' into every seeded/<id>/meta.json."""
import json, os
NEEDS = {
 "C01-c": ("the \\Seen side effect of a non-PEEK body FETCH is applied to the snapshot before the fetch can fail", "read-write SELECT, an unseen message, a body FETCH of a part that does not exist (BODY[2.1]): NO, no FETCH response, but the view has \\Seen"),
 "C01-d": ("flag FETCH responses are merged backwards across an EXPUNGE of a lower sequence number", "within one flush window: flag change on message k, EXPUNGE of j<k, flag change on the new message k"),
 "C03-c": ("STORE FLAGS (replace) without \\Deleted no longer clears the per-mailbox deleted mark in the index", "a message already \\Deleted, a replacing STORE without it, then a fresh SELECT / EXPUNGE"),
 "C03-d": ("APPEND with \\Deleted announces the message to selected sessions without the flag", "APPEND (\\Deleted) into a mailbox another session has selected, then EXPUNGE/CLOSE from that selection"),
 "C06-c": ("MessagesCreated caches a failed mailbox lookup", "one update with IgnoreUnknownMailboxIDs in which the same unknown mailbox id occurs twice: the valid batch fails"),
 "C06-d": ("a connector MailboxUpdated that only changes letter case is treated as 'same name'", "rename work -> Work from the connector"),
 "C07-c": ("SetMailboxMessagesDeletedFlag binds the whole id list for every chunk", "one STORE of \\Deleted on more than 1000 messages, then a restart or fresh SELECT (an index defect: caught by C03 and C08, not by C07's small base state)"),
 "C07-d": ("any non-migration error of the database Init recreates the user's database", "a transient DB failure exactly during start-up, then another start: everything is gone"),
 "C14-c": ("RENAME replaces every occurrence of the old name inside inferiors", "an inferior whose name repeats the old name after the prefix (work/work, work/homework)"),
 "C14-d": ("the case-insensitive INBOX prefix is only recognised with exactly one more level", "names like inbox/a/b (two or more levels below a non-upper-case INBOX)"),
 "C15-c": ("SENTSINCE compares instants instead of the header's calendar day", "a Date header with a non-zero offset whose local day differs from its UTC day, searched at that boundary"),
 "C15-d": ("TEXT lower-cases the search string before charset-decoding it", "TEXT with CHARSET ISO-8859-1 and a non-ASCII string"),

 "C02-c": ("a flag change made in another mailbox clears this mailbox's \\Deleted in the session's snapshot", "the same message in mailboxes A and B, a long-lived session on B whose copy is \\Deleted, a STORE without \\Deleted by a session on A"),
 "C02-d": ("MessageMailboxesUpdated queues its flag updates before its mailbox updates", "one connector update that files a message into a mailbox a session has selected and changes its flags at once"),
 "C04-c": ("RENAME INBOX gives the new mailbox INBOX's UIDVALIDITY", "RENAME INBOX x; DELETE x; RENAME INBOX x (or CREATE x; DELETE x; RENAME INBOX x)"),
 "C04-d": ("COPYUID lists sequence numbers as the source UIDs", "a COPY / UID COPY in a mailbox with a UID gap below the copied messages"),
 "C05-c": ("an EXPUNGE responder is only held back when its message is already in the snapshot at scan time", "a message arrives in and is removed from the selected mailbox between two commands, then FETCH / STORE / SEARCH"),
 "C05-d": ("MOVE flushes with EXPUNGE permitted only when something was moved", "a MOVE naming only messages that another session already removed"),
 "C10-c": ("the SEARCH CHARSET of one command sticks to the following SEARCH commands of the connection", "two SEARCH commands on one connection, the first with CHARSET"),
 "C10-d": ("the overflow guard of ParseNumber refuses the ten highest 32-bit values", "a number in 4294967286..4294967295 (UID range end, partial, LARGER/SMALLER)"),
 "C11-c": ("a refused SEARCH decrements the process-wide active-search counter without having incremented it", "one SEARCH refused inside Mailbox.Search (out-of-range number, undecodable string) followed by any SEARCH: integer divide by zero, the process dies"),
 "C11-d": ("EOF counts as comment text in the RFC 5322 parser", "an address or Date header value that ends inside an open comment: the parser spins for ever"),
 "C12-c": ("a multipart section is scanned to the end of the whole message instead of its own end", "a multipart nested in a multipart whose own closing delimiter is missing"),
 "C12-d": ("the literal size of an IMAP string is computed before NUL bytes are stripped", "a header value that decodes (RFC 2047 / RFC 2231) to both a line break and a NUL"),
 "C13-c": ("a re-downloaded literal is written back to the store without the ID header", "the store file of a message is lost, a FETCH downloads it again, then any further FETCH"),
 "C13-d": ("RFC822.SIZE of a message imported out of the recovery mailbox is taken before the ID header is added", "an APPEND the remote rejects, then COPY/MOVE of the message out of the recovery mailbox"),
 "C16-c": ("the upper end of a UID range is searched as uidHi+1, which wraps at 2^32", "a UID range with the bound 4294967295"),
 "C16-d": ("SEARCH checks the lower instead of the upper end of a sequence range against EXISTS", "a SEARCH sequence-set key with a range straddling EXISTS"),
 "C17-c": ("RENAME INBOX does not count the mailbox it creates against the limit", "RENAME INBOX x with the mailbox count at the maximum"),
 "C17-d": ("the UID limit check compares the current UID, not the UIDs the operation hands out", "a multi-message COPY/MOVE/connector batch into a mailbox whose UIDs are ahead of its count"),
 "C18-c": ("the login jail is awaited only by failing attempts", "three failed LOGINs, then a correct LOGIN within the jail time"),
 "C18-d": ("a failed EXAMINE keeps the previously selected mailbox selected", "SELECT a, EXAMINE nosuch (NO), then a selected-state command"),
 "C19-c": ("the response channel is no longer drained after a failed write", "a connection reset in the middle of a long response stream (FETCH of many large messages)"),
 "C19-d": ("the IDLE channel is closed only when the callback returns no error", "an unparsable line instead of DONE during IDLE"),
 "C20-c": ("a recovered message the remote de-duplicates on MOVE is not added to the destination", "a rejected APPEND, the same message accepted elsewhere, then MOVE out of the recovery mailbox with a remote that answers with the known message"),
 "C20-d": ("the recovery mailbox is listed while it holds a \\Recent message rather than any message", "a rejected APPEND, a SELECT of the recovery mailbox (clears \\Recent), then LIST"),


 "C01-a": ("STORE FLAGS (replace) stores one shared flag set in several sessions' snapshots", "two sessions with the mailbox selected, the message not \\Recent in them, a replacing STORE, then another session's FETCH that sets \\Seen: the first session's view changes without a FETCH response"),
 "C01-b": ("untagged responses buffered during IDLE are dropped when DONE arrives before the next bulk tick", "IDLE with bulking, an update applied during IDLE, DONE before the next tick"),
 "C02-a": ("pending responders survive a mailbox switch", "an update for mailbox A applied to a session between two commands, then SELECT of B before any flush"),
 "C02-b": ("the flag set of a STORE FLAGS update is shared between states instead of copied", "a replacing STORE on messages that are not \\Recent, then a further flag change in one of the sessions"),
 "C03-a": ("MOVE adds messages to the destination that the source no longer holds", "a stale snapshot: another session expunged the message, then MOVE/UID MOVE over it without an intervening flush"),
 "C03-b": ("a flag change coming from another mailbox wipes the per-mailbox \\Deleted mark in the snapshot", "the same message in two mailboxes, \\Deleted in Y, a STORE in X, then EXPUNGE in Y by a session that processed the update"),
 "C04-a": ("UIDNEXT is answered from the snapshot's last UID instead of the AUTOINCREMENT counter", "expunge the highest UID while older messages remain, then look at UIDNEXT"),
 "C04-b": ("the epoch UIDVALIDITY generator counts minutes instead of seconds", "DELETE+CREATE of the same name several times within a minute, or a restart"),
 "C05-a": ("failed selected-state commands flush with EXPUNGE permitted", "a pending removal plus a FETCH/STORE/SEARCH that ends in an error (unknown charset, read-only STORE)"),
 "C05-b": ("a second removal of a put-back message is never announced (queued-expunge 'dedupe')", "remove, put back, remove again while the observer has not yet run a command that permits EXPUNGE"),
 "C06-a": ("the replacement of a MessageUpdated is stamped with the OLD internal id", "MessageUpdated with new bytes, then the same update delivered again: removed and re-created on every replay"),
 "C06-b": ("MessagesCreated whose messages are all known is dropped (|| instead of &&)", "an update that only adds known messages to a further mailbox"),
 "C07-a": ("a failed MessagesCreated deletes the cache file of an already known message of the batch", "an update naming a known message whose transaction fails (any DB step), then a restart"),
 "C07-b": ("start-up removal of marked messages touches the store before the commit", "messages marked for deletion at start-up plus a failing store.Delete or a death between file removal and commit"),
 "C08-a": ("RemoveFlagFromMessages corrupts its argument list across the batch boundary", "one call with more than 1000 message ids"),
 "C08-b": ("foreign keys are only switched on for the first pooled connection", "two overlapping readers so that a second connection exists, then a write served by it"),
 "C09-a": ("truncation exactly at an encrypted-block boundary is no longer detected", "a stored form larger than 256 KiB cut at 27 + k*262160 bytes"),
 "C09-b": ("Delete drops the per-ID lock entry while other users still hold it", "Set holding the lock, Delete queued behind it, another Set queued behind the Delete, on one id"),
 "C10-a": ("the literal reader stops one byte short when a read ends right before the literal's last byte", "a literal of length >= 3 delivered so that a read boundary falls before its last byte (1-byte chunks)"),
 "C10-b": ("quoted strings containing TAB / control characters are rejected", "a quoted argument with a byte in 0x01-0x1F other than CR/LF"),
 "C11-a": ("ParseNumber's overflow guard misses the last-digit boundary", "FETCH with a partial offset of exactly MaxInt64+1 or +2 on a selected, non-empty mailbox: negative slice index, process dies"),
 "C11-b": ("the command reader is started with the server-wide context", "a session that ends (LOGOUT, 20 errors) while further pipelined lines are pending: one goroutine plus buffers leak per connection"),
 "C12-a": ("the MIME scanner leaves a stray CR in a completely empty body part", "--sep CRLF directly followed by CRLF --sep"),
 "C12-b": ("mergeMultiline indexes [-1] for a header value that begins with a bare LF", "LF-only line ends and a field whose first line holds only blanks after the colon (e.g. 'Subject: \\n folded')"),
 "C13-a": ("a partial <o.n> that overruns the section end returns bytes from beyond the section", "non-zero offset, count <= section length, offset+count beyond the end"),
 "C13-b": ("the delimiter scanner leaves a stray CR at the end of a part", "CRLF line ends and an empty body part (or a rejected delimiter occurrence right before the real one)"),
 "C14-a": ("CREATE does not create the missing superiors", "CREATE a/b/c where a or a/b do not exist, then LIST"),
 "C14-b": ("the LIST pattern with a trailing % is no longer anchored", "patterns like %b against names that merely end in the pattern"),
 "C15-a": ("OR does not merge the data requirements of its right operand", "OR <flag key> <header/size key>: the right side is evaluated without header/literal/date"),
 "C15-b": ("GetMessageDateAndSize ignores messages tombstoned in the database", "a message deleted elsewhere that is still in the session's view, and a SEARCH with a size or internal-date key"),
 "C16-a": ("the number 0 in a message set is accepted and treated as *", "a set containing 0 against a non-empty mailbox"),
 "C16-b": ("a missing single UID inside a UID union truncates the rest of the set", "UID command, a union whose non-last element is a single UID that does not exist"),
 "C17-a": ("MOVE checks the limits of the source instead of the destination", "small limits and a MOVE from an emptier mailbox into one at its limit"),
 "C17-b": ("messages flagged \\Deleted but not expunged do not count towards the per-mailbox limit", "fill a mailbox, flag some \\Deleted without EXPUNGE, then APPEND/COPY/MOVE"),
 "C18-a": ("the login counter is not reset when the jail ends", "a second round: three failures, the jailed attempt, two more failures, then one more attempt"),
 "C18-b": ("CLOSE after EXAMINE answers OK without deselecting", "EXAMINE, CLOSE, then any selected-state command"),
 "C19-a": ("EXAMINE takes the database read lock recursively", "an EXAMINE overlapping a write of the same user between the outer and the nested read lock: everything of that user blocks for ever"),
 "C19-b": ("clients that never logged in are not disconnected by Server.Close", "a connected, unauthenticated client at Close while the Serve context stays alive: goroutines and socket stay"),
 "C20-a": ("the dedup hash cache of recovered messages is never cleared", "a rejected APPEND, the message moved/expunged out of the recovery mailbox, the same bytes rejected again: dropped as 'known'"),
 "C20-b": ("a hashing error aborts the rescue into the recovery mailbox", "a rejected APPEND of a message whose text part cannot be decoded; unreachable after fix 233599b (the hash no longer fails for such messages), caught by C20 on the tree before it"),
}
root = "/verif/seeded"
for name, (what, needs) in NEEDS.items():
    d = os.path.join(root, name)
    if not os.path.isdir(d):
        print("not filed:", name); continue
    mp = os.path.join(d, "meta.json")
    m = json.load(open(mp)) if os.path.exists(mp) else {"property": name.split("-")[0], "variant": name.split("-")[1]}
    m["change"] = what
    m["needs_to_manifest"] = needs
    json.dump(m, open(mp, "w"), indent=1)
print("done")

#!/bin/bash
# seedrun.sh <prop> <variant> <check...>: apply a seeded change to /repo, run the given checks (quick), undo.
P=$1; V=$2; shift 2
PATCH=/verif/seeded/$P-$V/patch.diff; [ -f "$PATCH" ] || PATCH=/tmp/mut/$P/_out/$V/patch.diff
cd /verif
git -C /repo apply "$PATCH" || { echo "patch does not apply"; exit 2; }
trap 'git -C /repo checkout -- .' EXIT
for c in "$@"; do
  tier=quick; case "$c" in *:t) tier=thorough; c=${c%:t};; esac
  out=$(./run $c $tier 2>&1); rc=$?
  echo "[$P-$V] $c $tier exit=$rc $(echo "$out" | grep -c '^VIOLATION') violation(s): $(echo "$out" | grep -m2 'what:' | cut -c1-220)"
done

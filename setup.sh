#!/bin/bash
# Offline setup: warm the Go build cache and build the harness binaries from files on disk.
set -e
cd "$(dirname "$0")"
export VERIF_ROOT="$PWD"
export GOFLAGS=-mod=mod GOPROXY=off GOSUMDB=off GOTOOLCHAIN=local
mkdir -p bin work evidence replays
[ -f harness/go.sum ] || cp /repo/go.sum harness/go.sum
( cd harness && go build -tags verif -o ../bin/vcheck ./cmd/vcheck )
( cd harness && go build -race -tags verif -o ../bin/vcheck-race ./cmd/vcheck )
echo "setup ok"
